"""C08 — reported statistics obey their defining formulas.

Tie: correspondence (C).  Real `RawResults` / `bioResults` objects are built with the real
constructors from generated raw outcomes (a duck-typed model stub supplies the fields the
constructor reads); every attribute computed by `_calculate_stats` and every table
(`get_estimated_parameters`, `get_correlation_results`, `get_general_statistics`,
`compile_estimation_results`) is read back and compared

  * with the Lean model (`Model/Stats.lean` run on Float by `Driver/C08.lean`): the driver receives
    H, BHHH, the bootstrap sample, beta and the code's varCovar, checks the four Penrose equations
    numerically (the pseudo-inverse is relational in the model) and recomputes everything else;
  * with a property oracle written from the statement (numpy/math only, independent of Lean).

`tools.likelihood_ratio.likelihood_ratio_test` and `bioResults.likelihood_ratio_test` are driven
over generated pairs (the chi-square quantile of scipy is trusted), the method also between two real
results objects, with likelihoods of large magnitude and small relative differences.

Round 3: every *text* report path of the same object (`short_summary`, `__str__` with `Beta.__str__`
and the pair lines, `print_general_statistics`, `get_html`, `get_latex`, `get_f12` with both values of
their option, the files written by `write_html/_f12/_pickle`, the object read back from its pickle
file) is parsed back into labelled figures and compared with the model of `Model/StatsReports.lean`
and with an oracle written from the words of the labels (`props/c08_text.py`); secondary views
(`get_correlation_results(subset)`, `get_bootstrap_var_covar`, bootstrap draws by name) and secondary
entry points of the compiled table (dictionary of pickle file names, `compile_results_in_directory`).
"""

from __future__ import annotations

import datetime
import json
import math
from types import SimpleNamespace as NS

import numpy as np

from lib import core
from lib.core import Result, f2b, b2f
from props import c08_text as txt

READY = True
MANIFEST = dict(
    text='Proof (Lean 4): the Moore-Penrose relation determines the variance-covariance matrix and hence the whole report (C08.pinv_unique, all n, singular or not; '
    'report_deterministic, pinv_inverse, pinv_neg, varcovar_symm); each of the classical/robust/bootstrap families is closed: p = 2(1-Phi|t|) of that family\'s t, '
    't = estimate/se, se = sqrt of that family\'s variance, with the code\'s special cases (family_closed, family_regular, family_special, pvalue_shape); '
    'the matrix product D^-1 V D^-1 equals V_ij/(sqrt V_ii sqrt V_jj), unit diagonal, symmetry, |corr| <= 1 for the robust (PSD BHHH) and bootstrap families '
    '(corr_matrix_form, corr_diag_one, corr_symm, correlation_range); pair test formula and antisymmetry; robust = V B V symmetric with non-negative variances; '
    'sample covariance definition, symmetry, non-negative variances; LR/rho2/rhobar2/AIC/BIC formulas; every cell of the parameter, correlation, general-statistics and compiled '
    'tables is the quantity its label names (table_labels_*, finite label grammar, all layouts, formatted or not), rendered labels are distinct (labels_distinct; '
    'compiled_labels_unambiguous_partial under a guard on parameter names, with a collision witness without it); likelihood-ratio test roles/statistic/df/refusal '
    '(lr_refusal, lr_decision, lr_reject; lr_symmetric_partial with a witness that the order matters on ties; lr_on_results for the method of a results object). '
    'Text reports (round 3, Model/StatsReports.lean): every line of short_summary and __str__ is the defining formula of the statistic its words name (report_short_summary, '
    'report_str_statistics), print_general_statistics prints exactly the dictionary and is refused exactly when a figure is None under a precision (report_print_general, '
    'report_print_general_refused), every figure of a Beta.__str__ line is that family\'s statistic and the eight places of a pair line are cov/corr/t/p of the classical then robust family '
    '(report_str_parameters, report_str_pairs), the HTML report prints the non-None dictionary entries (report_html_statistics) and names the two parameters of a correlation row '
    'for names without "-" (report_html_pair_names_partial, witness html_pair_names_can_mislabel), F12 prints flag/value/standard error and correlation of the family selected by '
    'its option (report_f12_coefficients, report_f12_correlations); the words are pairwise different (text_labels_distinct); label -> attribute -> formula (general_sources, text_sources: the figure under a label is what was stored in the attribute the label reads, and that is the defining formula), the label -> attribute tables being regenerated on every run from a live results object whose attributes hold sentinel values (Generated/StatsLabels.lean, three decide obligations); get_correlation_results(subset) keeps exactly the rows of the pairs inside the subset (table_subset_correlation); bootstrap draws by name (draws_by_name). '
    'Tie: correspondence on real RawResults/bioResults objects built from generated raw outcomes (K=1..6, negative definite/singular/NaN/indefinite Hessians, '
    'with/without null likelihood and bootstrap, active bounds) and on real estimations with bootstrap; every attribute and every table cell compared; '
    'tools.likelihood_ratio_test and bioResults.likelihood_ratio_test over generated pairs (stubs and pairs of real results objects; magnitudes up to 3e7 with differences down to one rounding unit). '
    'Round 3: short_summary, __str__, print_general_statistics, get_html, get_latex (only_robust both ways), get_f12 (robust_std_err both ways) of every generated object, the files of '
    'write_html/write_f12, the object read back from write_pickle and the reports printed after the write_* calls are parsed into labelled figures: labels in order and every printed figure '
    '= format(model value) (model) and = the quantity the words name to the digits printed (oracle); get_correlation_results(subset), get_bootstrap_var_covar, bootstrap draws by name; '
    'compile_estimation_results on pickle file names and compile_results_in_directory; dictionaries mixing results objects, readable pickle files and unreadable entries (missing / corrupt / empty file) in every order, use_short_names both ways, and a directory with a stray unreadable *.pickle and a non-pickle file: column k depends on entry k only, the column of an unreadable entry is empty (Model/StatsCompile.lean; compiled_column_local, compiled_unreadable_empty, compiled_entries_labels, compiled_entries_all_readable); numerically rank-deficient Gram Hessians at several scales; large-sample likelihoods with init != null.',
    design='DESIGN.md §5 C08',
    technique='Lean 4 theorems over an executable NumOps model (Float in the driver, R in the proofs) + differential correspondence with real bioResults objects (attributes, tables, every text report parsed back) + translator from live objects (label -> attribute tables, decide) + independent numpy oracle',
    note='Partial: LAPACK (pinv/eigh/svd/inv), scipy Phi and chi-square quantile, numpy cov/dot and str.format are trusted; the pseudo-inverse is relational '
    '(four Penrose equations checked numerically on every case, by the driver and by numpy); theorems are over R, the driver runs on IEEE doubles (tolerances stated). '
    'Row labels of the compiled table are unambiguous only for parameter names that are not statistic labels and do not end in " (std)"/" (ttest)" (proved; collision witness otherwise). '
    'The likelihood-ratio test depends on the order of its arguments when the likelihoods or the numbers of parameters are equal (proved witness; not part of the statement). '
    'F-C08-1 (one-parameter model with bootstrap) is fixed in the tree and exercised. '
    'Text reports: str.format, pandas Styler.to_latex and the field layout are trusted/parsed, not modelled; print_general_statistics, get_latex (and short_summary/__str__ with a zero reference '
    'likelihood) raise TypeError when a figure is None (no initial log likelihood, zero reference): modelled as a refusal, not counted as a violation. '
    'The HTML report recovers the two names of a correlation row by split("-"): a parameter name containing "-" is printed as two other names (proved witness; names without "-" assumed). '
    'F12 correlation fields overflow their width for |correlation| >= 10 (indefinite Hessians): then only the count of fields is not checked. Eigenvalues printed by the HTML report: oracle only (LAPACK). '
    'The number of digits a report prints is not part of the property: printed figures are compared to the precision the text itself shows. '
    'Not covered: get_betas_for_sensitivity_analysis(use_bootstrap=False) (random draws), pareto_optimal (model selection, not a report figure), the headers.',
)

TRUSTED = [
    'LAPACK through scipy.linalg (pinv: only its defining relation is assumed and it is checked numerically on every case; inv of a diagonal matrix; eigh/svd not modelled)',
    'scipy.stats.norm.cdf (Phi) and chi2.ppf; Lean side uses its own erfc (|difference| checked within the p-value tolerance)',
    'numpy dot / cov / sqrt / nan_to_num and CPython str.format for the formatted table cells and for every printed figure of the text reports (the harness applies format() to the model value)',
    'pandas (DataFrame alignment, Styler.to_latex, pickle round trip) and the parsers of props/c08_text.py that read the labelled figures back from the text',
    'IEEE doubles vs R: theorems are over R; the executable model runs the same definitions on Float',
]
ASSUMPTIONS = [
    'regular-case hypotheses of the real-valued theorems: positive variance and |t| representable (else the special-case theorems apply)',
    'parameter names are distinct and do not collide with statistic labels or end in " (std)" / " (ttest)" (row labels of the compiled table)',
    'parameter names without "-" for the two name columns of the HTML correlation table; names of at most 10 characters for the F12 labels',
    'a missing initial log likelihood or a zero reference likelihood makes the text reports that print it with a precision raise TypeError (modelled refusal)',
]
RULE = (
    'raw outcomes with K in 1..6; non-trivial = K >= 2 and (Hessian exactly singular / numerically rank-deficient (collinear regressors, low-rank Gram matrices at several scales) / regular but badly scaled (condition number up to ~1e8) / regular with eigenvalues small in absolute terms (units 1e-3..1 per coordinate, overall scale 1e-4..1e2) / with NaN / indefinite, or bootstrap present, or an active bound); '
    'compiled tables over 1-3 models (objects, pickle file names, directory); likelihood-ratio pairs (tool, method on stubs, method between real objects); '
    'every report case also drives all text report paths of its object (tallies text:<path>:printed/refused)'
)
TOL = ('stage-wise (code matrix in, statistic out): rel 1e-11, p-values abs 1e-10; matrix products/covariances: 1e-9 of the scale; Penrose residuals: 1e4*K^2*eps*scale, '
       'the scale being the norm of THE pseudo-inverse (1/smallest non-zero singular value of -H) whenever the numerical rank is unambiguous; then also |V| <= 2K/sigma_min+ and V = reference pseudo-inverse (1e-6)')

WHERE_K1 = 'bioResults._calculate_stats: np.cov of a one-column bootstrap sample (K = 1)'

MATCHERS = {'k1_boot': lambda case: isinstance(case, dict) and len(case.get('beta', [])) == 1 and case.get('S') is not None}

NAME_POOL = ['b10', 'b2', 'alpha', 'zeta', 'B_TIME', 'asc=1', 'β_coût', 'x y', 'a-b', 'Z', 'a', 'mu(x)', 'ASC_CAR', 'b1']

MAXF = float(np.finfo(float).max)
EPS = float(np.finfo(float).eps)

DEFAULT_STATS = (
    'Number of estimated parameters',
    'Sample size',
    'Final log likelihood',
    'Akaike Information Criterion',
    'Bayesian Information Criterion',
)

# --------------------------------------------------------------------------- generators


def dy(rng, lo, hi, den=8):
    return rng.randint(int(lo * den), int(hi * den)) / den


def gen_H(rng, K, kind):
    """minus a Gram matrix (negative semi-definite) and variations"""
    if kind == 'negdef':
        G = np.array([[dy(rng, -2, 2) for _ in range(K + 2)] for _ in range(K)])
        M = G @ G.T + np.eye(K) * rng.choice([0.5, 1.0, 2.0])
        H = -M
    elif kind == 'singular':
        r = rng.randint(0, K - 1) if K > 1 else 0
        G = np.array([[dy(rng, -2, 2) for _ in range(r)] for _ in range(K)]).reshape(K, r)
        H = -(G @ G.T) if r > 0 else np.zeros((K, K))
        if K > 1 and rng.random() < 0.4:
            # an unidentified parameter: zero row and column
            k = rng.randrange(K)
            H[k, :] = 0.0
            H[:, k] = 0.0
    elif kind == 'nan':
        G = np.array([[dy(rng, -2, 2) for _ in range(K + 2)] for _ in range(K)])
        H = -(G @ G.T + np.eye(K))
        for _ in range(rng.randint(1, 2)):
            i, j = rng.randrange(K), rng.randrange(K)
            H[i, j] = np.nan
            H[j, i] = np.nan
    elif kind == 'indefinite':
        G = np.array([[dy(rng, -1, 1) for _ in range(K)] for _ in range(K)])
        d = np.array([rng.choice([-2.0, -1.0, 1.0, 3.0]) for _ in range(K)])
        d[rng.randrange(K)] = abs(d[0]) + 1.0  # at least one wrong sign
        Q, _ = np.linalg.qr(G + np.eye(K) * 3)
        H = Q @ np.diag(d) @ Q.T
        H = (H + H.T) / 2
    elif kind == 'collinear':
        # H = -X'WX with linearly dependent regressors and non-dyadic weights: rank deficient, but the
        # rounding errors keep an LU factorisation from seeing an exact zero pivot
        n = rng.randint(K + 3, K + 8)
        r = max(1, K - rng.randint(1, max(1, K - 1))) if K > 1 else 0
        base = np.array([[rng.choice([1.0, 0.0, rng.choice([0.0, 1.0]), round(rng.gauss(0, 1), 2)]) for _ in range(r)] for _ in range(n)]).reshape(n, r)
        if r > 0:
            base[:, 0] = 1.0  # a constant
        cols = [base[:, k] for k in range(r)]
        while len(cols) < K:
            if r == 0:
                cols.append(np.zeros(n))
                continue
            coef = [rng.choice([1.0, -1.0, 0.0, 0.5, rng.uniform(-2, 2)]) for _ in range(r)]
            if not any(coef):
                coef[0] = 1.0
            cols.append(sum(c * base[:, k] for k, c in enumerate(coef)))
        order = list(range(K))
        rng.shuffle(order)
        X = np.column_stack([cols[k] for k in order])
        prob = np.array([rng.uniform(0.1, 0.9) for _ in range(n)])
        H = -(X.T @ ((prob * (1 - prob))[:, None] * X))
    elif kind == 'gram':
        # H = -A A' with fewer columns than rows and non-dyadic entries, at several scales: rank deficient
        # up to rounding only (smallest eigenvalue ~1e-16 of the largest, not an exact zero pivot)
        r = rng.randint(1, K - 1) if K > 1 else 0
        A = np.array([[rng.uniform(-2, 2) for _ in range(r)] for _ in range(K)]).reshape(K, r)
        H = -(A @ A.T) * rng.choice([1e-3, 1.0, 1.0, 1e4]) if r > 0 else np.zeros((K, K))
    elif kind == 'scaled':
        # regular but badly scaled (parameters in different units): negative definite with a condition
        # number up to ~1e8 -- the (pseudo-)inverse is the true inverse, no singular value may be dropped
        G = np.array([[dy(rng, -2, 2) for _ in range(K + 2)] for _ in range(K)])
        D = np.diag([10.0 ** rng.choice([-1.5, -1.0, 0.0, 0.0, 1.0, 1.5]) for _ in range(K)])
        H = -(D @ (G @ G.T + np.eye(K)) @ D)
        H = (H + H.T) / 2
    elif kind == 'units':
        # regular Hessian whose eigenvalues are small in ABSOLUTE terms (variables in small units, tiny sample,
        # small weights: e.g. eigenvalues of -H like 3e-6, 60, 75): numerically full rank relative to the
        # largest one, so the (pseudo-)inverse is the true inverse and no direction may be dropped
        G = np.array([[dy(rng, -2, 2) for _ in range(K + 2)] for _ in range(K)])
        M = G @ G.T / (K + 2) + np.eye(K)
        D = np.diag([10.0 ** rng.choice([-3.0, -2.0, -1.0, 0.0, 0.0]) for _ in range(K)])
        H = -(D @ M @ D) * 10.0 ** rng.choice([-4.0, -3.0, -2.0, 0.0, 2.0])
        H = (H + H.T) / 2
    elif kind == 'diag':
        H = -np.diag([rng.choice([0.25, 1.0, 4.0, 16.0]) for _ in range(K)])
    else:  # zero
        H = np.zeros((K, K))
    return H


def gen_case(rng, K=None, kind=None, boot=None, allow_k1_boot=False):
    K = K or rng.choice([1, 2, 2, 3, 3, 4, 5, 6])
    kind = kind or rng.choice(['negdef', 'negdef', 'negdef', 'singular', 'singular', 'collinear', 'collinear', 'gram', 'gram', 'scaled', 'scaled', 'units', 'units', 'nan', 'indefinite', 'diag', 'zero'])
    names = rng.sample(NAME_POOL, K)
    beta = [rng.choice([dy(rng, -3, 3), rng.uniform(-2, 2), 0.0, 1.0]) for _ in range(K)]
    H = gen_H(rng, K, kind)
    n_obs = rng.randint(K + 1, 12)
    G = np.array([[rng.gauss(0, 1) * rng.choice([0.5, 1, 3]) for _ in range(K)] for _ in range(n_obs)])
    B = G.T @ G
    bk = rng.random()
    if bk < 0.1:
        B = np.zeros((K, K))
    elif bk < 0.15 and K > 1:
        B[rng.randrange(K), rng.randrange(K)] = np.nan
    if boot is None:
        boot = rng.random() < 0.5
    if K == 1 and boot and not allow_k1_boot:
        boot = False
    S = None
    if boot:
        nb = rng.choice([2, 5, 7, 10, 20, 50])
        S = np.array([[beta[k] + rng.gauss(0, 0.3) * (k + 1) for k in range(K)] for _ in range(nb)])
        if rng.random() < 0.12:
            S[:, rng.randrange(K)] = beta[0]  # a parameter that never moves: zero variance
        if K > 1 and rng.random() < 0.1:
            S[:, 1] = S[:, 0] * 2.0  # perfectly correlated replications
    bounds = []
    for k in range(K):
        r = rng.random()
        if r < 0.55:
            bounds.append([None, None])
        elif r < 0.7:
            bounds.append([beta[k], None])  # active lower bound
        elif r < 0.8:
            bounds.append([None, beta[k] + rng.choice([0.0, 5e-7, 9.9e-7, 1.1e-6, 2e-6])])
        elif r < 0.9:
            bounds.append([beta[k] - rng.choice([1e-7, 1e-6, 1.5e-6, 1.0]), beta[k] + 2.0])
        else:
            bounds.append([beta[k] - 3.0, beta[k] + 4.0])
    L = -rng.uniform(1, 500) if rng.random() < 0.8 else float(-rng.randint(1, 300))
    r = rng.random()
    init = None if r < 0.08 else (0.0 if r < 0.14 else L - rng.uniform(0, 200) if r < 0.9 else L + rng.uniform(0, 5))
    r = rng.random()
    null = None if r < 0.45 else (0.0 if r < 0.5 else L - rng.uniform(0, 300))
    N = rng.choice([1, 2, 10, 100, 999, 5000])
    if rng.random() < 0.15:
        # large sample: log likelihoods of large magnitude with small differences; warm start (init != null)
        L = -rng.uniform(1e4, 1e6)
        init = L - rng.choice([1e-3, 0.5, 3.0, 1e-3 * abs(L)])
        null = None if rng.random() < 0.3 else init - rng.choice([0.0, 2.0, 10.0, 1e-2 * abs(L)])
        N = rng.choice([5000, 100000, 2500000])
    nobs = N if rng.random() < 0.7 else N * rng.randint(2, 5)
    return {
        'kind': 'report',
        'hkind': kind,
        'names': names,
        'beta': beta,
        'bounds': bounds,
        'H': H.tolist(),
        'B': B.tolist(),
        'S': None if S is None else S.tolist(),
        'L': L,
        'init': init,
        'null': null,
        'N': N,
        'nobs': nobs,
        'excluded': rng.choice([0, 0, 3]),
        'mc': rng.random() < 0.2,
        'ndraws': rng.choice([10, 100]),
        'threads': rng.choice([1, 4]),
        'gnorm': True,
    }


# --------------------------------------------------------------------------- adapter (real code)


def _arr(m):
    return None if m is None else np.array(m, dtype=float)


def build_results(case):
    """real RawResults / bioResults from an abstract case (duck-typed model stub)"""
    from biogeme.results import RawResults, bioResults
    from biogeme.function_output import BiogemeFunctionOutput

    names = list(case['names'])
    K = len(names)
    bounds = {n: tuple(b) for n, b in zip(names, case['bounds'])}
    database = NS(
        name='data',
        get_sample_size=lambda: case['N'],
        get_number_of_observations=lambda: case['nobs'],
        typesOfDraws={'xi': 'NORMAL'} if case.get('mc') else {},
        excludedData=case.get('excluded', 0),
    )
    model = NS(
        modelName=case.get('model_name', 'm'),
        user_notes=None,
        id_manager=NS(free_betas=NS(names=names)),
        initLogLike=case['init'],
        nullLogLike=case['null'],
        get_bounds_on_beta=lambda n: bounds[n],
        database=database,
        monte_carlo=bool(case.get('mc')),
        number_of_draws=case.get('ndraws', 0),
        drawsProcessingTime=datetime.timedelta(seconds=1),
        optimizationMessages={'Algorithm': 'stub'},
        convergence=True,
        number_of_threads=case.get('threads', 1),
        bootstrap_time=datetime.timedelta(seconds=2),
    )
    g = np.zeros(K) + 0.125
    fgHb = BiogemeFunctionOutput(function=case['L'], gradient=g, hessian=_arr(case['H']), bhhh=_arr(case['B']))
    raw = RawResults(model, list(case['beta']), fgHb, bootstrap=_arr(case['S']))
    return bioResults(raw, identification_threshold=1.0e-5)


def fl(x):
    return None if x is None else float(x)


def mat(m):
    return None if m is None else [[float(x) for x in row] for row in np.asarray(m)]


def table_json(df):
    return {
        'columns': [str(c) for c in df.columns],
        'index': [str(i) for i in df.index],
        'values': [[None if (v is None) else float(v) for v in row] for row in df.to_numpy(dtype=object)],
    }


def extract(res):
    """every attribute and table of a real results object, as plain JSON-able data"""
    d = res.data
    out = {
        'K': int(d.nparam),
        'summary': {
            'lrtNull': fl(d.likelihoodRatioTestNull),
            'lrtInit': fl(d.likelihoodRatioTest),
            'rho2Init': fl(d.rhoSquare),
            'rho2Null': fl(d.rhoSquareNull),
            'rhoBar2Init': fl(d.rhoBarSquare),
            'rhoBar2Null': fl(d.rhoBarSquareNull),
            'akaike': fl(d.akaike),
            'bayesian': fl(d.bayesian),
        },
        'V': mat(d.varCovar),
        'corr': mat(d.correlation),
        'R': mat(d.robust_varCovar),
        'rcorr': mat(d.robust_correlation),
        'Bt': mat(getattr(d, 'bootstrap_varCovar', None)) if d.bootstrap is not None else None,
        'bcorr': mat(getattr(d, 'bootstrap_correlation', None)) if d.bootstrap is not None else None,
        'betas': [
            {
                'name': b.name,
                'value': fl(b.value),
                'active': bool(b.is_bound_active()),
                'cls': [fl(b.stdErr), fl(b.tTest), fl(b.pValue)],
                'rob': [fl(b.robust_stdErr), fl(b.robust_tTest), fl(b.robust_pValue)],
                'boot': [fl(b.bootstrap_stdErr), fl(b.bootstrap_tTest), fl(b.bootstrap_pValue)],
            }
            for b in d.betas
        ],
        'second': [[list(k), [float(x) for x in v]] for k, v in d.secondOrderTable.items()],
        'nfree': int(res.number_of_free_parameters()),
        'param_robust': table_json(res.get_estimated_parameters(only_robust=True)),
        'param_all': table_json(res.get_estimated_parameters(only_robust=False)),
        'corr_table': table_json(res.get_correlation_results()),
        'general': [
            [k, (v.value if isinstance(v.value, (int, float, np.integer, np.floating, type(None))) else '<opaque>'), v.format]
            for k, v in res.get_general_statistics().items()
        ],
        'varcovar_df': table_json(res.get_var_covar()),
        'robust_df': table_json(res.get_robust_var_covar()),
        'gnorm': fl(d.gradientNorm),
    }
    # secondary views: subset of the correlation table (with an unknown name), bootstrap data frame,
    # bootstrap draws by name
    names = list(d.betaNames)
    sub = [n for i, n in enumerate(names) if i % 2 == 0][::-1] + ['<unknown>'] if len(names) >= 3 else list(names[::-1])
    out['corr_subset'] = [sub, table_json(res.get_correlation_results(subset=sub))]
    bdf = res.get_bootstrap_var_covar()
    out['boot_df'] = None if bdf is None else table_json(bdf)
    if d.bootstrap is not None:
        req = names[::-1][: max(1, len(names) - 1)]
        out['sens'] = [req, [{k: float(v) for k, v in row.items()} for row in res.get_betas_for_sensitivity_analysis(req, use_bootstrap=True)]]
    else:
        out['sens'] = None
    out['vc_missing'] = bool(res.variance_covariance_missing())
    out['optkeys'] = [str(k) for k in d.optimizationMessages]
    for row in out['general']:
        if isinstance(row[1], (np.integer,)):
            row[1] = int(row[1])
        elif isinstance(row[1], (np.floating,)):
            row[1] = float(row[1])
    return out


def run_case(case):
    """-> ('ok', out) | ('exc', kind, message)"""
    try:
        with np.errstate(all='ignore'):
            res = build_results(case)
            return ('ok', extract(res), res)
    except Exception as e:  # noqa: BLE001
        return ('exc', core.exc_kind(e), f'{type(e).__name__}: {e}', None)


# --------------------------------------------------------------------------- comparison helpers


def same(a, b, rel=1e-11, abs_=0.0):
    if a is None or b is None:
        return a is None and b is None
    return core.close(a, b, rel, abs_)


def bits(x):
    return None if x is None else f2b(x)


def mbits(m):
    return [[f2b(x) for x in row] for row in m]


def unb(x):
    return None if x is None else b2f(x)


def unbm(m):
    return None if m is None else [[b2f(x) for x in row] for row in m]


def maxabs(m):
    a = np.asarray(m, dtype=float)
    a = a[np.isfinite(a)]
    return float(np.max(np.abs(a))) if a.size else 0.0


def mat_close(a, b, rel, scale=None):
    """entrywise |a-b| <= rel*scale (scale = max finite magnitude), NaN/inf agreeing in class"""
    A = np.asarray(a, dtype=float)
    Bm = np.asarray(b, dtype=float)
    if A.shape != Bm.shape:
        return False
    s = scale if scale is not None else max(maxabs(A), maxabs(Bm), 1e-300)
    for x, y in zip(A.flat, Bm.flat):
        if math.isnan(x) or math.isnan(y):
            if not (math.isnan(x) and math.isnan(y)):
                return False
        elif math.isinf(x) or math.isinf(y):
            if x != y:
                return False
        elif abs(x - y) > rel * s:
            return False
    return True


def pinv_reference(A):
    """(norm bound, reference pseudo-inverse) of A from its singular values when the numerical rank is
    unambiguous (no singular value between 1e-13 and 1e-9 of the largest one), else None.  The
    Moore-Penrose inverse is unique (C08.pinv_unique) and has spectral norm 1/sigma_min+."""
    A = np.asarray(A, dtype=float)
    if not np.all(np.isfinite(A)):
        return None
    try:
        U, sv, Vt = np.linalg.svd(A)
    except np.linalg.LinAlgError:
        return None
    smax = float(sv.max()) if sv.size else 0.0
    if smax == 0.0:
        return 0.0, np.zeros_like(A)
    if np.any((sv > 1e-13 * smax) & (sv < 1e-9 * smax)):
        return None
    keep = sv >= 1e-9 * smax
    inv = np.where(keep, 1.0 / np.where(keep, sv, 1.0), 0.0)
    ref = (Vt.T * inv) @ U.T
    return float(inv.max()), ref


def penrose_tolerances(K, nA, nX_code, ref):
    """tolerances of the four Penrose residuals.  With an unambiguous rank the scale is the norm of THE
    pseudo-inverse (1/sigma_min+), not the norm of whatever matrix the code returned."""
    c = 1e4 * K * K * EPS
    nX = nX_code if ref is None else max(ref[0], 1e-300)
    return [c * nA * nA * nX + 1e-300, c * nX * nX * nA + 1e-300, c * nA * nX + 1e-300, c * nA * nX + 1e-300], nX


def cov_scale(S, *mats):
    """scale for comparing sample covariances: their magnitude, but never below the rounding level of the
    data (a replication that never moves has variance 0 up to (eps*|x|)^2 noise)"""
    m = max([maxabs(x) for x in mats if x is not None] + [0.0])
    return max(m, 1e-12 * maxabs(S) ** 2, 1e-300)


def p_of_t(t):
    """the statement's formula 2(1 - Phi(|t|)), evaluated without cancellation"""
    if math.isnan(t):
        return float('nan')
    return math.erfc(abs(t) / math.sqrt(2.0))


PARAM_LABEL_ATTR = {
    'Value': ('value', None),
    'Active bound': ('active', None),
    'Std err': ('cls', 0),
    't-test': ('cls', 1),
    'p-value': ('cls', 2),
    'Rob. Std err': ('rob', 0),
    'Rob. t-test': ('rob', 1),
    'Rob. p-value': ('rob', 2),
    'Bootstrap t-test': ('boot', 1),
    'Bootstrap p-value': ('boot', 2),
}
CORR_LABEL_POS = {
    'Covariance': 0, 'Correlation': 1, 't-test': 2, 'p-value': 3,
    'Rob. cov.': 4, 'Rob. corr.': 5, 'Rob. t-test': 6, 'Rob. p-value': 7,
    'Boot. cov.': 8, 'Boot. corr.': 9, 'Boot. t-test': 10, 'Boot. p-value': 11,
}
GENERAL_LABEL = {
    'Number of estimated parameters': lambda c, o: o['K'],
    'Number of free parameters': lambda c, o: o['nfree'],
    'Sample size': lambda c, o: c['N'],
    'Observations': lambda c, o: c['nobs'],
    'Excluded observations': lambda c, o: c.get('excluded', 0),
    'Null log likelihood': lambda c, o: c['null'],
    'Init log likelihood': lambda c, o: c['init'],
    'Final log likelihood': lambda c, o: c['L'],
    'Likelihood ratio test for the null model': lambda c, o: o['summary']['lrtNull'],
    'Rho-square for the null model': lambda c, o: o['summary']['rho2Null'],
    'Rho-square-bar for the null model': lambda c, o: o['summary']['rhoBar2Null'],
    'Likelihood ratio test for the init. model': lambda c, o: o['summary']['lrtInit'],
    'Rho-square for the init. model': lambda c, o: o['summary']['rho2Init'],
    'Rho-square-bar for the init. model': lambda c, o: o['summary']['rhoBar2Init'],
    'Akaike Information Criterion': lambda c, o: o['summary']['akaike'],
    'Bayesian Information Criterion': lambda c, o: o['summary']['bayesian'],
    'Final gradient norm': lambda c, o: o['gnorm'],
    'Number of draws': lambda c, o: c.get('ndraws', 0),
    'Nbr of threads': lambda c, o: c.get('threads', 1),
}


# --------------------------------------------------------------------------- property oracle


def oracle(case, out):
    """The statement of C08 applied to the real outputs (numpy/math only).  Returns a list of
    (what, observed, expected, where)."""
    bad = []
    K = out['K']
    beta = case['beta']
    L, init, null, N = case['L'], case['init'], case['null'], case['N']
    s = out['summary']

    def chk(name, got, exp, where, rel=1e-11, abs_=0.0):
        if not same(got, exp, rel, abs_):
            bad.append((name, got, exp, where))

    W = 'bioResults._calculate_stats'
    # likelihood ratios, rho squares, information criteria
    chk('likelihood ratio test (init) = -2(L0 - L)', s['lrtInit'], None if init is None else -2.0 * (init - L), W)
    chk('likelihood ratio test (null) = -2(L0 - L)', s['lrtNull'], None if null is None else -2.0 * (null - L), W)
    for key, ref, kk in (('rho2Init', init, 0), ('rho2Null', null, 0), ('rhoBar2Init', init, K), ('rhoBar2Null', null, K)):
        if ref is not None and ref != 0.0:
            chk(f'{key} = 1 - (L - {"K" if kk else "0"})/L0', s[key], 1.0 - (L - kk) / ref, W)
        elif ref is None:
            chk(f'{key} without reference likelihood', s[key], None, W)
    chk('AIC = 2K - 2L', s['akaike'], 2.0 * K - 2.0 * L, W)
    chk('BIC = -2L + K ln N', s['bayesian'], -2.0 * L + K * math.log(N), W)

    H = np.nan_to_num(np.array(case['H'], dtype=float))
    V = np.array(out['V'], dtype=float)
    Bh = np.array(case['B'], dtype=float)
    with np.errstate(all='ignore'):
        # variance-covariance = pseudo-inverse of minus the Hessian: the four Penrose equations
        A = -H
        nA = max(maxabs(A), 1e-300)
        ref = pinv_reference(A)
        tols, nX = penrose_tolerances(K, nA, max(maxabs(V), 1e-300), ref)
        if np.all(np.isfinite(V)):
            rs = [maxabs(A @ V @ A - A), maxabs(V @ A @ V - V), maxabs((A @ V).T - A @ V), maxabs((V @ A).T - V @ A)]
            for i, (r, tol) in enumerate(zip(rs, tols)):
                if not r <= tol:
                    bad.append((f'varCovar is not a pseudo-inverse of -H (Penrose equation {i + 1})', r, f'<= {tol:.3g}', W))
                    break
            if ref is None and np.all(np.isfinite(A)):
                # rank ambiguous for the reference, but numerically full rank relative to LAPACK's cut-off
                # (every singular value > 1e-13 of the largest): the pseudo-inverse is the inverse, A.V = I
                # up to a RELATIVE tolerance (condition number x rounding)
                sv = np.linalg.svd(A, compute_uv=False)
                if sv.size and sv.min() > 1e-13 * sv.max():
                    cond = float(sv.max() / sv.min())
                    r = maxabs(A @ V - np.eye(K))
                    if not r <= min(0.5, 1e4 * K * K * EPS * cond):
                        bad.append(('varCovar is not the inverse of a regular -H: |(-H).V - I|', r, f'<= {min(0.5, 1e4 * K * K * EPS * cond):.3g}', W))
            if ref is not None:
                # the pseudo-inverse is unique: it is the reference one, and its entries are bounded by 1/sigma_min+
                if not maxabs(V) <= 2.0 * K * ref[0] + 1e-300:
                    bad.append(('varCovar is not the pseudo-inverse of -H: entries exceed the norm of the pseudo-inverse (1/smallest non-zero singular value)',
                                maxabs(V), f'<= {2.0 * K * ref[0]:.6g}', W))
                elif not mat_close(V, ref[1], 1e-6, scale=max(ref[0], 1e-300)):
                    bad.append(('varCovar differs from the (unique) pseudo-inverse of -H', out['V'], ref[1].tolist(), W))
        else:
            bad.append(('varCovar has non-finite entries', out['V'], 'finite pseudo-inverse', W))
        # robust = V B V
        Rexp = V @ Bh @ V
        nX = max(maxabs(V), 1e-300)
        if not mat_close(out['R'], Rexp, 1e-9, scale=max(maxabs(Rexp), nX * nX * maxabs(Bh) * 1e-3, 1e-300)):
            bad.append(('robust variance-covariance = V.BHHH.V', out['R'], Rexp.tolist(), W))
        # bootstrap = sample covariance
        if case['S'] is not None:
            S = np.array(case['S'], dtype=float)
            nb = S.shape[0]
            mean = S.sum(axis=0) / nb
            C = (S - mean).T @ (S - mean) / (nb - 1)
            if out['Bt'] is None or not mat_close(out['Bt'], C, 1e-9, scale=cov_scale(S, C, out['Bt'])):
                bad.append(('bootstrap variance-covariance = sample covariance of the replications', out['Bt'], C.tolist(), W))

    fams = [('cls', 'V', 'corr', 'Beta.set_std_err'), ('rob', 'R', 'rcorr', 'Beta.set_robust_std_err')]
    if case['S'] is not None and out['Bt'] is not None:
        fams.append(('boot', 'Bt', 'bcorr', 'Beta.set_bootstrap_std_err'))
    for fam, mk, ck, where in fams:
        M = np.array(out[mk], dtype=float)
        for k in range(K):
            se, t, p = out['betas'][k][fam]
            v = M[k, k]
            if v > 0 and math.isfinite(v):
                chk(f'{fam}: standard error = sqrt(variance) (parameter {k})', se, math.sqrt(v), where)
                if se is not None and se > 0 and math.isfinite(beta[k] / se):
                    chk(f'{fam}: t = estimate / standard error (parameter {k})', t, beta[k] / se, where)
            if t is not None and not math.isnan(t):
                chk(f'{fam}: p = 2(1 - Phi(|t|)) of this family\'s t (parameter {k})', p, p_of_t(t), where, rel=1e-9, abs_=1e-10)
        d = np.diag(M)
        Cm = np.array(out[ck], dtype=float)
        if np.all(np.isfinite(M)) and np.all(d > 0):
            for i in range(K):
                for j in range(K):
                    exp = M[i, j] / (math.sqrt(d[i]) * math.sqrt(d[j]))
                    if not same(float(Cm[i, j]), exp, 1e-9, 1e-12):
                        bad.append((f'{fam}: correlation({i},{j}) = covariance / (se_i se_j)', float(Cm[i, j]), exp, W))
        # pair tests
        pos = {'cls': 0, 'rob': 4, 'boot': 8}[fam]
        name_ix = {n: i for i, n in enumerate(case['names'])}
        for key, vals in out['second']:
            i, j = name_ix[key[0]], name_ix[key[1]]
            if len(vals) <= pos + 3:
                bad.append((f'{fam}: secondOrderTable entry too short', len(vals), pos + 4, W))
                continue
            cov, cor, t, p = vals[pos : pos + 4]
            chk(f'{fam}: secondOrderTable covariance ({i},{j})', cov, float(M[i, j]), W, rel=0.0)
            chk(f'{fam}: secondOrderTable correlation ({i},{j})', cor, float(Cm[i, j]), W, rel=0.0)
            r = M[i, i] + M[j, j] - 2.0 * M[i, j]
            sc = max(abs(M[i, i]), abs(M[j, j]), abs(M[i, j]))
            if math.isfinite(r) and r > 1e-6 * sc and sc > 0:
                chk(f'{fam}: pair test = (b_i - b_j)/sqrt(var_i + var_j - 2 cov_ij) ({i},{j})', t, (beta[i] - beta[j]) / math.sqrt(r), 'bioResults._calculate_test', rel=1e-9)
            if not math.isnan(t):
                chk(f'{fam}: pair p-value = 2(1 - Phi(|t|)) ({i},{j})', p, p_of_t(t), W, rel=1e-9, abs_=1e-10)
    bad += oracle_tables(case, out)
    return bad


def oracle_tables(case, out):
    """every cell of the tables is the quantity its label names (labels read as words)"""
    bad = []
    nb = None if case['S'] is None else len(case['S'])
    for tname, only_robust in (('param_robust', True), ('param_all', False)):
        T = out[tname]
        W = 'get_estimated_parameters'
        if T['index'] != case['names']:
            bad.append((f'{tname}: row labels', T['index'], case['names'], W))
            continue
        must = ['Value', 'Rob. Std err', 'Rob. t-test', 'Rob. p-value']
        if not only_robust:
            must += ['Std err', 't-test', 'p-value']
            if nb is not None:
                must += [f'Bootstrap[{nb}] Std err', 'Bootstrap t-test', 'Bootstrap p-value']
        if any(b['active'] for b in out['betas']):
            must.append('Active bound')
        if sorted(T['columns']) != sorted(must):
            bad.append((f'{tname}: columns', T['columns'], must, W))
        for k, row in enumerate(T['values']):
            b = out['betas'][k]
            for c, cell in zip(T['columns'], row):
                if c.startswith('Bootstrap[') and c.endswith('] Std err'):
                    exp = b['boot'][0]
                    if nb is None or c != f'Bootstrap[{nb}] Std err':
                        bad.append((f'{tname}: label {c!r} does not name the number of replications', c, nb, W))
                elif c not in PARAM_LABEL_ATTR:
                    bad.append((f'{tname}: unknown column label', c, sorted(PARAM_LABEL_ATTR), W))
                    continue
                else:
                    a, pos = PARAM_LABEL_ATTR[c]
                    exp = b[a] if pos is None else b[a][pos]
                    if a == 'active':
                        lb, ub = case['bounds'][k]
                        exp = 1.0 if ((lb is not None and abs(case['beta'][k] - lb) <= 1e-6) or (ub is not None and abs(case['beta'][k] - ub) <= 1e-6)) else 0.0
                if not same(cell, exp, 0.0):
                    bad.append((f'{tname}: cell ({case["names"][k]!r}, {c!r}) is not the quantity the label names', cell, exp, W))
    # correlation table
    T = out['corr_table']
    W = 'get_correlation_results'
    sec = {f'{k[0]}-{k[1]}': v for k, v in out['second']}
    if T['index'] != [f'{k[0]}-{k[1]}' for k, _ in out['second']]:
        bad.append(('correlation table: row labels', T['index'], list(sec), W))
    else:
        for rl, row in zip(T['index'], T['values']):
            for c, cell in zip(T['columns'], row):
                if c not in CORR_LABEL_POS:
                    bad.append(('correlation table: unknown column', c, sorted(CORR_LABEL_POS), W))
                elif not same(cell, sec[rl][CORR_LABEL_POS[c]], 0.0):
                    bad.append((f'correlation table: cell ({rl!r}, {c!r}) is not the quantity the label names', cell, sec[rl][CORR_LABEL_POS[c]], W))
        exp_cols = list(CORR_LABEL_POS)[: 12 if nb is not None else 8]
        if T['columns'] != exp_cols:
            bad.append(('correlation table: columns', T['columns'], exp_cols, W))
    # general statistics
    W = 'get_general_statistics'
    for label, value, _fmt in out['general']:
        if label in GENERAL_LABEL:
            exp = GENERAL_LABEL[label](case, out)
            ok = (value == exp) if isinstance(exp, int) and not isinstance(exp, bool) else same(value, exp, 0.0)
            if not ok:
                bad.append((f'general statistics: {label!r} is not the quantity the label names', value, exp, W))
    labels = [g[0] for g in out['general']]
    for need in ('Number of estimated parameters', 'Sample size', 'Final log likelihood', 'Akaike Information Criterion', 'Bayesian Information Criterion'):
        if need not in labels:
            bad.append((f'general statistics: {need!r} missing', labels, need, W))
    # data-frame views of the covariance matrices
    views = [('varcovar_df', 'V', 'get_var_covar'), ('robust_df', 'R', 'get_robust_var_covar')]
    if case['S'] is not None:
        views.append(('boot_df', 'Bt', 'get_bootstrap_var_covar'))
    elif out.get('boot_df') is not None:
        bad.append(('get_bootstrap_var_covar: a matrix without bootstrap sample', out['boot_df'], None, 'get_bootstrap_var_covar'))
    for tname, mk, W in views:
        T = out.get(tname)
        if T is None or T['index'] != case['names'] or T['columns'] != case['names'] or not mat_close(T['values'], out[mk], 0.0):
            bad.append((f'{W}: data frame is not the matrix by parameter names', T, out[mk], W))
    # subset of the correlation table: exactly the pairs with both names in the subset, same cells
    if out.get('corr_subset') is not None:
        sub, Ts = out['corr_subset']
        W = 'get_correlation_results'
        full = {rl: row for rl, row in zip(out['corr_table']['index'], out['corr_table']['values'])}
        exp_rows = [f'{k[0]}-{k[1]}' for k, _ in out['second'] if k[0] in sub and k[1] in sub]
        if Ts['index'] != exp_rows or Ts['columns'] != out['corr_table']['columns']:
            bad.append((f'correlation table of the subset {sub}: rows', Ts['index'], exp_rows, W))
        else:
            for rl, row in zip(Ts['index'], Ts['values']):
                if not all(same(a, b, 0.0) for a, b in zip(row, full[rl])):
                    bad.append((f'correlation table of the subset {sub}: row {rl!r}', row, full[rl], W))
    # bootstrap draws by name: every dict maps a requested name to that parameter's replication
    if out.get('sens') is not None and case['S'] is not None:
        req, rows = out['sens']
        W = 'get_betas_for_sensitivity_analysis'
        ix = {n: i for i, n in enumerate(case['names'])}
        exp = [{n: float(r[ix[n]]) for n in req} for r in case['S']]
        if rows != exp:
            bad.append((f'bootstrap draws by name for {req}', rows[:2], exp[:2], W))
    if out.get('vc_missing'):
        bad.append(('variance_covariance_missing() although a Hessian was supplied', True, False, 'variance_covariance_missing'))
    return bad


# --------------------------------------------------------------------------- model requests


def raw_req(case, out):
    return {
        'K': len(case['beta']), 'nfree': out['nfree'] if out else len(case['beta']), 'N': case['N'], 'nobs': case['nobs'],
        'excluded': case.get('excluded', 0), 'L': f2b(case['L']), 'init': bits(case['init']), 'null': bits(case['null']),
        'gnorm': bits(out['gnorm']) if out else None, 'mc': bool(case.get('mc')), 'ndraws': case.get('ndraws', 0),
        'hasboot': case['S'] is not None, 'threads': case.get('threads', 1),
    }


def rep_req(case, out):
    return {
        'names': case['names'],
        'beta': [f2b(x) for x in case['beta']],
        'bounds': [[bits(l), bits(u)] for l, u in case['bounds']],
        'V': mbits(out['V']),
        'R': mbits(out['R']),
        'Bt': None if out['Bt'] is None else mbits(out['Bt']),
        'nboot': 0 if case['S'] is None else len(case['S']),
    }


def report_req(case, out):
    r = rep_req(case, out)
    r.update({'op': 'report', 'H': mbits(case['H']), 'B': mbits(case['B']), 'S': None if case['S'] is None else mbits(case['S'])})
    return r


def compare_report(res, case, out, ans, gen):
    """model (driver answers) vs code"""
    K = out['K']

    def dv(what, model, impl):
        res.diverge(what, case, model, impl, where='bioResults._calculate_stats')

    if 'error' in ans or 'error' in gen:
        dv('driver error', [ans.get('error'), gen.get('error')], None)
        return
    # relational step
    pr = [b2f(x) for x in ans['penrose']]
    nA, nX = max(pr[4], 1e-300), max(pr[5], 1e-300)
    with np.errstate(all='ignore'):
        ref = pinv_reference(-np.nan_to_num(np.array(case['H'], dtype=float)))
    res.tally('rank_unambiguous' if ref is not None else 'rank_ambiguous')
    tols, _ = penrose_tolerances(K, nA, nX, ref)
    for i in range(4):
        if not pr[i] <= tols[i]:
            dv(f'IsPinv (nan_to_num H) (-varCovar): Penrose equation {i + 1} residual', pr[i], f'<= {tols[i]:.3g}')
            break
    # products and covariances
    Rm = unbm(ans['robust'])
    Bh = np.array(case['B'], dtype=float)
    sc = max(maxabs(Rm), nX * nX * maxabs(Bh) * 1e-3, 1e-300)
    if not mat_close(Rm, out['R'], 1e-9, scale=sc):
        dv('robust_varCovar vs Stats.robust', Rm, out['R'])
    if case['S'] is not None:
        Cm = unbm(ans['samplecov'])
        if out['Bt'] is None or not mat_close(Cm, out['Bt'], 1e-9, scale=cov_scale(case['S'], Cm, out['Bt'])):
            dv('bootstrap_varCovar vs Stats.sampleCov', Cm, out['Bt'])
    # families, stage-wise (the code's own matrix in, statistics out)
    for fam, ck in (('cls', 'corr'), ('rob', 'rcorr'), ('boot', 'bcorr')):
        fa = ans[fam]
        if fa is None:
            if fam == 'boot' and out['Bt'] is None:
                for b in out['betas']:
                    if b['boot'] != [None, None, None]:
                        dv('bootstrap statistics without bootstrap', None, b['boot'])
                continue
            dv(f'family {fam} missing in the model', None, fam)
            continue
        se, t, p = [unb(x) for x in fa['se']], [unb(x) for x in fa['t']], [unb(x) for x in fa['p']]
        for k in range(K):
            cse, ct, cp = out['betas'][k][fam]
            if not (same(se[k], cse) and same(t[k], ct) and same(p[k], cp, 1e-9, 1e-10)):
                dv(f'{fam}: (se, t, p) of parameter {k}', [se[k], t[k], p[k]], [cse, ct, cp])
        if not mat_close(unbm(fa['corr']), out[ck], 1e-11, scale=1.0 if fa['allpos'] else None):
            dv(f'{fam}: correlation matrix', unbm(fa['corr']), out[ck])
        if fa['allpos'] and not mat_close(unbm(fa['corr_entry']), out[ck], 1e-9, scale=1.0):
            dv(f'{fam}: correlation matrix vs textbook entries', unbm(fa['corr_entry']), out[ck])
    # the chain from the raw outcome (model's own robust / sample covariance), where well conditioned
    for fam, chain, mk in (('rob', 'chain_rob', 'R'), ('boot', 'chain_boot', 'Bt')):
        fa = ans[chain]
        if fa is None or out[mk] is None:
            continue
        M = np.array(out[mk], dtype=float)
        scale = maxabs(M)
        if fam == 'boot':
            scale = max(scale, 1e-6 * maxabs(case['S']) ** 2)
        for k in range(K):
            if not (math.isfinite(M[k, k]) and abs(M[k, k]) > 1e-6 * scale and scale > 0):
                res.tally('chain_skipped_illconditioned')
                continue
            cse, ct, cp = out['betas'][k][fam]
            if not (same(unb(fa['se'][k]), cse, 1e-7) and same(unb(fa['t'][k]), ct, 1e-7) and same(unb(fa['p'][k]), cp, 1e-6, 1e-8)):
                dv(f'{fam} (chain from the raw outcome): (se, t, p) of parameter {k}', [unb(fa['se'][k]), unb(fa['t'][k]), unb(fa['p'][k])], [cse, ct, cp])
    # second-order table
    so = [[b2f(x) for x in row] for row in ans['second_order']]
    if len(so) != len(out['second']):
        dv('number of parameter pairs', len(so), len(out['second']))
    else:
        for m_row, (key, c_row) in zip(so, out['second']):
            if len(m_row) != len(c_row):
                dv(f'secondOrderTable[{key}] length', len(m_row), len(c_row))
                continue
            for q, (a, b) in enumerate(zip(m_row, c_row)):
                tol = (1e-9, 1e-10) if q % 4 == 3 else (1e-11, 0.0)
                big = q % 4 == 1 and (abs(a) == MAXF or abs(b) == MAXF)
                if not same(a, b, *tol) and not (q % 4 == 1 and not big and same(a, b, 0.0, 1e-11)):
                    dv(f'secondOrderTable[{key}][{q}]', a, b)
    # tables
    for tname, cname in (('param_robust', 'param_cols_robust'), ('param_all', 'param_cols_all'), ('corr_table', 'corr_cols')):
        T = out[tname]
        if ans[cname] != T['columns']:
            dv(f'{tname}: column labels', ans[cname], T['columns'])
            continue
        rows = ans[tname]
        if [r[0] for r in rows] != T['index']:
            dv(f'{tname}: row labels', [r[0] for r in rows], T['index'])
            continue
        for r, crow in zip(rows, T['values']):
            for c, a, b in zip(T['columns'], r[1], crow):
                a = unb(a)
                isp = 'p-value' in c
                iscorr = 'orr' in c
                if a is None:
                    ok = b is None or (isinstance(b, float) and math.isnan(b))
                else:
                    ok = same(a, b, 1e-9 if isp else 1e-11, 1e-10 if isp else (1e-11 if iscorr and abs(a) < 2 else 0.0))
                if not ok:
                    dv(f'{tname}: cell ({r[0]!r}, {c!r})', a, b)
    # general statistics
    ms = gen['summary']
    for k2, v in out['summary'].items():
        if not same(unb(ms[k2]), v, 1e-12):
            dv(f'summary statistic {k2}', unb(ms[k2]), v)
    mg = gen['stats']
    if [g[0] for g in mg] != [g[0] for g in out['general']]:
        dv('general statistics: labels in order', [g[0] for g in mg], [g[0] for g in out['general']])
    else:
        for (label, gv), (_, cv, _f) in zip(mg, out['general']):
            if 'nat' in gv:
                ok = cv == gv['nat'] and not isinstance(cv, float)
                mv = gv['nat']
            elif 'num' in gv:
                mv = b2f(gv['num'])
                ok = same(mv, cv, 1e-12)
            elif 'onum' in gv:
                mv = unb(gv['onum'])
                ok = same(mv, cv, 1e-12)
            else:
                mv, ok = '<opaque>', cv == '<opaque>'
            if not ok:
                dv(f'general statistics[{label!r}]', mv, cv)


# --------------------------------------------------------------------------- compiled tables


def fmt_cell(v, se, t):
    std = '' if se is None else f'({se:.3g})'
    tt = '' if t is None else f'({t:.3g})'
    return f'{v:.3g} {std} {tt}'


def gen_compile(rng):
    n = rng.randint(1, 3)
    shared = rng.sample(NAME_POOL, 3)
    cases = []
    for m in range(n):
        K = rng.randint(1, 4)
        c = gen_case(rng, K=K, kind=rng.choice(['negdef', 'negdef', 'singular', 'diag']), boot=False)
        names = (shared[: rng.randint(0, min(3, K))] + [x for x in rng.sample(NAME_POOL, len(NAME_POOL)) if x not in shared])[:K]
        rng.shuffle(names)
        c['names'] = names
        c['mc'] = False
        cases.append(c)
    avail = ['Number of estimated parameters', 'Sample size', 'Excluded observations', 'Init log likelihood', 'Final log likelihood',
             'Likelihood ratio test for the init. model', 'Rho-square for the init. model', 'Rho-square-bar for the init. model',
             'Akaike Information Criterion', 'Bayesian Information Criterion', 'Final gradient norm', 'Nbr of threads']
    stats = list(DEFAULT_STATS) if rng.random() < 0.4 else rng.sample(avail, rng.randint(0, 6))
    cc = {
        'kind': 'compile',
        'models': cases,
        'model_names': rng.sample(['logit', 'nested 1', 'M_b', 'zz', 'a'], n),
        'statistics': stats,
        'params': rng.random() < 0.9,
        'std': rng.random() < 0.5,
        'ttest': rng.random() < 0.6,
        'formatted': rng.random() < 0.5,
        'short': rng.random() < 0.3,
        # 'directory': the models are written as pickle files and compiled by compile_results_in_directory;
        # 'files': the dictionary holds the names of the pickle files instead of the objects
        'via': rng.choice(['dict', 'dict', 'dict', 'directory', 'files']),
    }
    r = rng.random()
    if r < 0.35:
        # error paths: results objects, readable pickle files and unreadable entries (missing file, corrupt file,
        # empty file) mixed in every order; every model's column must follow from THAT model's raw outcome and
        # the column of an unreadable entry must stay empty
        layout = [rng.choice(['obj', 'file']) for _ in range(n)]
        for _ in range(rng.randint(1, 2)):
            layout.insert(rng.randint(0, len(layout)), rng.choice(['missing', 'corrupt', 'empty']))
        cc['via'] = 'mixed'
        cc['layout'] = layout
        cc['model_names'] = rng.sample(['logit', 'nested 1', 'M_b', 'zz', 'a', 'lost', 'old run'], len(layout))
    elif cc['via'] == 'directory' and rng.random() < 0.6:
        cc['stray'] = rng.choice(['corrupt', 'empty'])  # a stray unreadable *.pickle (and a non-pickle file) in the directory
    return cc


UNREADABLE = {'missing': None, 'corrupt': b'this is not a pickle file', 'empty': b''}


def colmap(cc):
    """column -> index of the model it must hold, None for an entry that cannot be read"""
    layout = cc.get('layout') or ['obj'] * len(cc['models'])
    out, k = [], 0
    for kind in layout:
        if kind in UNREADABLE:
            out.append(None)
        else:
            out.append(k)
            k += 1
    return out


def run_compile(cc):
    from biogeme.results import compile_estimation_results, compile_results_in_directory

    via = cc.get('via', 'dict')
    cm = colmap(cc)
    valid_names = [n for n, m in zip(cc['model_names'], cm) if m is not None]
    with np.errstate(all='ignore'):
        results, outs = [], []
        for c, n in zip(cc['models'], valid_names):
            r = build_results(dict(c, model_name=n) if via != 'dict' else c)
            results.append(r)
            outs.append(extract(r))
        if via == 'dict':
            d = {n: r for n, r in zip(cc['model_names'], results)}
            df, conf = compile_estimation_results(
                d, statistics=tuple(cc['statistics']), include_parameter_estimates=cc['params'], include_robust_stderr=cc['std'],
                include_robust_ttest=cc['ttest'], formatted=cc['formatted'], use_short_names=cc['short'])
        elif via == 'mixed':
            with core.scratch():
                d = {}
                for col, (kind, n, m) in enumerate(zip(cc['layout'], cc['model_names'], cm)):
                    if kind == 'obj':
                        d[n] = results[m]
                    elif kind == 'file':
                        d[n] = results[m].write_pickle()
                        results[m].data.pickleFileName = None
                    else:
                        d[n] = f'unreadable_{col}.pickle'
                        if UNREADABLE[kind] is not None:
                            with open(d[n], 'wb') as f:
                                f.write(UNREADABLE[kind])
                df, conf = compile_estimation_results(
                    d, statistics=tuple(cc['statistics']), include_parameter_estimates=cc['params'], include_robust_stderr=cc['std'],
                    include_robust_ttest=cc['ttest'], formatted=cc['formatted'], use_short_names=cc['short'])
        else:
            with core.scratch():
                files = [r.write_pickle() for r in results]
                for r in results:
                    r.data.pickleFileName = None
                if via == 'files':
                    d = {n: f for n, f in zip(cc['model_names'], files)}
                    df, conf = compile_estimation_results(
                        d, statistics=tuple(cc['statistics']), include_parameter_estimates=cc['params'], include_robust_stderr=cc['std'],
                        include_robust_ttest=cc['ttest'], formatted=cc['formatted'], use_short_names=cc['short'])
                else:
                    stray = cc.get('stray')
                    if stray:
                        with open('notes.txt', 'w') as f:
                            f.write('not a result file')
                        with open('stray_file.pickle', 'wb') as f:
                            f.write(UNREADABLE[stray])
                        files = files + ['stray_file.pickle']
                        valid_names = valid_names + ['stray_file.pickle']
                    df, conf = compile_results_in_directory(
                        statistics=tuple(cc['statistics']), include_parameter_estimates=cc['params'], include_robust_stderr=cc['std'],
                        include_robust_ttest=cc['ttest'], formatted=cc['formatted'])
                    # glob order is arbitrary: columns back into the order of the models, named by the model
                    back = {f: n for f, n in zip(files, valid_names)}
                    if sorted(conf.values()) != sorted(files) or sorted(map(str, df.columns)) != sorted(files):
                        raise ValueError(f'compile_results_in_directory: columns {list(df.columns)} / {conf} are not the pickle files {files}')
                    # glob order is arbitrary: the models are processed in the order of the columns
                    order = [files.index(str(c)) for c in df.columns]
                    df = df.rename(columns=back)
                    conf = {back[c]: back[f] for c, f in conf.items()}
                    nm = len(cc['models'])
                    outs = [outs[i] for i in order if i < nm]
                    cc['models'] = [cc['models'][i] for i in order if i < nm]
                    cc['model_names'] = [valid_names[i] for i in order]
                    cc['layout'] = ['file' if i < nm else stray for i in order]
    cols = [str(c) for c in df.columns]
    table = {'columns': cols, 'index': [str(i) for i in df.index], 'values': df.to_numpy(dtype=object).tolist(), 'conf': dict(conf)}
    for row in table['values']:
        for i, v in enumerate(row):
            if isinstance(v, np.integer):
                row[i] = int(v)
            elif isinstance(v, np.floating):
                row[i] = float(v)
    return table, outs


def oracle_compile(cc, table, outs):
    """every row of the compiled table holds, for each model, the quantity its label names"""
    bad = []
    W = 'compile_estimation_results'
    cols = table['columns']
    if [table['conf'].get(c) for c in cols] != cc['model_names']:
        bad.append(('columns of the compiled table do not map back to the models', [table['conf'].get(c) for c in cols], cc['model_names'], W))
        return bad
    cm = colmap(cc)
    if len(cols) != len(cm):
        bad.append(('the compiled table does not have one column per entry of the dictionary', cols, cc['model_names'], W))
        return bad
    for rl, row in zip(table['index'], table['values']):
        for col, cell in enumerate(row):
            m = cm[col]
            if m is None:
                # an entry that cannot be read: nothing of any other model may be shown in its column
                if cell != '':
                    bad.append((f'compiled table: cell ({rl!r}, {cc["model_names"][col]!r}) of an entry that cannot be read is not empty', cell, '', W))
                continue
            case, out = cc['models'][m], outs[m]
            by_name = {b['name']: b for b in out['betas']}
            exp = '<none>'
            if rl in cc['statistics']:
                gen = {g[0]: g[1] for g in out['general']}
                exp = gen.get(rl, '')
                if exp is None:
                    exp = ''
            elif cc['formatted']:
                suf = (' (std)' if cc['std'] else '') + (' (t-test)' if cc['ttest'] else '')
                nm = rl[: len(rl) - len(suf)] if suf and rl.endswith(suf) else (rl if not suf else None)
                if nm in by_name:
                    b = by_name[nm]
                    exp = fmt_cell(b['value'], b['rob'][0] if cc['std'] else None, b['rob'][1] if cc['ttest'] else None)
                else:
                    exp = ''
            else:
                if rl.endswith(' (std)') and rl[:-6] in by_name and cc['std']:
                    exp = by_name[rl[:-6]]['rob'][0]
                elif rl.endswith(' (ttest)') and rl[:-8] in by_name and cc['ttest']:
                    exp = by_name[rl[:-8]]['rob'][1]
                elif rl in by_name:
                    exp = by_name[rl]['value']
                else:
                    exp = ''
            if isinstance(exp, float) and math.isnan(exp):
                ok = cell == ''  # df.fillna('') shows a NaN statistic as an empty cell
            elif isinstance(exp, float) and isinstance(cell, (int, float)) and not isinstance(cell, bool):
                ok = same(float(cell), exp, 0.0)
            else:
                ok = cell == exp and type(cell) is type(exp) or (isinstance(exp, int) and isinstance(cell, (int, float)) and cell == exp)
            if not ok:
                bad.append((f'compiled table: cell ({rl!r}, model {cc["model_names"][col]!r}) is not the quantity the row label names', cell, exp, W))
    # every parameter of every model appears
    if cc['params']:
        for m, out in enumerate(outs):
            for b in out['betas']:
                lab = b['name'] + ((' (std)' if cc['std'] else '') + (' (t-test)' if cc['ttest'] else '') if cc['formatted'] else '')
                if lab not in table['index']:
                    bad.append((f'compiled table: no row for parameter {b["name"]!r}', table['index'], lab, W))
    return bad


def compile_req(cc, outs):
    return {
        'op': 'compile', 'statistics': cc['statistics'], 'params': cc['params'], 'std': cc['std'], 'ttest': cc['ttest'],
        'formatted': cc['formatted'],
        'models': [{'raw': raw_req(c, o), 'rep': rep_req(c, o)} for c, o in zip(cc['models'], outs)],
        'entries': colmap(cc),
    }


def compare_compile(res, cc, table, ans):
    W = 'compile_estimation_results'
    if 'error' in ans:
        res.diverge('driver error (compile)', cc, ans['error'], None, where=W)
        return
    rows = ans['rows']
    if [r[0] for r in rows] != table['index']:
        res.diverge('compiled table: row labels in order', cc, [r[0] for r in rows], table['index'], where=W)
        return
    for r, crow in zip(rows, table['values']):
        for m, (a, b) in enumerate(zip(r[1], crow)):
            if a is None:
                ok, mv = b == '', ''
            elif 'fmt' in a:
                v, se, t = a['fmt']
                mv = fmt_cell(b2f(v), unb(se), unb(t))
                ok = mv == b
            elif 'num' in a:
                mv = b2f(a['num'])
                ok = (b == '' and math.isnan(mv)) or (isinstance(b, (int, float)) and same(mv, float(b), 1e-12))
            else:
                g = a['g']
                if 'nat' in g:
                    mv = g['nat']
                    ok = isinstance(b, (int, float)) and b == mv
                elif 'num' in g:
                    mv = b2f(g['num'])
                    ok = (b == '' and math.isnan(mv)) or (isinstance(b, (int, float)) and same(mv, float(b), 1e-12))
                elif 'onum' in g:
                    mv = unb(g['onum'])
                    ok = (b == '' and (mv is None or math.isnan(mv))) or (mv is not None and isinstance(b, (int, float)) and same(mv, float(b), 1e-12))
                else:
                    mv, ok = '<opaque>', True
            if not ok:
                res.diverge(f'compiled table: cell ({r[0]!r}, model {m})', cc, mv, b, where=W)


# --------------------------------------------------------------------------- likelihood-ratio test


def gen_lr(rng):
    # likelihoods of ordinary and of large magnitude (large samples), differences from one rounding
    # unit to tens of units: small relative to the magnitude, decisive for the test
    mag = rng.choice([1.0, 1.0, 1.0, 1e2, 1e3, 1e4, 1e5])
    l1 = (-rng.uniform(50, 300) if rng.random() < 0.7 else float(-rng.randint(50, 300))) * mag
    r = rng.random()
    l2 = l1 if r < 0.1 else l1 + rng.choice([-1, 1]) * rng.choice([1e-9, 1e-3, 0.5, 1.0, 1.92, 3.0, 10.0, 40.0, abs(l1) * 1e-7, abs(l1) * 3e-6])
    k1 = rng.randint(1, 8)
    k2 = k1 if rng.random() < 0.15 else rng.randint(1, 8)
    return {'kind': 'lr', 'l1': l1, 'k1': k1, 'l2': l2, 'k2': k2, 'level': rng.choice([0.05, 0.01, 0.1, 0.5]),
            'via': rng.choice(['tools', 'results', 'objects', 'objects'])}


def mini_case(L, K):
    """a plain raw outcome with final log likelihood L and K parameters (for tests between results objects)"""
    return {'kind': 'report', 'hkind': 'diag', 'names': [f'p{k}' for k in range(K)], 'beta': [0.5 + k for k in range(K)], 'bounds': [[None, None]] * K,
            'H': (-np.eye(K)).tolist(), 'B': np.eye(K).tolist(), 'S': None, 'L': L, 'init': L - 10.0, 'null': None, 'N': 100, 'nobs': 100,
            'excluded': 0, 'mc': False, 'ndraws': 0, 'threads': 1}


def run_lr(c):
    """the real function; via='results' goes through bioResults.likelihood_ratio_test(other) on stubs,
    via='objects' through the method of a real results object given another real results object"""
    from biogeme.tools.likelihood_ratio import likelihood_ratio_test
    from biogeme.exceptions import BiogemeError

    try:
        if c['via'] == 'tools':
            r = likelihood_ratio_test((c['l1'], c['k1']), (c['l2'], c['k2']), c['level'])
        elif c['via'] == 'results':
            # bioResults.likelihood_ratio_test(other) calls the tool with (other, self)
            mk = lambda L, k: NS(data=NS(logLike=L, nparam=k))  # noqa: E731
            from biogeme.results import bioResults

            r = bioResults.likelihood_ratio_test(mk(c['l2'], c['k2']), mk(c['l1'], c['k1']), c['level'])
        else:
            with np.errstate(all='ignore'):
                me, other = build_results(mini_case(c['l2'], c['k2'])), build_results(mini_case(c['l1'], c['k1']))
            r = me.likelihood_ratio_test(other, c['level']) if c['level'] != 0.05 or c.get('explicit_level') else me.likelihood_ratio_test(other)
        return {'refused': False, 'message': r.message, 'stat': float(r.statistic), 'threshold': float(r.threshold)}
    except BiogemeError as e:
        return {'refused': True, 'message': str(e)}
    except Exception as e:  # noqa: BLE001
        return {'refused': None, 'message': f'{type(e).__name__}: {e}'}


def oracle_lr(c, got):
    """statement: unrestricted = the model with more parameters; statistic -2(L_r - L_u); refused when
    the unrestricted model has the lower likelihood; decision by the chi-square quantile"""
    from scipy.stats import chi2

    bad = []
    W = 'likelihood_ratio_test'
    if got['refused'] is None:
        return [('likelihood ratio test raised an unexpected exception', got['message'], 'LRTuple or BiogemeError', W)]
    if c['k1'] == c['k2'] or c['l1'] == c['l2']:
        return bad  # degenerate comparisons: not covered by the statement
    (lu, ku), (lr, kr) = ((c['l1'], c['k1']), (c['l2'], c['k2'])) if c['k1'] > c['k2'] else ((c['l2'], c['k2']), (c['l1'], c['k1']))
    if lu < lr:
        if not got['refused']:
            bad.append(('unrestricted model has the lower likelihood but the test is not refused', got, 'BiogemeError', W))
        return bad
    if got['refused']:
        bad.append(('valid pair of nested models refused', got['message'], 'test performed', W))
        return bad
    stat = -2.0 * (lr - lu)
    thr = float(chi2.ppf(1 - c['level'], ku - kr))
    if not same(got['stat'], stat, 1e-12):
        bad.append(('statistic = -2(L_r - L_u)', got['stat'], stat, W))
    if not same(got['threshold'], thr, 1e-12):
        bad.append(('threshold = chi2 quantile with K_u - K_r degrees of freedom', got['threshold'], thr, W))
    rejected = 'can be rejected' in got['message'] and 'cannot' not in got['message']
    if rejected != (stat > thr):
        bad.append(('decision: H0 rejected iff statistic > threshold', got['message'], f'rejected={stat > thr}', W))
    if f'{100 * c["level"]:.1f}%' not in got['message']:
        bad.append(('message names the significance level', got['message'], f'{100 * c["level"]:.1f}%', W))
    return bad


def compare_lr(res, c, got, ans):
    from scipy.stats import chi2

    W = 'likelihood_ratio_test'
    if 'error' in ans:
        res.diverge('driver error (lr)', c, ans['error'], None, where=W)
        return
    if ans['refused'] != got['refused']:
        res.diverge('likelihood ratio test: refusal', c, ans['refused'], got, where=W)
        return
    if got['refused']:
        return
    stat = b2f(ans['stat'])
    with np.errstate(all='ignore'):
        thr = float(chi2.ppf(1 - c['level'], ans['df']))
    if not same(stat, got['stat'], 0.0) or not same(thr, got['threshold'], 1e-12):
        res.diverge('likelihood ratio test: statistic / threshold for the degrees of freedom of the model', c, [stat, ans['df'], thr], got, where=W)
    rejected = 'cannot' not in got['message']
    model_rej = not (stat <= thr)
    if rejected != model_rej:
        res.diverge('likelihood ratio test: decision', c, model_rej, got['message'], where=W)


# --------------------------------------------------------------------------- real estimations


def real_estimation_case(rng, tag):
    """a real BIOGEME estimation (with bootstrap) whose results object goes through the same
    comparison: the raw outcome is read from results.data"""
    import pandas as pd
    import biogeme.biogeme as bio
    import biogeme.database as db
    from biogeme.expressions import Beta, Variable

    K = rng.randint(2, 3)
    n = rng.randint(12, 30)
    cols = {f'X{k}': [rng.gauss(0, 1) for _ in range(n)] for k in range(K)}
    truth = [rng.uniform(-1, 1) for _ in range(K)]
    cols['Y'] = [sum(truth[k] * cols[f'X{k}'][i] for k in range(K)) + rng.gauss(0, 0.5) for i in range(n)]
    names = rng.sample(NAME_POOL[:8], K)
    with core.scratch():
        d = db.Database(f'd{tag}', pd.DataFrame(cols))
        pred = None
        for k in range(K):
            t = Beta(names[k], 0.0, None, None, 0) * Variable(f'X{k}')
            pred = t if pred is None else pred + t
        ll = -((Variable('Y') - pred) ** 2)
        B = bio.BIOGEME(d, ll)
        B.modelName = f'c08real{tag}'
        B.generate_html = False
        B.generate_pickle = False
        B.save_iterations = False
        B.bootstrap_samples = rng.choice([5, 8])
        res = B.estimate(run_bootstrap=True)
    dt = res.data
    case = {
        'kind': 'report', 'hkind': 'real', 'names': list(dt.betaNames), 'beta': [float(x) for x in dt.betaValues],
        'bounds': [[None, None] for _ in dt.betaNames], 'H': mat(dt.H), 'B': mat(dt.bhhh), 'S': mat(dt.bootstrap),
        'L': float(dt.logLike), 'init': fl(dt.initLogLike), 'null': fl(dt.nullLogLike), 'N': int(dt.sampleSize),
        'nobs': int(dt.numberOfObservations), 'excluded': int(dt.excludedData), 'mc': bool(dt.monte_carlo),
        'ndraws': int(dt.numberOfDraws), 'threads': int(dt.numberOfThreads), 'real': True,
    }
    return case, extract(res), res


# --------------------------------------------------------------------------- translator (live objects -> Lean data)

GEN_FILE = core.LEAN / 'Generated' / 'StatsLabels.lean'

# attributes of RawResults read by the reports: (name, kind); every one receives a distinct sentinel value
SENTINEL_ATTRS = [
    ('nparam', 'int'), ('sampleSize', 'int'), ('numberOfObservations', 'int'), ('excludedData', 'int'), ('numberOfDraws', 'int'), ('numberOfThreads', 'int'),
    ('nullLogLike', 'float'), ('initLogLike', 'float'), ('logLike', 'float'), ('likelihoodRatioTestNull', 'float'), ('rhoSquareNull', 'float'),
    ('rhoBarSquareNull', 'float'), ('likelihoodRatioTest', 'float'), ('rhoSquare', 'float'), ('rhoBarSquare', 'float'), ('akaike', 'float'),
    ('bayesian', 'float'), ('gradientNorm', 'float'),
    ('drawsProcessingTime', 'time'), ('typesOfDraws', 'dict'), ('bootstrap_time', 'time'),
]


def _sentinel_object():
    """a real results object (all optional blocks present) whose report attributes hold distinct sentinels"""
    case = dict(CORPUS[0], bounds=[[0.5, None], [None, None]], mc=True, ndraws=10, nobs=300)
    with np.errstate(all='ignore'):
        robj = build_results(case)
    sent = {}
    for i, (a, kind) in enumerate(SENTINEL_ATTRS):
        v = {'int': 201 + i, 'float': 101 + i + 0.123456789, 'time': datetime.timedelta(seconds=301 + i), 'dict': {f's{301 + i}': 'x'}}[kind]
        setattr(robj.data, a, v)
        sent[a] = v
    return robj, sent


def _attr_of_value(v, sent, robj):
    for a, s in sent.items():
        if isinstance(s, dict):
            if v == [f'{i}: {k}' for i, k in s.items()]:
                return a
        elif type(v) is type(s) and v == s:
            return a
    if isinstance(v, (int, np.integer)) and not isinstance(v, bool) and v == robj.number_of_free_parameters():
        return 'number_of_free_parameters()'
    return f'<unrecognised value {v!r}>'


def _attr_of_text(t, sent):
    """printed figure -> (attribute, format code) through the sentinels"""
    t = t.strip()
    try:
        x = float(t)
    except ValueError:
        return f'<unrecognised text {t!r}>', '?'
    for a, s in sent.items():
        if isinstance(s, int) and x == s and '.' not in t:
            return a, ''
        if isinstance(s, float) and math.floor(x) == math.floor(s):
            digits = len(t.replace('-', '').replace('.', ''))
            return a, {7: '.7g', 3: '.3g'}.get(digits, f'<{digits} digits>')
    return f'<unrecognised figure {t!r}>', '?'


def _lean_str(s):
    return '"' + s.replace('\\', '\\\\').replace('"', '\\"') + '"'


def translate(ctx):
    """regenerate lean/Generated/StatsLabels.lean from LIVE objects: a real results object whose report
    attributes were overwritten by distinct sentinel values tells, for every label of get_general_statistics /
    short_summary / __str__, which attribute is printed under it; the obligations state
    that these tables ARE the label -> attribute tables of the Lean model (whose values
    `general_sources` / `text_sources` of Props/C08.lean tie to the defining formulas)."""
    import re

    names = ['general_table_eq', 'short_table_eq', 'str_table_eq']
    try:
        with core.scratch():
            robj, sent = _sentinel_object()
            gen = [(k, _attr_of_value(v.value, sent, robj)) for k, v in robj.get_general_statistics().items()]
            short = [(lab, _attr_of_text(t, sent)[0]) for lab, t in txt.parse_colon('\n'.join(robj.short_summary().split('\n')[1:]))]
            st = str(robj).split('\n')
            i0 = next(n for n, ln in enumerate(st) if ln.startswith('Results for model')) + 1
            lines = []
            for ln in st[i0:]:
                if ':\t' not in ln or ln.startswith(f'{robj.data.betas[0].name:15}: '):
                    break
                lines.append(ln)
            strt = [(lab, _attr_of_text(t, sent)[0]) for lab, t in txt.parse_colon('\n'.join(lines))]
    except Exception as e:  # noqa: BLE001
        return [{'name': f'Generated.StatsLabels.{n}', 'ok': False, 'why': f'the live reports could not be read: {type(e).__name__}: {e}'[:300]} for n in names]

    def table(name, rows):
        return [f'def {name} : List (String × String) := ['] + [
            f'  ({_lean_str(a)}, {_lean_str(b)})' + (',' if n < len(rows) - 1 else '') for n, (a, b) in enumerate(rows)] + [']', '']

    text = '\n'.join([
        '/- GENERATED on every run by harness/props/c08.py (translate) from LIVE results objects of biogeme.results:',
        '   a real bioResults whose report attributes hold distinct sentinel values is printed; for every label the table',
        '   records the attribute whose sentinel appears under it (the number of digits printed is not part of the tie).  Do not edit. -/',
        'import Model.StatsSources', '', 'namespace GenStats', 'open Stats', ''] +
        table('generalTable', gen) + table('shortTable', short) + table('strTable', strt) + [
        '/-- the dictionary of `get_general_statistics` reads, under every label, the attribute the model says -/',
        'theorem general_table_eq : generalTable = GLabel.all.map (fun l => (l.render, l.source.name)) := by decide', '',
        '/-- `short_summary` prints, under every one of its words, the attribute the model says -/',
        'theorem short_table_eq : shortTable = shortLabels.map (fun l => (l.textLabel, l.source.name)) := by decide', '',
        '/-- `__str__` likewise -/',
        'theorem str_table_eq : strTable = strLabels.map (fun l => (l.textLabel, l.source.name)) := by decide', '',
        'end GenStats', ''])
    if not GEN_FILE.exists() or GEN_FILE.read_text() != text:
        GEN_FILE.write_text(text)
    ok, log = core.lean_build(['Generated.StatsLabels'])
    failed = set()
    if not ok:
        tl = text.splitlines()
        starts = {n: next(i for i, l in enumerate(tl, 1) if l.startswith(f'theorem {n} ')) for n in names}
        for m in re.finditer(r'error: Generated/StatsLabels\.lean:(\d+):\d+', log):
            owner = max((n for n in names if starts[n] <= int(m.group(1))), key=lambda n: starts[n], default=None)
            if owner:
                failed.add(owner)
        if not failed:
            failed = set(names)
    obligations = []
    for n, rows in zip(names, (gen, short, strt)):
        why = 'decide' if n not in failed else ('the live table differs from the model: ' + json.dumps(rows)[:400])
        obligations.append({'name': f'Generated.StatsLabels.{n}', 'ok': n not in failed, 'why': why})
    return obligations


# --------------------------------------------------------------------------- the check

CORPUS = [
    # F03 (fixed): bootstrap p-value must come from the bootstrap t, not the robust t
    {'kind': 'report', 'hkind': 'corpus', 'names': ['b10', 'b2'], 'beta': [0.5, -1.0], 'bounds': [[None, None], [None, None]],
     'H': [[-4.0, 1.0], [1.0, -3.0]], 'B': [[30.0, 2.0], [2.0, 50.0]],
     'S': [[0.45, -1.1], [0.55, -0.9], [0.5, -1.0], [0.52, -1.05], [0.48, -0.95]],
     'L': -100.0, 'init': -120.0, 'null': -150.0, 'N': 100, 'nobs': 100, 'excluded': 0, 'mc': False, 'ndraws': 0, 'threads': 1},
    # zero reference likelihood, NaN in the Hessian, active bound, singular Hessian
    {'kind': 'report', 'hkind': 'corpus', 'names': ['zeta', 'alpha', 'a-b'], 'beta': [1.0, 0.0, -2.5], 'bounds': [[1.0, None], [None, None], [-3.0, 4.0]],
     'H': [[-1.0, -1.0, float('nan')], [-1.0, -1.0, 0.0], [float('nan'), 0.0, -2.0]], 'B': [[1.0, 0.5, 0.0], [0.5, 2.0, 0.0], [0.0, 0.0, 0.0]],
     'S': None, 'L': -50.0, 'init': 0.0, 'null': None, 'N': 7, 'nobs': 21, 'excluded': 3, 'mc': True, 'ndraws': 100, 'threads': 4},
]
def _collinear_corpus():
    dummy = np.array([1.0, 0.0, 1.0, 1.0, 0.0, 0.0, 1.0])
    x = np.column_stack([np.ones(7), dummy, 1.0 - dummy])
    prob = np.array([0.3, 0.45, 0.62, 0.21, 0.77, 0.52, 0.35])
    H = -(x.T @ ((prob * (1.0 - prob))[:, None] * x))
    sc = x * (np.array([0.7, -0.45, 0.38, -0.21, 0.23, -0.52, 0.65]))[:, None]
    return {'kind': 'report', 'hkind': 'collinear', 'names': ['asc', 'b_yes', 'b_no'], 'beta': [0.5, -1.2, 0.8], 'bounds': [[None, None]] * 3,
            'H': H.tolist(), 'B': (sc.T @ sc).tolist(), 'S': None, 'L': -100.0, 'init': -140.0, 'null': -150.0, 'N': 7, 'nobs': 7, 'excluded': 0,
            'mc': False, 'ndraws': 0, 'threads': 1}


# a constant and two complementary dummies: rank 2 with 3 parameters, not exactly singular in floating point
CORPUS.append(_collinear_corpus())

# warm start on a large sample: init != null, both close to the final value relative to the magnitude
CORPUS.append({'kind': 'report', 'hkind': 'corpus', 'names': ['B_TIME', 'ASC_CAR'], 'beta': [-1.25, 0.5], 'bounds': [[None, None], [None, 0.5]],
               'H': [[-4.0e4, 1.0e3], [1.0e3, -3.0e4]], 'B': [[5.0e4, 2.0e3], [2.0e3, 2.5e4]], 'S': None, 'L': -398765.4321, 'init': -398771.0,
               'null': -412345.678, 'N': 2500000, 'nobs': 2500000, 'excluded': 0, 'mc': False, 'ndraws': 0, 'threads': 1})

# a regular Hessian with one small but valid eigenvalue (a variable in small units): eigenvalues of -H about 2e-6, 45, 75
CORPUS.append({'kind': 'report', 'hkind': 'units', 'names': ['b_cost', 'asc', 'b_time'], 'beta': [250.0, -0.5, 1.25], 'bounds': [[None, None]] * 3,
               'H': [[-2.5e-6, 3.0e-4, -2.0e-4], [3.0e-4, -60.0, 15.0], [-2.0e-4, 15.0, -60.0]], 'B': [[3.0e-6, 1.0e-4, 0.0], [1.0e-4, 50.0, 5.0], [0.0, 5.0, 70.0]],
               'S': None, 'L': -40.0, 'init': -55.0, 'null': -55.0, 'N': 12, 'nobs': 12, 'excluded': 0, 'mc': False, 'ndraws': 0, 'threads': 1})

CORPUS_K1_BOOT = {
    'kind': 'report', 'hkind': 'corpus', 'names': ['b'], 'beta': [0.5], 'bounds': [[None, None]], 'H': [[-4.0]], 'B': [[3.0]],
    'S': [[0.4], [0.6], [0.5]], 'L': -100.0, 'init': -120.0, 'null': None, 'N': 100, 'nobs': 100, 'excluded': 0, 'mc': False, 'ndraws': 0, 'threads': 1,
}
CORPUS_COMPILE = [
    # F04 (fixed): formatted=False must store the standard error / t-test in the (std)/(ttest) rows
    {'kind': 'compile', 'models': [dict(CORPUS[0], S=None)], 'model_names': ['m1'], 'statistics': list(DEFAULT_STATS), 'params': True, 'std': True,
     'ttest': True, 'formatted': False, 'short': False},
]
CORPUS_LR = [
    {'kind': 'lr', 'l1': -100.0, 'k1': 5, 'l2': -110.0, 'k2': 3, 'level': 0.05, 'via': 'tools'},
    {'kind': 'lr', 'l1': -110.0, 'k1': 3, 'l2': -100.0, 'k2': 5, 'level': 0.05, 'via': 'results'},
    {'kind': 'lr', 'l1': -100.0, 'k1': 3, 'l2': -110.0, 'k2': 5, 'level': 0.05, 'via': 'tools'},
    # large samples: a difference that is tiny relative to the magnitude and decisive for the test
    {'kind': 'lr', 'l1': -250000.0, 'k1': 4, 'l2': -249996.5, 'k2': 5, 'level': 0.05, 'via': 'tools'},
    {'kind': 'lr', 'l1': -249996.5, 'k1': 5, 'l2': -250000.0, 'k2': 4, 'level': 0.01, 'via': 'objects'},
    {'kind': 'lr', 'l1': -1000.005, 'k1': 2, 'l2': -1000.0, 'k2': 3, 'level': 0.05, 'via': 'objects'},
]


def nontrivial(case):
    return len(case['beta']) >= 2 and (
        case.get('hkind') in ('singular', 'collinear', 'gram', 'scaled', 'units', 'nan', 'indefinite', 'zero', 'real') or case['S'] is not None
        or any(l is not None or u is not None for l, u in case['bounds'])
    )


def k1_boot_known(ctx):
    return any(f.get('id') == 'F-C08-1' and f.get('kind') == 'known' for f in ctx.findings)


def compare_views(res, case, out, sub_ans, sens_ans):
    """secondary views: model vs code"""
    W = 'get_correlation_results'
    if 'error' in sub_ans:
        res.diverge('driver error (subset)', case, sub_ans['error'], None, where=W)
    else:
        sub, T = out['corr_subset']
        rows = sub_ans['rows']
        if [r[0] for r in rows] != T['index']:
            res.diverge(f'correlation table of the subset {sub}: row labels', case, [r[0] for r in rows], T['index'], where=W)
        else:
            for r, crow in zip(rows, T['values']):
                for c, a, b in zip(T['columns'], r[1], crow):
                    isp = 'p-value' in c
                    if not same(unb(a), b, 1e-9 if isp else 1e-11, 1e-10 if isp else (1e-11 if 'orr' in c else 0.0)):
                        res.diverge(f'correlation table of the subset {sub}: cell ({r[0]!r}, {c!r})', case, unb(a), b, where=W)
    if sens_ans is not None:
        W = 'get_betas_for_sensitivity_analysis'
        if 'rows' not in sens_ans:
            res.diverge('bootstrap draws by name: the model refuses', case, sens_ans, out['sens'][0], where=W)
        else:
            m = [{n: b2f(v) for n, v in row} for row in sens_ans['rows']]
            if m != out['sens'][1]:
                res.diverge(f'bootstrap draws by name for {out["sens"][0]}', case, m[:2], out['sens'][1][:2], where=W)


def full_oracle(case, out, robj):
    """the statement applied to the attributes, the tables and every text report of one object"""
    return oracle(case, out) + txt.oracle_text(case, out, txt.collect(robj), GENERAL_LABEL)


def written_reports(robj, rng):
    """state left behind by the write_* methods: the files they write and the reports printed after
    them (file names recorded in the object), and the object read back from its pickle file"""
    from biogeme.results import bioResults

    only_robust = rng.random() < 0.5
    rob12 = rng.random() < 0.5
    texts = {}
    with core.scratch() as d:
        try:
            with np.errstate(all='ignore'):
                robj.write_html(only_robust=only_robust)
                texts['html_robust' if only_robust else 'html_all'] = ['ok', open(robj.data.htmlFileName, encoding='utf-8').read()]
                robj.write_f12(robust_std_err=rob12)
                texts['f12_robust' if rob12 else 'f12_classical'] = ['ok', open(robj.data.F12FileName, encoding='utf-8').read()]
                try:
                    robj.write_latex()
                    texts['latex_robust'] = ['ok', open(robj.data.latexFileName, encoding='utf-8').read()]
                except TypeError as e:  # None under a precision: the modelled refusal of get_latex
                    texts['latex_robust'] = ['exc', f'TypeError: {e}']
                pk = robj.write_pickle()
                back = bioResults(pickle_file=pk, identification_threshold=1.0e-5)
                texts.update(txt.collect(back, ('short', 'print_general')))
                texts['str'] = txt.collect(robj, ('str',))['str']
                if texts['str'][0] == 'ok' and 'Output file (HTML)' not in texts['str'][1]:
                    texts['str'] = ['exc', 'ValueError: the report printed after write_html does not name the HTML file']
        except Exception as e:  # noqa: BLE001
            texts['written'] = ['exc', f'{type(e).__name__}: {e}']
        finally:
            robj.data.htmlFileName = robj.data.F12FileName = robj.data.pickleFileName = robj.data.latexFileName = None
    return texts


def check_report(ctx, res, case, prebuilt=None):
    if prebuilt is None:
        r = run_case(case)
        if r[0] == 'exc':
            k1 = MATCHERS['k1_boot'](case)
            res.count(case, nontrivial=False)
            res.violate(
                f'no report can be produced from this raw outcome: {r[2]}', case, r[2], 'a results object whose statistics follow the defining formulas',
                where=WHERE_K1 if k1 else f'bioResults constructor ({r[1]})')
            return
        out, robj = r[1], r[2]
    else:
        out, robj = prebuilt
    res.count({k: case[k] for k in ('names', 'beta', 'H', 'hkind')}, nontrivial=nontrivial(case))
    res.tally(f'K={len(case["beta"])}')
    res.tally(f'hessian={case.get("hkind")}')
    res.tally('bootstrap' if case['S'] is not None else 'no_bootstrap')
    res.tally('null_and_init_differ' if case['null'] is not None and case['init'] is not None and case['null'] != case['init'] else 'null_absent_or_equal_init')
    if any(b['active'] for b in out['betas']):
        res.tally('active_bound')
    bad = oracle(case, out)
    # every text report of the same object (all option values), after the tables were read
    # (HTML with one value of only_robust, LaTeX with the other: both options of both reports over the stream)
    flip = ctx.rng.random() < 0.5
    texts = txt.collect(robj, ('short', 'str', 'print_general', 'html_robust' if flip else 'html_all', 'latex_all' if flip else 'latex_robust',
                               'f12_robust', 'f12_classical'))
    for pth, (st, _) in texts.items():
        res.tally(f'text:{pth}:{"printed" if st == "ok" else "refused"}')
    bad += txt.oracle_text(case, out, texts, GENERAL_LABEL)
    texts2 = None
    if ctx.rng.random() < 0.12:
        texts2 = written_reports(robj, ctx.rng)
        res.tally('written_reports')
        bad += [(f'after write_*: {b[0]}',) + tuple(b[1:]) for b in txt.oracle_text(case, out, texts2, GENERAL_LABEL)]
    for what, obs, exp, where in bad[:3]:
        res.violate(what, case, obs, exp, where=where)

    def cb(ans, case=case, out=out, texts=texts, texts2=texts2):
        compare_report(res, case, out, ans[0], ans[1])
        if 'error' in ans[0]:
            return
        dv = lambda what, model, impl: res.diverge(what, case, model, impl, where='bioResults text reports')  # noqa: E731
        txt.compare_text(dv, case, out, texts, ans[2], ans[0])
        compare_views(res, case, out, ans[3], ans[4] if len(ans) > 4 else None)
        if texts2 is not None and 'written' not in texts2:
            txt.compare_text(lambda w, m, i: dv(f'after write_*: {w}', m, i), case, out, texts2, ans[2], ans[0])

    ctx.batch.add_many(
        [report_req(case, out), dict(raw_req(case, out), op='general'), {'op': 'text', 'raw': raw_req(case, out), 'rep': rep_req(case, out)},
         {'op': 'subset', 'rep': rep_req(case, out), 'subset': out['corr_subset'][0]}]
        + ([{'op': 'sens', 'names': case['names'], 'req': out['sens'][0], 'S': mbits(case['S'])}] if out.get('sens') is not None and case['S'] is not None else []), cb)


def check_compile(ctx, res, cc):
    try:
        table, outs = run_compile(cc)
    except Exception as e:  # noqa: BLE001
        res.count(cc, nontrivial=False)
        res.violate(f'compile_estimation_results raised {type(e).__name__}: {e}', cc, str(e), 'a table', where='compile_estimation_results')
        return
    res.count({'compile': [c['names'] for c in cc['models']], 'opts': [cc['statistics'], cc['params'], cc['std'], cc['ttest'], cc['formatted'], cc['short']]},
              nontrivial=len(cc['models']) >= 2)
    res.tally('compile_formatted' if cc['formatted'] else 'compile_numeric')
    res.tally(f'compile_via_{cc.get("via", "dict")}')
    for kind in cc.get('layout') or []:
        if kind in UNREADABLE:
            res.tally(f'compile_unreadable_{kind}')
    for what, obs, exp, where in oracle_compile(cc, table, outs)[:3]:
        res.violate(what, cc, obs, exp, where=where)
    ctx.batch.add(compile_req(cc, outs), lambda ans, cc=cc, table=table: compare_compile(res, cc, table, ans))


def check_lr(ctx, res, c):
    got = run_lr(c)
    res.count(c, nontrivial=c['k1'] != c['k2'] and c['l1'] != c['l2'])
    res.tally('lr_refused' if got['refused'] else 'lr_performed')
    for what, obs, exp, where in oracle_lr(c, got):
        res.violate(what, c, obs, exp, where=where)
    res.tally(f'lr_via_{c["via"]}')
    res.tally('lr_large_magnitude_small_relative_difference' if c['l1'] != c['l2'] and abs(c['l1'] - c['l2']) <= 1e-5 * abs(c['l1']) else 'lr_ordinary')
    ctx.batch.add({'op': 'lr', 'l1': f2b(c['l1']), 'k1': c['k1'], 'l2': f2b(c['l2']), 'k2': c['k2'], 'threshold': None},
                  lambda ans, c=c, got=got: compare_lr(res, c, got, ans))
    if c['via'] == 'objects':
        ctx.batch.add({'op': 'lr_results', 'self': raw_req(mini_case(c['l2'], c['k2']), None), 'other': raw_req(mini_case(c['l1'], c['k1']), None)},
                      lambda ans, c=c, got=got: compare_lr(res, c, got, ans))


def check(ctx) -> Result:
    import logging

    logging.getLogger('biogeme.results').setLevel(logging.ERROR)
    res = Result(rule=RULE, tolerance=TOL)
    rng = ctx.rng
    with core.scratch():
        for c in CORPUS:
            check_report(ctx, res, c)
            res.tally('corpus')
        check_report(ctx, res, CORPUS_K1_BOOT)
        for cc in CORPUS_COMPILE:
            check_compile(ctx, res, cc)
        for c in CORPUS_LR:
            check_lr(ctx, res, c)
        allow_k1 = not k1_boot_known(ctx)
        for _ in range(ctx.n(300, 2500)):
            check_report(ctx, res, gen_case(rng, allow_k1_boot=allow_k1))
            if len(res.violations) > 8:
                break
        for _ in range(ctx.n(80, 600)):
            check_compile(ctx, res, gen_compile(rng))
        for _ in range(ctx.n(300, 3000)):
            check_lr(ctx, res, gen_lr(rng))
        # p-values over a grid of t statistics (Phi of scipy vs the model's)
        ts = [rng.uniform(-9, 9) for _ in range(ctx.n(200, 2000))] + [0.0, -0.0, 1.96, -1.96, 8.3, 40.0, MAXF, -MAXF, float('nan')]
        from biogeme.results import calc_p_value

        with np.errstate(all='ignore'):
            real_p = [float(calc_p_value(t)) for t in ts]
        for t, p in zip(ts, real_p):
            if not same(p, p_of_t(t), 1e-9, 1e-10):
                res.violate('calc_p_value(t) = 2(1 - Phi(|t|))', {'kind': 'pvalue', 't': t}, p, p_of_t(t), where='calc_p_value')

        def cb_p(ans, ts=ts, real_p=real_p):
            for t, a, b in zip(ts, ans['p'], real_p):
                if not same(b2f(a), b, 1e-9, 1e-10):
                    res.diverge('calc_p_value vs Stats.pOf', {'kind': 'pvalue', 't': t}, b2f(a), b, where='calc_p_value')

        ctx.batch.add({'op': 'pvalue', 't': [f2b(t) for t in ts]}, cb_p)
        res.evaluations += len(ts)
    # real estimations through the same comparison
    for i in range(ctx.n(2, 10)):
        try:
            case, out, robj = real_estimation_case(rng, i)
        except Exception as e:  # noqa: BLE001
            res.notes.append(f'real estimation {i} failed: {type(e).__name__}: {e}')
            continue
        with core.scratch():
            check_report(ctx, res, case, prebuilt=(out, robj))
        res.tally('real_estimation')
    ctx.batch.flush()
    return res


def search(ctx, res, broken):
    """something broke without a concrete failing input: widen the stream, property oracle only"""
    rng = core.rng_for('C08-search', ctx.seed)
    with core.scratch():
        for i in range(1500):
            which = i % 5
            if which < 3:
                case = gen_case(rng)
                r = run_case(case)
                bad = ([(f'no report: {r[2]}', r[2], 'a report', f'bioResults constructor ({r[1]})')] if r[0] == 'exc'
                       else (full_oracle(case, r[1], r[2]) if which == 0 else oracle(case, r[1])))
            elif which == 3:
                case = gen_compile(rng)
                try:
                    t, o = run_compile(case)
                    bad = oracle_compile(case, t, o)
                except Exception as e:  # noqa: BLE001
                    bad = [(f'compile raised {type(e).__name__}: {e}', str(e), 'a table', 'compile_estimation_results')]
            else:
                case = gen_lr(rng)
                bad = oracle_lr(case, run_lr(case))
            if bad:
                what, obs, exp, where = bad[0]
                res.violate(what, case, obs, exp, where=where)
                return


def replay(ctx, obj):
    case = obj.get('case') or {}
    out = {'replayed': obj.get('what')}
    kind = case.get('kind')
    with core.scratch():
        if kind == 'report':
            r = run_case(case)
            if r[0] == 'exc':
                out.update({'property_fails': True, 'observed': r[2]})
            else:
                bad = full_oracle(case, r[1], r[2])
                out.update({'property_fails': bool(bad), 'failures': [[b[0], b[1] if not isinstance(b[1], str) else b[1][:300], b[2]] for b in bad[:5]]})
        elif kind == 'compile':
            try:
                t, o = run_compile(case)
                bad = oracle_compile(case, t, o)
                out.update({'property_fails': bool(bad), 'failures': [[b[0], b[1], b[2]] for b in bad[:5]]})
            except Exception as e:  # noqa: BLE001
                out.update({'property_fails': True, 'observed': f'{type(e).__name__}: {e}'})
        elif kind == 'lr':
            got = run_lr(case)
            bad = oracle_lr(case, got)
            out.update({'property_fails': bool(bad), 'observed': got, 'failures': [[b[0], b[1], b[2]] for b in bad[:5]]})
        elif kind == 'pvalue':
            from biogeme.results import calc_p_value

            p = float(calc_p_value(case['t']))
            out.update({'property_fails': not same(p, p_of_t(case['t']), 1e-9, 1e-10), 'observed': p, 'expected': p_of_t(case['t'])})
        else:
            out.update({'property_fails': False, 'note': 'nothing to replay (no concrete input in this file)'})
    return out
