"""C08 — helper of props/c08.py: the *text* report paths of bioResults.

`short_summary`, `__str__` (with `Beta.__str__` and the pair lines), `print_general_statistics`,
`get_html`, `get_latex`, `get_f12` (+ the `write_*` variants) are parsed back into ordered
sequences of (label, printed figure) and compared

  * with the Lean model (`Model/StatsReports.lean`, op `text` of Driver/C08.lean): same labels in the
    same order, every printed figure = CPython `format(model value, model format code)`;
  * with a property oracle written from the words of the labels (independent of Lean): the printed
    figure is the quantity the words name, to the number of digits printed.
"""

from __future__ import annotations

import math
import re

import numpy as np

from lib.core import b2f

DIGITS = {'': None, '.7g': 7, '.3g': 3, '.4E': 5, ' >+19.12e': 13, ' >8': None, '.6g': 6}


# --------------------------------------------------------------------------- text comparison


def text_close(a: str, b: str, digits, abs_: float = 0.0) -> bool:
    """two printed figures agree: same text, or numbers within one unit of the last printed digit
    (abs_: absolute tolerance of p-values, whose Phi differs between scipy and the model)"""
    a, b = a.strip(), b.strip()
    if a == b:
        return True
    try:
        x, y = float(a), float(b)
    except ValueError:
        return False
    if math.isnan(x) or math.isnan(y):
        return math.isnan(x) and math.isnan(y)
    if x == y:
        return True
    if math.isinf(x) or math.isinf(y) or digits is None:
        return False
    if abs(x - y) <= abs_:
        return True
    m = max(abs(x), abs(y))
    # b is the text printed by the code: its own precision counts (a report that prints fewer digits
    # than the model's format still prints the same quantity)
    d = min(digits, printed_digits(b))
    unit = 10.0 ** (math.floor(math.log10(m)) - d + 1)
    return abs(x - y) <= 1.01 * unit


P_ABS = 2e-9  # p-values: scipy's Phi vs the model's erfc (1e-10 on the value, doubled by printing)


def printed_digits(text: str) -> int:
    """number of significant digits a printed figure shows (trailing zeros of an integer count)"""
    m = re.split('[eE]', text.strip().lstrip('+-'))[0].replace('.', '').lstrip('0')
    return max(1, len(m))


def num_is(text: str, q, digits=None) -> bool:
    """the printed figure `text` is the quantity q, to the digits it shows (the precision is read from
    the text itself: the statement is about the formulas, not about the number of digits printed)"""
    if q is None:
        return text.strip() == 'None'
    if isinstance(q, (int, np.integer)) and not isinstance(q, bool):
        try:
            return float(text) == float(q)
        except ValueError:
            return False
    try:
        x = float(text)
    except ValueError:
        return False
    q = float(q)
    if math.isnan(q) or math.isnan(x):
        return math.isnan(q) and math.isnan(x)
    if math.isinf(x) and not math.isinf(q) and abs(q) >= 1e308:
        return (x > 0) == (q > 0)  # the largest float printed with few digits reads back as inf
    if math.isinf(q) or math.isinf(x):
        return q == x
    if q == x:
        return True
    m = max(abs(q), abs(x))
    unit = 10.0 ** (math.floor(math.log10(m)) - printed_digits(text) + 1)
    return abs(x - q) <= 0.51 * unit + 1e-13 * m


# --------------------------------------------------------------------------- parsers


def parse_colon(text):
    """'label:\\t…value' lines"""
    out = []
    for line in text.split('\n'):
        if not line:
            continue
        label, sep, val = line.partition(':\t')
        if not sep:
            raise ValueError(f'line without label: {line!r}')
        out.append((label, val.lstrip('\t')))
    return out


def pair_keys(names):
    return [(names[i], names[j]) for i in range(len(names)) for j in range(i)]


def parse_str(text, names):
    """__str__ -> (statistics lines, parameter lines, pair lines)"""
    lines = text.split('\n')
    i = next(n for n, ln in enumerate(lines) if ln.startswith('Results for model')) + 1
    stats = []
    first = f'{names[0]:15}: '
    while i < len(lines) and not lines[i].startswith(first):
        label, sep, val = lines[i].partition(':\t')
        if not sep:
            raise ValueError(f'line without label: {lines[i]!r}')
        if not label.startswith('Output file'):
            stats.append((label, val.lstrip('\t')))
        i += 1
    betas = []
    for k, n in enumerate(names):
        ln = lines[i + k]
        pre = f'{n:15}: '
        if not ln.startswith(pre):
            raise ValueError(f'parameter line {k} does not start with its name: {ln!r}')
        m = re.fullmatch(r'([^\[\]]+)((?:\[[^\]]*\])*)', ln[len(pre):])
        if m is None:
            raise ValueError(f'parameter line not understood: {ln!r}')
        betas.append([m.group(1)] + [t for grp in re.findall(r'\[([^\]]*)\]', m.group(2)) for t in grp.split()])
    i += len(names)
    pairs = []
    for key in pair_keys(names):
        ln = lines[i]
        pre = f'{key}:\t'
        if not ln.startswith(pre):
            raise ValueError(f'pair line does not start with its key {key}: {ln!r}')
        pairs.append(ln[len(pre):].split('\t'))
        i += 1
    if any(ln for ln in lines[i:]):
        raise ValueError(f'unexpected trailing lines: {lines[i:]!r}')
    return stats, betas, pairs


def parse_html(h):
    gen = re.findall(r'<tr class=biostyle><td align=right ><strong>(.*?)</strong>: </td> <td>(.*?)</td></tr>', h)
    p0 = h.index('<h1>Estimated parameters</h1>')
    c0 = h.index('<h2>Correlation of coefficients</h2>')

    def table(seg, nlab):
        rows = re.findall(r'<tr class=biostyle>(.*?)</tr>', seg)
        header = re.findall(r'<th>(.*?)</th>', rows[0])[nlab:]
        body = []
        for r in rows[1:]:
            cells = re.findall(r'<td>(.*?)</td>', r)
            body.append((tuple(cells[:nlab]), cells[nlab:]))
        return header, body

    eig = dict(re.findall(r'<p>(Smallest eigenvalue|Largest eigenvalue|Condition number): (.*?)</p>', h))
    return gen, table(h[p0:c0], 1), table(h[c0:], 2), eig


def parse_latex(l):
    g0 = l.index('\\begin{tabular}{ll}')
    g1 = l.index('\\end{tabular}', g0)
    gen = []
    for line in l[g0:g1].split('\n')[1:]:
        if line.endswith(' \\\\'):
            label, _, val = line[:-3].partition(' & ')
            gen.append((label, val))
    p0 = l.index('\\section{Parameter estimates}')
    c0 = l.index('\\section{Correlation}')

    def tab(seg):
        b = seg.index('\\begin{tabular}')
        e = seg.index('\\end{tabular}')
        rows = [x[:-2].rstrip().split(' & ') for x in seg[b:e].split('\n')[1:] if x.rstrip().endswith('\\\\')]
        header = [c.strip() for c in rows[0][1:]]
        # the report completes a plain integer '12' into '12.0': read it back as printed by '.3g'
        cell = lambda c: c.strip()[:-2] if re.fullmatch(r'-?\d+\.0', c.strip()) else c.strip()  # noqa: E731
        return header, [((r[0].strip(),), [cell(c) for c in r[1:]]) for r in rows[1:]]

    return gen, tab(l[p0:c0]), tab(l[c0:])


def parse_f12(t, K):
    lines = t.split('\n')
    if lines[2] != 'END' or lines[3 + K] != '  -1':
        raise ValueError('F12 frame not understood')
    coef = []
    for k in range(K):
        ln = lines[3 + k]
        coef.append((ln[5:15], ln[15:17].strip(), ln[18:].split()))
    stats = lines[4 + K].split()
    # fields of width 7; a correlation beyond +-9.99999 overflows its field: read the integers as printed
    corr = [int(x) for x in re.findall(r'-?\d+', ''.join(lines[6 + K:]))]
    return coef, stats, corr


# --------------------------------------------------------------------------- running the real code


TEXT_PATHS = ('short', 'str', 'print_general', 'html_robust', 'html_all', 'latex_robust', 'latex_all', 'f12_robust', 'f12_classical')


def collect(res, paths=TEXT_PATHS):
    """every text report of a real results object: name -> ('ok', text) | ('exc', 'Type: message')"""
    calls = {
        'short': lambda: res.short_summary(),
        'str': lambda: str(res),
        'print_general': lambda: res.print_general_statistics(),
        'html_robust': lambda: res.get_html(only_robust=True),
        'html_all': lambda: res.get_html(only_robust=False),
        'latex_robust': lambda: res.get_latex(only_robust=True),
        'latex_all': lambda: res.get_latex(only_robust=False),
        'f12_robust': lambda: res.get_f12(robust_std_err=True),
        'f12_classical': lambda: res.get_f12(robust_std_err=False),
    }
    out = {}
    for p in paths:
        try:
            with np.errstate(all='ignore'):
                out[p] = ['ok', calls[p]()]
        except Exception as e:  # noqa: BLE001
            out[p] = ['exc', f'{type(e).__name__}: {e}']
    return out


# --------------------------------------------------------------------------- property oracle

# words of short_summary / __str__ -> (quantity, digits); written from the words
L7, R3 = 7, 3
TEXT_WORDS = {
    'Nbr of parameters': (lambda c, o: len(c['beta']), None),
    'Sample size': (lambda c, o: c['N'], None),
    'Observations': (lambda c, o: c['nobs'], None),
    'Excluded data': (lambda c, o: c.get('excluded', 0), None),
    'Null log likelihood': (lambda c, o: c['null'], L7),
    'Init log likelihood': (lambda c, o: c['init'], L7),
    'Final log likelihood': (lambda c, o: c['L'], L7),
    'Likelihood ratio test (null)': (lambda c, o: o['summary']['lrtNull'], L7),
    'Rho square (null)': (lambda c, o: o['summary']['rho2Null'], R3),
    'Rho bar square (null)': (lambda c, o: o['summary']['rhoBar2Null'], R3),
    'Likelihood ratio test (init)': (lambda c, o: o['summary']['lrtInit'], L7),
    'Rho square (init)': (lambda c, o: o['summary']['rho2Init'], R3),
    'Rho bar square (init)': (lambda c, o: o['summary']['rhoBar2Init'], R3),
    'Akaike Information Criterion': (lambda c, o: o['summary']['akaike'], L7),
    'Bayesian Information Criterion': (lambda c, o: o['summary']['bayesian'], L7),
    'Final gradient norm': (lambda c, o: o['gnorm'], L7),
}
GENERAL_DIGITS = {
    'Null log likelihood': 7, 'Init log likelihood': 7, 'Final log likelihood': 7,
    'Likelihood ratio test for the null model': 7, 'Likelihood ratio test for the init. model': 7,
    'Rho-square for the null model': 3, 'Rho-square-bar for the null model': 3,
    'Rho-square for the init. model': 3, 'Rho-square-bar for the init. model': 3,
    'Akaike Information Criterion': 7, 'Bayesian Information Criterion': 7, 'Final gradient norm': 5,
}
OPAQUE = ('Draws generation time', 'Types of draws', 'Bootstrapping time', 'Algorithm')


def refusal_expected(case, path):
    """`str.format` cannot print `None` with a precision: the code raises TypeError (modelled, not a
    property violation: a missing / zero reference likelihood has no rho-square)"""
    init_none = case['init'] is None
    init_zero = case['init'] is not None and case['init'] == 0.0
    null_zero = case['null'] is not None and case['null'] == 0.0
    if path == 'short':
        return null_zero
    if path == 'str':
        return null_zero or init_zero
    if path in ('print_general', 'latex_robust', 'latex_all'):
        return init_none or init_zero or null_zero
    return False


def _active(case, k):
    lb, ub = case['bounds'][k]
    v = case['beta'][k]
    return (lb is not None and abs(v - lb) <= 1e-6) or (ub is not None and abs(v - ub) <= 1e-6)


def oracle_text(case, out, texts, general_label):
    """-> list of (what, observed, expected, where).  `general_label`: words of the dictionary keys ->
    quantity (GENERAL_LABEL of c08.py)."""
    bad = []
    names = case['names']
    K = len(names)
    has_boot = case['S'] is not None and out['Bt'] is not None
    has_null = case['null'] is not None

    def words(path, items, where, table, digits_of):
        seen = set()
        for label, txt in items:
            if label in seen:
                bad.append((f'{path}: label {label!r} printed twice', label, 'once', where))
            seen.add(label)
            if label in OPAQUE or label in out.get('optkeys', ()):
                continue
            if label not in table:
                bad.append((f'{path}: unknown label {label!r}', label, sorted(table), where))
                continue
            q = table[label](case, out) if not isinstance(table[label], tuple) else table[label][0](case, out)
            d = digits_of(label)
            if not num_is(txt, q, d):
                bad.append((f'{path}: the figure printed as {label!r} is not the quantity the words name', txt, q, where))
        return seen

    def need(path, seen, labels, where):
        for lab in labels:
            if lab not in seen:
                bad.append((f'{path}: {lab!r} missing', sorted(seen), lab, where))

    for path in texts:
        st, txt = texts[path]
        where = {'short': 'bioResults.short_summary', 'str': 'bioResults.__str__', 'print_general': 'bioResults.print_general_statistics'}.get(
            path, 'bioResults.get_' + path.split('_')[0])
        if st == 'exc':
            if not (refusal_expected(case, path) and txt.startswith('TypeError')):
                bad.append((f'{path}: no report can be produced: {txt}', txt, 'a report whose figures follow the defining formulas', where))
            continue
        try:
            if path in ('short', 'str'):
                if path == 'short':
                    items = parse_colon('\n'.join(txt.split('\n')[1:]))
                    betas = pairs = None
                else:
                    items, betas, pairs = parse_str(txt, names)
                seen = words(path, items, where, TEXT_WORDS, lambda lab: TEXT_WORDS[lab][1])
                must = ['Nbr of parameters', 'Sample size', 'Final log likelihood', 'Akaike Information Criterion', 'Bayesian Information Criterion']
                if has_null:
                    must += ['Null log likelihood', 'Likelihood ratio test (null)', 'Rho square (null)', 'Rho bar square (null)']
                if path == 'str' and case['init'] is not None:
                    must += ['Init log likelihood', 'Likelihood ratio test (init)', 'Rho square (init)', 'Rho bar square (init)']
                need(path, seen, must, where)
                if betas is not None:
                    for k, toks in enumerate(betas):
                        b = out['betas'][k]
                        exp = [b['value']] + b['cls'] + b['rob'] + (b['boot'] if has_boot else [])
                        if len(toks) != len(exp):
                            bad.append((f'str: parameter line {k} has {len(toks)} figures', toks, exp, 'Beta.__str__'))
                            continue
                        for pos, (t, q) in enumerate(zip(toks, exp)):
                            if not num_is(t, q, 3):
                                bad.append((f'str: parameter {names[k]!r}, figure {pos} (value, then se/t/p of the classical, robust, bootstrap family)', t, q, 'Beta.__str__'))
                    sec = {tuple(k): v for k, v in out['second']}
                    for key, toks in zip(pair_keys(names), pairs):
                        exp = sec[key][:8]
                        if len(toks) != 8:
                            bad.append((f'str: pair line {key} has {len(toks)} figures', toks, exp, where))
                            continue
                        for pos, (t, q) in enumerate(zip(toks, exp)):
                            if not num_is(t, q, 3):
                                bad.append((f'str: pair {key}, figure {pos} (cov, corr, t, p of the classical then robust family)', t, q, where))
            elif path == 'print_general':
                items = parse_colon(txt)
                seen = words(path, items, where, general_label, lambda lab: GENERAL_DIGITS.get(lab))
                need(path, seen, ['Number of estimated parameters', 'Sample size', 'Final log likelihood', 'Akaike Information Criterion',
                                  'Bayesian Information Criterion'] + (['Rho-square-bar for the null model'] if has_null else []), where)
            elif path.startswith('html') or path.startswith('latex'):
                only_robust = path.endswith('robust')
                if path.startswith('html'):
                    gen, ptab, ctab, eig = parse_html(txt)
                else:
                    gen, ptab, ctab = parse_latex(txt)
                    gen = [(a, b[6:-1] if b.startswith('\\verb$') else b) for a, b in gen]
                    eig = {}
                seen = words(path, gen, where, general_label, lambda lab: GENERAL_DIGITS.get(lab))
                need(path, seen, ['Number of estimated parameters', 'Sample size', 'Final log likelihood', 'Akaike Information Criterion',
                                  'Bayesian Information Criterion'] + (['Likelihood ratio test for the null model'] if has_null else [])
                     + (['Rho-square-bar for the null model', 'Rho-square for the null model'] if has_null and case['null'] != 0.0 else []), where)
                bad.extend(_oracle_param_table(case, out, path, ptab, only_robust, has_boot, where))
                bad.extend(_oracle_corr_table(case, out, path, ctab, has_boot, where, split_names=path.startswith('html')))
                if eig:
                    with np.errstate(all='ignore'):
                        ev = np.linalg.eigvalsh(-np.nan_to_num(np.array(case['H'], dtype=float)))
                    sc = max(float(np.max(np.abs(ev))), 1e-300)
                    for lab, q in (('Smallest eigenvalue', float(ev.min())), ('Largest eigenvalue', float(ev.max()))):
                        if lab in eig and not (num_is(eig[lab], q, 6) or abs(float(eig[lab]) - q) <= 1e-9 * sc):
                            bad.append((f'{path}: {lab} of minus the Hessian', eig[lab], q, where))
            else:
                rob = path.endswith('robust')
                coef, stats, corr = parse_f12(txt, K)
                for k, (nm, flag, nums) in enumerate(coef):
                    b = out['betas'][k]
                    if nm != f'{names[k][:10]: >10}':
                        bad.append((f'{path}: coefficient line {k} is not labelled with its parameter', nm, names[k], where))
                    if (flag == 'T') != bool(_active(case, k)):
                        bad.append((f'{path}: constrained flag of {names[k]!r}', flag, 'T' if _active(case, k) else 'F', where))
                    exp = [b['value'], (b['rob'] if rob else b['cls'])[0]]
                    if len(nums) != 2 or not num_is(nums[0], exp[0], 13) or not num_is(nums[1], exp[1], 13):
                        bad.append((f'{path}: coefficient {names[k]!r}: value and {"robust" if rob else "classical"} standard error', nums, exp, where))
                exp_stats = [case['N'], 0, case['null'] if has_null else 0, case['L']]
                if len(stats) != 4 or not all(num_is(t, q, 13) for t, q in zip(stats, exp_stats)):
                    bad.append((f'{path}: statistics line (sample size, 0, null log likelihood or 0, final log likelihood)', stats, exp_stats, where))
                M = out['rcorr'] if rob else out['corr']
                exp_c = []
                for i in range(K):
                    for j in range(i):
                        v = 100000.0 * M[i][j]
                        exp_c.append(999999 if math.isinf(v) else (None if math.isnan(v) else int(v)))
                if any(e is None or abs(e) > 999999 for e in exp_c):
                    pass  # adjacent overflowing fields cannot be told apart
                elif len(corr) != len(exp_c) or any(abs(a - e) > 1 for a, e in zip(corr, exp_c)):
                    bad.append((f'{path}: correlations x 100000 of the {"robust" if rob else "classical"} family', corr, exp_c, where))
        except (ValueError, IndexError, StopIteration, KeyError) as e:
            bad.append((f'{path}: report text not understood ({type(e).__name__}: {e})', txt[:400], 'a report with labelled figures', where))
    return bad


def _param_label_attr(c, nb):
    from props.c08 import PARAM_LABEL_ATTR

    if c.startswith('Bootstrap[') and c.endswith('] Std err'):
        return ('boot', 0) if c == f'Bootstrap[{nb}] Std err' else None
    return PARAM_LABEL_ATTR.get(c)


def _oracle_param_table(case, out, path, tab, only_robust, has_boot, where):
    bad = []
    header, body = tab
    names = case['names']
    nb = None if case['S'] is None else len(case['S'])
    must = ['Value', 'Rob. Std err', 'Rob. t-test', 'Rob. p-value']
    if not only_robust:
        must += ['Std err', 't-test', 'p-value']
        if has_boot:
            must += [f'Bootstrap[{nb}] Std err', 'Bootstrap t-test', 'Bootstrap p-value']
    if any(_active(case, k) for k in range(len(names))):
        must.append('Active bound')
    if sorted(header) != sorted(must):
        bad.append((f'{path}: columns of the parameter table (only_robust={only_robust})', header, must, where))
    if [r[0][0] for r in body] != list(names):
        bad.append((f'{path}: rows of the parameter table', [r[0][0] for r in body], names, where))
        return bad
    for k, (_, cells) in enumerate(body):
        b = out['betas'][k]
        for c, cell in zip(header, cells):
            la = _param_label_attr(c, nb)
            if la is None:
                bad.append((f'{path}: unknown column {c!r}', c, must, where))
                continue
            a, pos = la
            q = (1.0 if _active(case, k) else 0.0) if a == 'active' else (b[a] if pos is None else b[a][pos])
            if not num_is(cell, q, 3):
                bad.append((f'{path}: parameter table cell ({names[k]!r}, {c!r}) is not the quantity the label names', cell, q, where))
    return bad


def _oracle_corr_table(case, out, path, tab, has_boot, where, split_names):
    from props.c08 import CORR_LABEL_POS

    bad = []
    header, body = tab
    names = case['names']
    keys = pair_keys(names)
    exp_cols = list(CORR_LABEL_POS)[: 12 if has_boot else 8]
    if header != exp_cols:
        bad.append((f'{path}: columns of the correlation table', header, exp_cols, where))
    if len(body) != len(keys):
        bad.append((f'{path}: rows of the correlation table', len(body), len(keys), where))
        return bad
    sec = {tuple(k): v for k, v in out['second']}
    for key, (labs, cells) in zip(keys, body):
        # ASSUMPTION: names without '-' (the HTML report recovers the two names by split('-'))
        if not any('-' in n for n in key):
            got = tuple(labs) if split_names else tuple(labs[0].split('-'))
            if got != key:
                bad.append((f'{path}: correlation row is not labelled with its two parameters', got, key, where))
        for c, cell in zip(header, cells):
            if c in CORR_LABEL_POS and not num_is(cell, sec[key][CORR_LABEL_POS[c]], 3):
                bad.append((f'{path}: correlation table cell ({key}, {c!r}) is not the quantity the label names', cell, sec[key][CORR_LABEL_POS[c]], where))
    return bad


# --------------------------------------------------------------------------- model vs code


def _fmt_gval(g, code):
    """-> printed text of a model value, or None for opaque values"""
    if 'nat' in g:
        return format(g['nat'], code)
    if 'num' in g:
        return format(b2f(g['num']), code)
    if 'onum' in g:
        return 'None' if g['onum'] is None else format(b2f(g['onum']), code)
    return None


def compare_text(diverge, case, out, texts, ans, rep_ans):
    """`diverge(what, model, impl)`; ans = answer of the driver op `text`, rep_ans = answer of the op
    `report` (the model's parameter and correlation tables)"""
    names = case['names']
    K = len(names)
    if 'error' in ans:
        diverge('driver error (text)', ans['error'], None)
        return

    def items_cmp(path, model_items, real_items, extra=()):
        ml = [m[0] for m in model_items] + list(extra)
        rl = [r[0] for r in real_items]
        if ml != rl:
            diverge(f'{path}: labels in order', ml, rl)
            return
        for (lab, g, code), (_, txt) in zip(model_items, real_items):
            mt = _fmt_gval(g, code)
            if mt is not None and not text_close(mt, txt, DIGITS[code]):
                diverge(f'{path}: figure printed as {lab!r}', mt, txt)

    def txt_cmp(path, key, real_items_fn):
        st, txt = texts[path]
        m = ans[key]
        if 'error_text' in m:
            if not (st == 'exc' and txt.startswith('TypeError')):
                diverge(f'{path}: the model refuses (None under a precision), the code prints', 'TypeError', txt[:200])
            return
        if st == 'exc':
            diverge(f'{path}: the code raises, the model prints', [i[0] for i in m['items']], txt)
            return
        items_cmp(path, m['items'], real_items_fn(txt))

    def nums_cmp(path, what, model_bits, toks, digits=3, ppos=()):
        mt = [format(b2f(x), '.3g') if digits == 3 else format(b2f(x), ' >+19.12e') for x in model_bits]
        if len(mt) != len(toks) or not all(text_close(a, b, digits, P_ABS if n in ppos else 0.0) for n, (a, b) in enumerate(zip(mt, toks))):
            diverge(f'{path}: {what}', mt, toks)

    try:
        if 'short' in texts:
            txt_cmp('short', 'short', lambda t: parse_colon('\n'.join(t.split('\n')[1:])))
        if 'print_general' in texts:
            txt_cmp('print_general', 'print_general', parse_colon)
        if 'str' in texts:
            txt_cmp('str', 'str_stats', lambda t: parse_str(t, names)[0])
            if texts['str'][0] == 'ok':
                _, betas, pairs = parse_str(texts['str'][1], names)
                for k in range(K):
                    nums_cmp('str', f'parameter line of {names[k]!r}', ans['beta_lines'][k], betas[k], ppos=(3, 6, 9))
                for n, key in enumerate(pair_keys(names)):
                    nums_cmp('str', f'pair line {key}', ans['pair_lines'][n], pairs[n], ppos=(3, 7))
        for path in texts:
            if not (path.startswith('html') or path.startswith('latex')):
                continue
            st, txt = texts[path]
            only_robust = path.endswith('robust')
            T = out['param_robust' if only_robust else 'param_all']
            if path.startswith('latex'):
                if 'error_text' in ans['print_general']:
                    if not (st == 'exc' and txt.startswith('TypeError')):
                        diverge(f'{path}: the model refuses (None under a precision), the code prints', 'TypeError', txt[:200])
                    continue
                if st == 'exc':
                    diverge(f'{path}: the code raises, the model prints', None, txt)
                    continue
                gen, ptab, ctab = parse_latex(txt)
                gen = [(a, b[6:-1] if b.startswith('\\verb$') else b) for a, b in gen]
                items_cmp(path, ans['print_general']['items'], gen, extra=out.get('optkeys', ['Algorithm']))
                rows_exp = [[n] for n in T['index']]
                rows_exp_c = [[f'{a}-{b}'] for a, b in pair_keys(names)]
            else:
                if st == 'exc':
                    diverge(f'{path}: the code raises, the model prints', None, txt)
                    continue
                gen, ptab, ctab, _ = parse_html(txt)
                items_cmp(path, ans['html_general'], gen, extra=out.get('optkeys', ['Algorithm']))
                rows_exp = [[n] for n in T['index']]
                rows_exp_c = ans['html_pair_names']
            # the tables: cells of the (already compared) model tables, printed with '.3g'
            for tname, tab, rexp, model_rows, cols in (
                ('parameter table', ptab, rows_exp, rep_ans['param_robust' if only_robust else 'param_all'],
                 rep_ans['param_cols_robust' if only_robust else 'param_cols_all']),
                ('correlation table', ctab, rows_exp_c, rep_ans['corr_table'], rep_ans['corr_cols']),
            ):
                header, body = tab
                if header != cols:
                    diverge(f'{path}: {tname} columns', cols, header)
                    continue
                if [list(b[0]) for b in body] != [list(r) for r in rexp]:
                    diverge(f'{path}: {tname} row labels', rexp, [list(b[0]) for b in body])
                    continue
                for (_, mcells), (lab, cells) in zip(model_rows, body):
                    mt = ['nan' if x is None else format(b2f(x), '.3g') for x in mcells]
                    if len(mt) != len(cells) or not all(text_close(a, b, 3, P_ABS if 'p-value' in c else 0.0) for a, b, c in zip(mt, cells, header)):
                        diverge(f'{path}: {tname} row {lab}', mt, cells)
        for path, key in (('f12_robust', 'f12_robust'), ('f12_classical', 'f12_classical')):
            if path not in texts:
                continue
            st, txt = texts[path]
            if st == 'exc':
                diverge(f'{path}: the code raises, the model prints', None, txt)
                continue
            coef, stats, corr = parse_f12(txt, K)
            m = ans[key]
            for k, ((nm, flag, nums), (mflag, mv, mse)) in enumerate(zip(coef, m['coef'])):
                if (flag == 'T') != mflag:
                    diverge(f'{path}: constrained flag of parameter {k}', mflag, flag)
                nums_cmp(path, f'coefficient line {k}', [mv, mse], nums, digits=13)
            mN, mnull, mL = m['stats']
            exp = [format(mN, ' >8'), '0', '0' if mnull is None else format(b2f(mnull), ' >+19.12e'), format(b2f(mL), ' >+19.12e')]
            if len(stats) != 4 or not all(text_close(a, b, 13) for a, b in zip(exp, stats)):
                diverge(f'{path}: statistics line', exp, stats)
            mc = []
            for x in m['corr']:
                v = 100000.0 * b2f(x)
                mc.append(999999 if math.isinf(v) else (None if math.isnan(v) else int(v)))
            if any(e is None or abs(e) > 999999 for e in mc):
                pass
            elif len(mc) != len(corr) or any(abs(a - e) > 1 for a, e in zip(corr, mc)):
                diverge(f'{path}: correlations x 100000', mc, corr)
    except (ValueError, IndexError, StopIteration, KeyError) as e:
        diverge(f'report text not understood ({type(e).__name__}: {e})', None, {k: v[1][:300] for k, v in texts.items()})
