"""C09 — panel likelihood: product over each individual's rows, with shared draws.

Tie: correspondence (C).  Panel tables (1-8 individuals, 1-5 rows each, arbitrary id values,
individuals in random order, contiguous or deliberately interleaved) are turned into real
`Database` objects; `Database.panel`, `individualMap`, `get_sample_size`, `count_number_of_groups`,
`generate_flat_panel_dataframe`, and `BIOGEME.calculate_likelihood` / `calculate_likelihood_and_derivatives`
(scaled and not, with Hessian and BHHH) / `calculate_init_likelihood` / `simulate` / `estimate` (results:
sample size, number of observations) on formulas `log(PanelLikelihoodTrajectory(.))` and
`log(MonteCarlo(PanelLikelihoodTrajectory(.)))` with deterministic user-defined generators (the draw
value encodes (individual, r, variable)) are driven.

Histories: (a) one BIOGEME object used for simulate / likelihood / derivatives / estimate (bootstrap)
in a row; (b) the table of the database changed after `panel()` - rows appended (for the last
individual, for any individual, for a new one), dropped, relabelled, reordered, `Database.remove`, the
table replaced - each change followed by an evaluation through `Expression.get_value_c` (per
individual / aggregated), `get_value_and_derivatives`, or a new BIOGEME object (likelihood, simulate):
the values and the map must be those of the table as it is at that moment.

Placement: random formulas over {variables, parameters, draws, exp, -, +, *, PanelLikelihoodTrajectory,
MonteCarlo} given to `BIOGEME(...)` (single formula and dict), to `Expression.audit` and (formulas that
must be refused only) to `get_value_c`: a variable outside the trajectory operator, or a Monte-Carlo
integral that does not enclose it (row-wise integral, no shared draw), must be refused.

Outputs are compared with the Lean model (`Panel.panelOk/panelMap/tableValues/panelValuesMC/
DbState.history/scaledBy`, `checkPanelTrajectory/checkDraws/auditErrors/initAccepts`) and with an oracle
written from the property statement (independent products / means in Python).

Round 3: `count_number_of_groups` as written (`!= shift(1)`, cumsum, unique: `Panel.countGroupsCode`, ids around 0 /
0 the smallest id not in the first block / negative first rows); Monte-Carlo on the table AS GIVEN (`tableValuesMC`: sort, map
and draw row of each individual all by the model); latent-class formulas `log(w*PLT(f1) + (1-w)*PLT(f2))` with and without
shared draws through calculate_likelihood / ..._and_derivatives (gradient, BHHH by individuals, scaled) / get_value_c
(per individual, aggregated), reordered tables (`tableValuesMulti`); the per-row values of the integrands come from the
PROVED engine model run on the real signature text (lib/leanrun), the panel model runs on those; gradient / BHHH / hessian of
the trajectory family in closed form by individuals (`gradPanel/bhhhPanel/scaledOutput`); bootstrap on panel data
(`sample_individual_map_with_replacement` with and without size; the estimates of `estimate(run_bootstrap=True)` are the
maximisers over the rows of the picked individuals - picks reproduced from the numpy seed - `Panel.resample`, `Sess.run`);
one BIOGEME object kept while database.data is changed (likelihood / derivatives / simulate on the SAME object: values of
the current table or a library error - `Panel.Obj.history`, finding F-C09-5).
"""

from __future__ import annotations

import math

import numpy as np

from lib import core, leanrun
from props import iso_f
from lib.core import Result, f2b, b2f

READY = True
MANIFEST = dict(
    text='Proof (Lean 4): the test of Database.panel (number of runs of the id column = number of runs of the sorted column) holds IFF every id occupies one run '
    '(C09.contiguous_iff, contiguous_index_form); every entry [first,last] of the map of the sorted column holds exactly the rows of its id and every row lies in exactly one entry '
    '(map_block, map_bounds, map_partition, map_ids); sample size = number of distinct ids (sample_size), and the scaled quantities are divided by it, not by the number of rows (scaled_by_individuals); '
    'the trajectory operator = product over the visited rows, = exactly the rows '
    'of the id, invariant under reordering (traj_product, traj_rows, traj_perm); at table level the list (individual, value) is the same for every permutation of the rows '
    '(table_values, table_perm_invariant); the map is rebuilt before each evaluation, so after any change of the table the values are those of the current table and nothing of the earlier '
    'tables or maps survives (evaluate_current_table, eval_after_edit, history_values, history_free); inside Monte-Carlo the draw vector is that of (individual, r) for all rows '
    '(shared_draw, draws_of_individual_only, mc_perm); '
    'check_panel_trajectory = variables outside every trajectory operator (audit_panel); Expression.audit lists no error on panel data iff every MonteCarlo encloses a trajectory operator, '
    'a draw and no other integral (audit_mc), hence an accepted formula has all variables below, and all integrals around, a trajectory operator (accepted_formula). '
    'Round 3: count_number_of_groups as written (!= shift(1), cumsum, unique) = number of runs for every id column - the first row always starts a group (count_groups_code, contiguous_iff_code; '
    'a fill value instead of NaN is not equivalent: fill_value_counter_differs); the lines of the map follow the ascending ids (map_ascending); at table level the individual at position k of that map reads '
    'row k of the draw table for all its rows and the simulated values are the same for every order of the table (table_values_mc, table_mc_perm_invariant); every trajectory operator of a formula with several '
    'of them (latent classes, no additivity) is the product over exactly the rows of the individual, invariant under reordering (table_values_multi, table_multi_perm_invariant, latent_class_value); a bootstrap '
    'sample consists of whole lines of the map, one term per pick (bootstrap_whole_individuals, bootstrap_loglik) and over every history of likelihood / simulate / estimate(bootstrap) calls on one object each reported '
    'evaluation runs on the full map (session_full_map); all four scaled outputs are divided by the number of individuals (scaled_output_by_individuals), BHHH / gradient are sums over individuals of scores summed over their rows first '
    '(bhhh_by_individuals); on an existing object whose table was changed every evaluation is refused or returns the values of the current table (object_history_current; repaired behaviour, F-C09-5). '
    'Tie: real Database/BIOGEME/Expression objects on generated panel tables, histories of table changes and evaluations, deterministic draw generators; integrands evaluated by the proved engine model on the real signature text (leanrun).',
    design='DESIGN.md §5 C09',
    technique='Lean 4 theorems (core + Mathlib list/finset lemmas) over an executable model of the contiguity test, the individual map, its rebuilding before each evaluation, the trajectory / Monte-Carlo operators and the placement rules + differential correspondence',
    note='The C++ engine operators are modelled, not verified. pandas sort_values/unique/shift are trusted primitives (their outputs are checked on every case).',
)

TRUSTED = [
    'cythonbiogeme operators PanelLikelihoodTrajectory / MonteCarlo / bioDraws: modelled from their source, validated on the explored cases, not verified',
    'pandas sort_values / unique / shift / cumsum used by Database.panel and build_panel_map (their outputs are checked against the model and the oracle on every case)',
    'per-row values of the integrand: for the trajectory / latent-class formulas without draws they are computed by the proved engine model (C01) from the real signature text and compared with the real engine; '
    'with draws they are recomputed in the oracle and the driver from the closed form of the integrand family',
    'numpy.random.randint under a fixed numpy seed is reproducible (used to know which individuals the bootstrap loop picked)',
    'the optimiser of BIOGEME.estimate finds the maximiser of a concave quadratic log likelihood to 1e-5 (used to read a bootstrap sample off its estimate)',
]
ASSUMPTIONS = ['per-observation values inside the trajectory are positive (the engine computes exp of the sum of logs)', 'ids are mapped to integers preserving order and equality']
RULE = (
    'panel table: 1-8 individuals x 1-5 rows, ids from {negative, large, non-consecutive, half-integers}, individuals in random order, contiguous or interleaved; '
    'formulas traj / Monte-Carlo(traj) with 1-2 user draw variables, R in {1,2,3,5}; entry points likelihood (scaled or not), likelihood and derivatives (scaled or not, hessian, BHHH), '
    'initial likelihood, simulate; sequences simulate / likelihood / estimate(bootstrap) / simulate on one object; histories of 1-3 table changes '
    '(append for the last / any / a new individual, drop rows / an individual, relabel a row, reorder, Database.remove, replace) each followed by an evaluation through '
    'get_value_c / get_value_c(aggregation) / get_value_and_derivatives / a new BIOGEME object; placement: random formulas of depth <= 5 with trajectory and Monte-Carlo operators, '
    'single formula / dict / Expression.audit / get_value_c; non-trivial = >= 2 individuals with unequal block sizes; '
    'round 3: id pools around zero (-2..4, 0..5) and corpus tables with id 0 smallest / not first / interleaved; latent-class formulas (w in {1/8,1/4,1/2,3/4}, with / without draws, R in {1,2,3}) x reordered table; '
    'edit histories also contain the shapes move_boundary (last / first observation of an individual re-assigned to the adjacent one) and resize_blocks (table replaced by a sorted extract with the same ids and length, other block sizes): ids, order and length kept, only block boundaries move; '
    'bootstrap: 2-4 samples, numpy seed, resample size in {default, 1, 7}; same-object sequences of 1-3 edits (none, reorder, append for the last / a new individual, drop a row / an individual, relabel) each followed by '
    'likelihood / derivatives / simulate on the existing object (isolated process)'
)

WHERE_DICT = 'BIOGEME.__init__ with a dict of formulas on panel data: variables outside PanelLikelihoodTrajectory'
WHERE_BOOT_L = 'calculate_likelihood right after estimate(run_bootstrap=True) on the same object (engine keeps the last bootstrap sample)'
WHERE_SEQ = 'sequence of simulate / calculate_likelihood / estimate on one panel BIOGEME object'
WHERE_BOOT_SAMPLE = 'bootstrap on panel data: Database.sample_individual_map_with_replacement / the bootstrap loop of BIOGEME.estimate'
WHERE_DERIV = 'BIOGEME.calculate_likelihood_and_derivatives on panel data'
MATCHERS = {
    'dict_path': lambda case: isinstance(case, dict) and case.get('dict_path') is True,
    'after_bootstrap': lambda case: isinstance(case, dict) and case.get('step') == 'likelihood-right-after-bootstrap',
}

TOML = core.TOML_MINIMAL
EXTRA_MODULES = list(leanrun.MODULES)

ID_POOLS = [
    lambda rng: rng.randint(-50, 50),
    lambda rng: rng.randint(-10**9, 10**9),
    lambda rng: rng.choice([1, 2, 3, 4, 5, 6, 7, 8, 9, 10, 11, 12]),
    lambda rng: rng.randint(-40, 40) / 2.0,
    lambda rng: rng.choice([0, -1, 1, 10**6, -(10**6), 999999, 1000001, 17, 170, 1700]),
    lambda rng: rng.randint(-2, 4),   # around zero: 0 the smallest id / not in the first block / next to negative ids
    lambda rng: rng.randint(0, 5),
]

# ----------------------------------------------------------------------------- generators


def gen_table(rng, contiguous=None):
    n_ind = rng.choice([1, 1, 2, 2, 3, 3, 4, 5, 6, 8])
    pool = rng.choice(ID_POOLS)
    if pool in ID_POOLS[-2:]:
        n_ind = min(n_ind, 5)
    ids = []
    while len(ids) < n_ind:
        v = pool(rng)
        if v not in ids:
            ids.append(v)
    blocks = []
    for v in ids:
        k = rng.choice([1, 1, 2, 3, 4, 5])
        blocks.append([[v, rng.choice([0.125, 0.25, 0.5, 0.75, 0.375, 0.9, 0.05]), rng.randint(-8, 8) / 4.0] for _ in range(k)])
    if contiguous is None:
        contiguous = rng.random() < 0.75
    rows = [r for b in blocks for r in b]
    if not contiguous and len(rows) >= 3 and n_ind >= 2:
        # deliberately interleave: move one row of an individual with >= 2 rows (or any) elsewhere
        for _ in range(20):
            rows2 = list(rows)
            i = rng.randrange(len(rows2))
            r = rows2.pop(i)
            j = rng.randrange(len(rows2) + 1)
            rows2.insert(j, r)
            if not is_contiguous([x[0] for x in rows2]):
                rows = rows2
                break
    index = list(range(len(rows)))
    if rng.random() < 0.5:
        rng.shuffle(index)
    return {'rows': rows, 'index': index}


def is_contiguous(ids):
    """oracle from the statement: each individual's rows form one contiguous block"""
    seen = set()
    prev = object()
    for v in ids:
        if v != prev:
            if v in seen:
                return False
            seen.add(v)
        prev = v
    return True


def n_groups(ids):
    return sum(1 for i, v in enumerate(ids) if i == 0 or v != ids[i - 1])


def reorder(rng, table):
    """another order of the same rows: individuals shuffled, rows shuffled inside each individual (still contiguous)"""
    by = {}
    order = []
    for r in table['rows']:
        if r[0] not in by:
            by[r[0]] = []
            order.append(r[0])
        by[r[0]].append(r)
    rng.shuffle(order)
    rows = []
    for v in order:
        b = list(by[v])
        rng.shuffle(b)
        rows += b
    index = list(range(len(rows)))
    rng.shuffle(index)
    return {'rows': rows, 'index': index}


def gen_case(rng, contiguous=None):
    case = {
        'table': gen_table(rng, contiguous),
        'formula': rng.choice(['traj', 'traj', 'mc', 'mc']),
        'b': rng.randint(-8, 8) / 16.0,
        'q': rng.choice([0.0, 0.25, 0.5, 1.0]),
        'K': rng.choice([1, 2]),
        'R': rng.choice([1, 2, 3, 5]),
        'threads': rng.choice([1, 2, 3, 9]),
    }
    return case


# ----------------------------------------------------------------------------- real objects


def make_df(table):
    import pandas as pd

    ids = [r[0] for r in table['rows']]
    allint = all(float(v).is_integer() for v in ids)
    return pd.DataFrame(
        {'ID': [int(v) for v in ids] if allint else [float(v) for v in ids], 'P': [float(r[1]) for r in table['rows']], 'X': [float(r[2]) for r in table['rows']]},
        index=list(table['index']),
    )


def draw_value(ind, r, k):
    """deterministic 'draw' that encodes (individual, r, variable) - dyadic, small, positive"""
    return (ind + 1) / 16.0 + (r + 1) / 256.0 + k / 4.0


def make_generators(calls):
    def g(k):
        def gen(sample_size, number_of_draws):
            calls.append((k, int(sample_size), int(number_of_draws)))
            return np.array([[draw_value(i, r, k) for r in range(number_of_draws)] for i in range(sample_size)], dtype=float).reshape(sample_size, number_of_draws)

        return gen

    return {'G0': (g(0), 'encodes (individual, r), variable 0'), 'G1': (g(1), 'encodes (individual, r), variable 1')}


def integrand_expr(case, with_draws):
    from biogeme.expressions import Beta, Variable, exp, bioDraws

    b = Beta('b', 0.0, None, None, 0)
    P, X = Variable('P'), Variable('X')
    if not with_draws:
        return P * exp(b * X)
    e = P * exp(b * X * bioDraws('xi0', 'G0'))
    if case['K'] >= 2:
        e = e * (1 + case['q'] * bioDraws('xi1', 'G1'))
    return e


def loglike_expr(case):
    from biogeme.expressions import log, PanelLikelihoodTrajectory, MonteCarlo

    if case['formula'] == 'traj':
        return log(PanelLikelihoodTrajectory(integrand_expr(case, False)))
    return log(MonteCarlo(PanelLikelihoodTrajectory(integrand_expr(case, True))))


def run_panel(table):
    """Database.panel on the table: acceptance, map, sorted data, sample size, flat frame"""
    import biogeme.database as db
    from biogeme.exceptions import BiogemeError
    from biogeme.tools.database import count_number_of_groups

    df = make_df(table)
    df0 = df.copy()
    out = {'groups': int(count_number_of_groups(df0, 'ID')), 'groups_sorted': int(count_number_of_groups(df0.sort_values(by=['ID']), 'ID')),
           'frame_untouched': list(df0.columns) == list(df.columns) and df0.equals(df)}
    d = db.Database('t', df)
    try:
        d.panel('ID')
    except BiogemeError as e:
        out['ok'] = False
        out['error'] = str(e)[:200]
        return out, None
    out['ok'] = True
    m = d.individualMap
    out['map'] = [[float(i), int(m.loc[i].iloc[0]), int(m.loc[i].iloc[1])] for i in m.index]
    out['sorted_rows'] = [[float(a), float(p), float(x)] for a, p, x in zip(d.data['ID'], d.data['P'], d.data['X'])]
    out['data_index'] = [int(i) for i in d.data.index]
    out['sample_size'] = int(d.get_sample_size())
    out['n_obs'] = int(d.get_number_of_observations())
    flat = d.generate_flat_panel_dataframe()
    out['flat_index'] = [float(i) for i in flat.index]
    out['flat'] = {c: [None if (isinstance(v, float) and math.isnan(v)) else float(v) for v in flat[c]] for c in flat.columns}
    return out, d


def run_values(case, table):
    """likelihood / simulate on the panel table + the real per-row values from a non-panel copy"""
    import biogeme.biogeme as bio
    import biogeme.database as db

    calls = []
    with core.scratch(TOML):
        d = db.Database('t', make_df(table))
        d.panel('ID')
        if case['formula'] == 'mc':
            d.set_random_number_generators(make_generators(calls))
        ll = loglike_expr(case)
        B = bio.BIOGEME(d, ll, number_of_draws=case['R'], number_of_threads=case['threads'])
        n_calls_init = len(calls)
        x = [case['b']]
        out = {
            'L': float(B.calculate_likelihood(x, scaled=False)),
            'Ls': float(B.calculate_likelihood(x, scaled=True)),
            'sample_size': int(d.get_sample_size()),
        }
        # the other public entry points that return the log likelihood (and quantities derived from it)
        for sc in (False, True):
            r = B.calculate_likelihood_and_derivatives(x, scaled=sc, hessian=True, bhhh=True)
            out['Ds' if sc else 'D'] = {
                'f': float(r.function), 'g': [float(v) for v in np.asarray(r.gradient).ravel()],
                'h': [float(v) for v in np.asarray(r.hessian).ravel()], 'bhhh': [float(v) for v in np.asarray(r.bhhh).ravel()],
            }
        out['Dplain'] = float(B.calculate_likelihood_and_derivatives(x, scaled=True).function)
        out['L0'] = float(B.calculate_init_likelihood())
        # thin public wrappers around the same function: check_derivatives, likelihood_finite_difference_hessian
        cd = B.check_derivatives(x, verbose=False)
        out['CD'] = {'f': float(cd[0]), 'g': [float(v) for v in np.asarray(cd[1]).ravel()], 'h': [float(v) for v in np.asarray(cd[2]).ravel()]}
        out['FDH'] = [float(v) for v in np.asarray(B.likelihood_finite_difference_hessian(x)).ravel()]
        out['L_again'] = float(B.calculate_likelihood(x, scaled=False))
        sim = B.simulate({'b': case['b']})
        out['sim_ids'] = [float(i) for i in sim.index]
        out['sim'] = [float(v) for v in sim['log_like'].values]
        out['sorted_rows'] = [[float(a), float(p), float(xx)] for a, p, xx in zip(d.data['ID'], d.data['P'], d.data['X'])]
        out['gen_calls'] = [list(c) for c in calls]
        out['n_calls_init'] = n_calls_init
        if case['formula'] == 'mc':
            out['draws_shape'] = list(np.asarray(d.theDraws).shape)
        # real per-row values of the integrand without draws, on a non-panel copy of the sorted table
        if case['formula'] == 'traj':
            flat = db.Database('flat', d.data[['ID', 'P', 'X']].copy())
            out['per_row'] = [float(v) for v in integrand_expr(case, False).get_value_c(database=flat, betas={'b': case['b']}, prepare_ids=True)]
            if len(LEANRUN) < 40:
                out['obs'] = [leanrun.observe(integrand_expr(case, False), flat, {'b': case['b']})]
    return out


# ----------------------------------------------------------------------------- oracle (from the statement)


def rank_map(ids):
    vals = sorted(set(ids))
    return {v: i - len(vals) // 2 for i, v in enumerate(vals)}  # order- and equality-preserving integers (negative ones too)


def oracle_map(table, real, res, desc, flat=True, where='Database.panel / build_panel_map'):
    """every row belongs to exactly one individual, each individual's rows form one block, sample size = #individuals"""
    ids = [float(r[0]) for r in table['rows']]
    N = len(ids)
    rows_sorted = real['sorted_rows']
    if sorted(map(tuple, rows_sorted)) != sorted((float(r[0]), float(r[1]), float(r[2])) for r in table['rows']):
        res.violate('the sorted table holds exactly the rows of the table', desc, rows_sorted, table['rows'], where=where)
    if real['data_index'] != list(range(N)):
        res.violate('rows are renumbered 0..N-1 after sorting', desc, real['data_index'], list(range(N)), where=where)
    covered = [0] * N
    for a, lo, hi in real['map']:
        if not (0 <= lo <= hi < N):
            res.violate('map bounds inside the table', desc, [a, lo, hi], f'0 <= first <= last < {N}', where=where)
            return
        for i in range(lo, hi + 1):
            covered[i] += 1
            if rows_sorted[i][0] != a:
                res.violate("an individual's block holds only its own rows", desc, {'entry': [a, lo, hi], 'row': i, 'id': rows_sorted[i][0]}, a, where=where)
        cnt = sum(1 for r in rows_sorted if r[0] == a)
        if cnt != hi - lo + 1:
            res.violate("an individual's block holds all its rows", desc, [a, lo, hi], cnt, where=where)
    if covered != [1] * N:
        res.violate('every row belongs to exactly one individual', desc, covered, [1] * N, where=where)
    if sorted(m[0] for m in real['map']) != sorted(set(ids)):
        res.violate('one map entry per individual', desc, [m[0] for m in real['map']], sorted(set(ids)), where=where)
    if real['sample_size'] != len(set(ids)):
        res.violate('sample size = number of individuals', desc, real['sample_size'], len(set(ids)), where='Database.get_sample_size')
    if real['n_obs'] != N:
        res.violate('number of observations = number of rows', desc, real['n_obs'], N, where='Database.get_number_of_observations')
    if not flat:
        return
    # flat frame: one line per individual, k-th row of the individual in columns k_P, k_X
    if sorted(real['flat_index']) != sorted(set(ids)):
        res.violate('flat panel frame has one line per individual', desc, real['flat_index'], sorted(set(ids)), where='generate_flat_panel_dataframe')
    else:
        # a column that is constant inside every individual is reported once under its own name,
        # the others as 1_<col>, 2_<col>, ... in the order of the rows of the sorted table
        for ci, col in ((1, 'P'), (2, 'X')):
            constant = all(len({r[ci] for r in rows_sorted if r[0] == a}) == 1 for a in set(ids))
            for pos, a in enumerate(real['flat_index']):
                mine = [r[ci] for r in rows_sorted if r[0] == a]
                if constant:
                    got = [real['flat'].get(col, [None] * (pos + 1))[pos]]
                    expd = [mine[0]]
                else:
                    got = []
                    k = 1
                    while f'{k}_{col}' in real['flat']:
                        got.append(real['flat'][f'{k}_{col}'][pos])
                        k += 1
                    expd = mine + [None] * (len(got) - len(mine))
                if got != expd:
                    res.violate(f'flat panel frame lists column {col} of the rows of each individual', desc, got, expd, where='generate_flat_panel_dataframe')
                    break


def oracle_values(case, table, real, res, desc):
    """independent product / mean from the statement"""
    rows = real['sorted_rows']
    ids = sorted(set(r[0] for r in rows))
    where = 'BIOGEME.calculate_likelihood / simulate on panel data'
    order = real['sim_ids']  # position of an individual in the real map = its index for the draws
    if sorted(order) != ids:
        res.violate('simulate on panel data reports one line per individual', desc, order, ids, where=where)
        return None
    exp_vals = []
    if case['formula'] == 'traj':
        pr = real['per_row']
        for a in order:
            exp_vals.append(math.log(math.prod(v for v, r in zip(pr, rows) if r[0] == a)))
    else:
        R, K = case['R'], case['K']
        exp_vals = expected_mc(case, rows, order, case['b'])
        # draw table dimensioned by individuals, every generator call asks for (individuals, R)
        bad = [c for c in real['gen_calls'] if c[1] != len(ids) or c[2] != R]
        if bad or not real['gen_calls']:
            res.violate('the draw generators are asked for (number of individuals, R) series', desc, real['gen_calls'], [len(ids), R], where='Database.generate_draws')
        if real.get('draws_shape') != [len(ids), R, K]:
            res.violate('draw table has dimensions (individuals, draws, variables)', desc, real.get('draws_shape'), [len(ids), R, K], where='Database.generate_draws')
    for a, got, e in zip(order, real['sim'], exp_vals):
        if not core.close(got, e, rel=1e-11, abs_=1e-12):
            res.violate(f'value of individual {a} = log of the {"mean over draws of the " if case["formula"] == "mc" else ""}product over its rows', desc, got, e, where=where)
            break
    tot = math.fsum(exp_vals)
    if not core.close(real['L'], tot, rel=1e-11, abs_=1e-11):
        res.violate('log likelihood = sum over individuals of the per-individual values', desc, real['L'], tot, where=where)
    if not core.close(real['Ls'], real['L'] / len(ids), rel=1e-15):
        res.violate('scaled log likelihood = log likelihood / number of individuals', desc, real['Ls'], real['L'] / len(ids), where=where)
    if real['sample_size'] != len(ids):
        res.violate('sample size = number of individuals', desc, real['sample_size'], len(ids), where='Database.get_sample_size')
    # secondary entry points: same function; scaled = divided by the number of individuals, for every returned quantity
    where2 = WHERE_DERIV
    if not core.close(real['D']['f'], tot, rel=1e-11, abs_=1e-11):
        res.violate('calculate_likelihood_and_derivatives: log likelihood = sum over individuals of the per-individual values', desc, real['D']['f'], tot, where=where2)
    for key in ('f', 'g', 'h', 'bhhh'):
        un, sc = real['D'][key] if key != 'f' else [real['D']['f']], real['Ds'][key] if key != 'f' else [real['Ds']['f']]
        want = [v / len(ids) for v in un]
        if len(sc) != len(want) or not all(core.close(a, b, rel=1e-14, abs_=1e-300) for a, b in zip(sc, want)):
            res.violate(
                f'calculate_likelihood_and_derivatives(scaled=True): {FIELD[key]} = unscaled {FIELD[key]} / number of individuals', desc, sc,
                {'unscaled': un, 'individuals': len(ids), 'rows': len(rows), 'expected': want}, where=where2)
            break
    if not core.close(real['Dplain'], real['L'] / len(ids), rel=1e-14):
        res.violate('calculate_likelihood_and_derivatives(scaled=True) without derivatives: log likelihood / number of individuals', desc, real['Dplain'], real['L'] / len(ids), where=where2)
    if case['formula'] == 'traj':
        # d/db of sum_n log prod_t P exp(b X) = sum over all rows of X
        gexp = math.fsum(r[2] for r in rows)
        if len(real['D']['g']) != 1 or not core.close(real['D']['g'][0], gexp, rel=1e-9, abs_=1e-9):
            res.violate('calculate_likelihood_and_derivatives: gradient of the log likelihood = sum over the individuals of the derivative of their value', desc, real['D']['g'], [gexp], where=where2)
        # BHHH: one score per INDIVIDUAL (sum of X over its rows), squares summed over the individuals; the log likelihood is linear in b
        bexp = math.fsum(math.fsum(r[2] for r in rows if r[0] == a) ** 2 for a in ids)
        if len(real['D']['bhhh']) != 1 or not core.close(real['D']['bhhh'][0], bexp, rel=1e-9, abs_=1e-9):
            res.violate('calculate_likelihood_and_derivatives: BHHH = sum over the INDIVIDUALS of the square of the score of the individual (score summed over its rows first)', desc,
                        real['D']['bhhh'], {'by individuals': bexp, 'by rows (wrong)': math.fsum(r[2] ** 2 for r in rows)}, where=where2)
        if len(real['D']['h']) != 1 or abs(real['D']['h'][0]) > 1e-9:
            res.violate('calculate_likelihood_and_derivatives: second derivative of sum_n log prod_t P exp(b X) is 0', desc, real['D']['h'], [0.0], where=where2)
        l0 = math.fsum(math.log(r[1]) for r in rows)
    else:
        l0 = math.fsum(expected_mc(case, rows, order, 0.0))
    if not core.close(real['L0'], l0, rel=1e-11, abs_=1e-11):
        res.violate('calculate_init_likelihood = log likelihood at the initial value of the parameters', desc, real['L0'], l0, where='BIOGEME.calculate_init_likelihood on panel data')
    if not core.close(real['CD']['f'], real['L'], rel=1e-13, abs_=1e-13) or not all(core.close(a, b, rel=1e-12, abs_=1e-13) for a, b in zip(real['CD']['g'] + real['CD']['h'], real['D']['g'] + real['D']['h'])):
        res.violate('check_derivatives returns the (unscaled) log likelihood, gradient and hessian of the panel likelihood', desc, real['CD'], {'f': real['L'], 'g': real['D']['g'], 'h': real['D']['h']}, where=WHERE_DERIV)
    if len(real['FDH']) != len(real['D']['h']) or not all(core.close(a, b, rel=1e-3, abs_=1e-3 * (1 + abs(real['L']))) for a, b in zip(real['FDH'], real['D']['h'])):
        res.violate('likelihood_finite_difference_hessian approximates the hessian of the (unscaled) panel log likelihood', desc, real['FDH'], real['D']['h'], where=WHERE_DERIV)
    if not core.close(real['L_again'], real['L'], rel=1e-13, abs_=1e-13):
        res.violate('calculate_likelihood returns the same value after the other entry points were used', desc, real['L_again'], real['L'], where=where)
    return exp_vals


FIELD = {'f': 'log likelihood', 'g': 'gradient', 'h': 'hessian', 'bhhh': 'BHHH matrix'}


def expected_mc(case, rows, order, b):
    """log of the mean over draws of the product over the rows of the individual, the draw vector being
    that of (individual, r) for all its rows; `order` = ids in the order of the map (position = draw index)"""
    R, K, q = case['R'], case['K'], case['q']
    vals = []
    for ind, a in enumerate(order):
        acc = []
        for r in range(R):
            x0 = draw_value(ind, r, 0)
            x1 = draw_value(ind, r, 1)
            acc.append(math.prod(rw[1] * math.exp(b * rw[2] * x0) * ((1 + q * x1) if K >= 2 else 1.0) for rw in rows if rw[0] == a))
        vals.append(math.log(math.fsum(acc) / R))
    return vals


# ----------------------------------------------------------------------------- one case


def check_panel(ctx, res, table, tag=''):
    ids = [r[0] for r in table['rows']]
    rk = rank_map(ids)
    desc = {'table': table}
    iso_f.note(desc, 'Database.panel')
    try:
        real, d = run_panel(table)
    except Exception as e:  # noqa: BLE001
        res.violate(f'Database.panel raises {type(e).__name__}: {str(e)[:150]}', desc, core.exc_kind(e), 'accepted or BiogemeError', where='Database.panel')
        return None
    contiguous = is_contiguous(ids)
    sizes = {}
    for v in ids:
        sizes[v] = sizes.get(v, 0) + 1
    res.count({'panel': desc}, nontrivial=len(sizes) >= 2 and len(set(sizes.values())) >= 2)
    res.tally('contiguous' if contiguous else 'interleaved')
    res.tally(f'individuals={len(sizes)}')
    # property oracle
    if real['ok'] != contiguous:
        res.violate(
            'Database.panel accepts the table iff each individual\'s rows are consecutive', desc,
            'accepted' if real['ok'] else 'refused', 'accepted' if contiguous else 'refused', where='Database.panel')
    if real['groups'] != n_groups(ids):
        res.violate('count_number_of_groups = number of runs of equal ids', desc, real['groups'], n_groups(ids), where='count_number_of_groups')
    if real['groups_sorted'] != len(sizes):
        res.violate('count_number_of_groups on the sorted table = number of individuals', desc, real['groups_sorted'], len(sizes), where='count_number_of_groups')
    if not real['frame_untouched']:
        res.violate('count_number_of_groups leaves the table it is given unchanged', desc, 'changed', 'unchanged', where='count_number_of_groups')
    res.tally('id-pattern:' + ('zero-first' if ids[0] == 0 else 'zero-smallest-not-first' if 0 in ids and min(ids) == 0 else 'zero-inside' if 0 in ids else 'negative-first' if ids[0] < 0 else 'other'))
    if real['ok']:
        oracle_map(table, real, res, desc)

    def cb(ans):
        a = ans[0]
        if a.get('ok') != real['ok']:
            res.diverge('acceptance by Database.panel vs Panel.panelOk', desc, a.get('ok'), real['ok'])
        if a.get('groups') != real['groups']:
            res.diverge('count_number_of_groups vs Panel.countGroups', desc, a.get('groups'), real['groups'])
        if a.get('groups_code') != real['groups'] or a.get('ok_code') != real['ok'] or a.get('individuals_code') != real['groups_sorted']:
            res.diverge('count_number_of_groups (table, sorted table) / acceptance vs Panel.countGroupsCode / panelOkCode', desc,
                        [a.get('groups_code'), a.get('individuals_code'), a.get('ok_code')], [real['groups'], real['groups_sorted'], real['ok']])
        if real['ok']:
            inv = {v: k for k, v in rk.items()}
            mm = [[float(inv[e[0]]), e[1], e[2]] for e in a.get('map', [])]
            if mm != real['map']:
                res.diverge('individualMap vs Panel.panelMap', desc, mm, real['map'])
            if a.get('sample_size') != real['sample_size']:
                res.diverge('get_sample_size vs Panel.sampleSize', desc, a.get('sample_size'), real['sample_size'])
            if [float(inv[v]) for v in a.get('sorted', [])] != [r[0] for r in real['sorted_rows']]:
                res.diverge('sorted id column vs Panel.sortIds', desc, a.get('sorted'), [r[0] for r in real['sorted_rows']])

    ctx.batch.add_many([{'op': 'panel', 'ids': [rk[v] for v in ids]}], cb)
    return real


def check_values(ctx, res, case, table, tag=''):
    desc = dict(case, table=table)
    iso_f.note(desc, 'BIOGEME.calculate_likelihood / simulate on panel data')
    try:
        real = run_values(case, table)
    except Exception as e:  # noqa: BLE001
        res.violate(f'the likelihood entry points raise {type(e).__name__}: {str(e)[:150]} on a valid panel table', desc, core.exc_kind(e), 'a value', where='BIOGEME.calculate_likelihood / simulate on panel data')
        return None
    res.count({'values': desc}, nontrivial=True)
    res.tally(f'formula={case["formula"]}')
    if 'obs' in real:
        LEANRUN.append({'kind': 'traj', 'obs': real.pop('obs'), 'rows': real['sorted_rows'], 'per': real['sim'], 'w': 0.0, 'desc': desc})
    exp_vals = oracle_values(case, table, real, res, desc)
    rows = real['sorted_rows']
    ids_sorted = [r[0] for r in rows]
    rk = rank_map(ids_sorted)
    if case['formula'] == 'traj':
        req = {'op': 'values', 'ids': [rk[v] for v in ids_sorted], 'p': [f2b(v) for v in real['per_row']], 'outer': 'log'}
    else:
        n_ind = len(set(ids_sorted))
        req = {
            'op': 'mc', 'ids': [rk[v] for v in ids_sorted], 'p': [f2b(r[1]) for r in rows], 'x': [f2b(r[2]) for r in rows],
            'b': f2b(case['b']), 'q': f2b(case['q']), 'K': case['K'], 'R': case['R'], 'outer': 'log',
            'draws': [[[f2b(draw_value(i, r, k)) for k in range(case['K'])] for r in range(case['R'])] for i in range(n_ind)],
        }

    def cb(ans):
        a = ans[0]
        mv = [b2f(v) for v in a.get('values', [])]
        if len(mv) != len(real['sim']) or not all(core.close(x, y, rel=1e-12, abs_=1e-13) for x, y in zip(mv, real['sim'])):
            res.diverge(f'simulate per individual vs Panel.{"tableValues" if case["formula"] == "traj" else "panelValuesMC"}', desc, mv, real['sim'])

    ctx.batch.add_many([req], cb)
    if case['formula'] == 'traj':
        req2 = {'op': 'scores', 'ids': [rk[v] for v in ids_sorted], 'x': [f2b(r[2]) for r in rows], 'f': f2b(real['D']['f']),
                'g': [f2b(v) for v in real['D']['g']], 'h': [f2b(v) for v in real['D']['h']], 'b': [f2b(v) for v in real['D']['bhhh']]}

        def cb2(ans):
            a = ans[0]
            got = [real['D']['g'][0], real['D']['bhhh'][0]] if len(real['D']['g']) == 1 and len(real['D']['bhhh']) == 1 else None
            mod = [b2f(a['grad']), b2f(a['bhhh'])] if 'grad' in a else None
            if got is None or mod is None or not all(core.close(x, y, rel=1e-9, abs_=1e-9) for x, y in zip(mod, got)):
                res.diverge('gradient / BHHH of the log likelihood vs Panel.gradPanel / bhhhPanel (scores by individuals)', desc, mod, got, where=WHERE_DERIV)
            sm = [b2f(a.get('sf', 0))] + [b2f(v) for k in ('sg', 'sh', 'sb') for v in a.get(k, [])]
            sr = [real['Ds']['f']] + real['Ds']['g'] + real['Ds']['h'] + real['Ds']['bhhh']
            if len(sm) != len(sr) or not all(core.close(x, y, rel=1e-14, abs_=1e-300) for x, y in zip(sm, sr)):
                res.diverge('calculate_likelihood_and_derivatives(scaled=True) vs Panel.scaledOutput', desc, sm, sr, where=WHERE_DERIV)

        ctx.batch.add_many([req2], cb2)
    else:
        # the table as it was GIVEN (not sorted): sorting, map and assignment of the draw rows all by the model
        rows0 = [[float(r[0]), float(r[1]), float(r[2])] for r in table['rows']]
        rk0 = rank_map([r[0] for r in rows0])
        req3 = dict(req, op='mc_table', ids=[rk0[r[0]] for r in rows0], p=[f2b(r[1]) for r in rows0], x=[f2b(r[2]) for r in rows0])

        def cb3(ans):
            a = ans[0]
            mv = [b2f(v) for v in a.get('values', [])]
            inv0 = {v: k for k, v in rk0.items()}
            mi = [inv0.get(i) for i in a.get('ids', [])]
            if mi != real['sim_ids'] or len(mv) != len(real['sim']) or not all(core.close(x, y, rel=1e-12, abs_=1e-13) for x, y in zip(mv, real['sim'])):
                res.diverge('simulate per individual vs Panel.tableValuesMC on the table as given (sort, map, draw row of each individual)', desc,
                            {'ids': mi, 'values': mv}, {'ids': real['sim_ids'], 'values': real['sim']})

        ctx.batch.add_many([req3], cb3)
    return real


def check_case(ctx, res, case, rng):
    table = case['table']
    real = check_panel(ctx, res, table)
    if real is None or not real['ok']:
        return
    v = check_values(ctx, res, case, table)
    if v is None:
        return
    # another order of individuals and of the rows of each individual: same values per individual
    t2 = reorder(rng, table)
    case2 = dict(case, threads=rng.choice([1, 2, 3]))
    v2 = check_values(ctx, res, case2, t2)
    if v2 is None:
        return
    desc = dict(case, table=table, reordered=t2)
    res.tally('reorder')
    d1, d2 = dict(zip(v['sim_ids'], v['sim'])), dict(zip(v2['sim_ids'], v2['sim']))
    if sorted(d1) != sorted(d2) or not all(core.close(d1[a], d2[a], rel=1e-11, abs_=1e-12) for a in d1):
        res.violate('per-individual values do not depend on the order of individuals / of the rows of an individual', desc, d2, d1, where='order of the rows in a panel table')
    if not core.close(v['L'], v2['L'], rel=1e-11, abs_=1e-11):
        res.violate('log likelihood does not depend on the order of individuals / rows', desc, v2['L'], v['L'], where='order of the rows in a panel table')


# ----------------------------------------------------------------------------- several trajectory operators (latent classes)

WHERE_LC = 'formula with several PanelLikelihoodTrajectory combined non-additively (latent classes) on panel data'
LEANRUN = []  # pending: per-row values of the integrands computed by the PROVED engine model, then the panel model on them


def gen_latent_case(rng):
    return {'table': gen_table(rng, contiguous=True), 'w': rng.choice([0.25, 0.5, 0.75, 0.125]), 'b': rng.randint(-8, 8) / 16.0,
            'mc': rng.random() < 0.4, 'R': rng.choice([1, 2, 3]), 'threads': rng.choice([1, 2, 3])}


def latent_parts(case):
    from biogeme.expressions import Beta, Variable, exp, bioDraws

    b = Beta('b', 0.0, None, None, 0)
    w = Beta('w', case['w'], None, None, 1)
    P, X = Variable('P'), Variable('X')
    if case['mc']:
        xi = bioDraws('xi0', 'G0')
        return w, P * exp(b * X * xi), P * P * exp(-(b * X * xi))
    return w, P * exp(b * X), P * P * exp(-(b * X))


def latent_expr(case):
    from biogeme.expressions import log, PanelLikelihoodTrajectory, MonteCarlo

    w, f1, f2 = latent_parts(case)
    mix = w * PanelLikelihoodTrajectory(f1) + (1 - w) * PanelLikelihoodTrajectory(f2)
    return log(MonteCarlo(mix)) if case['mc'] else log(mix)


def run_latent(case, table):
    import biogeme.biogeme as bio
    import biogeme.database as db

    calls = []
    with core.scratch(TOML):
        d = db.Database('t', make_df(table))
        d.panel('ID')
        if case['mc']:
            d.set_random_number_generators(make_generators(calls))
        ll = latent_expr(case)
        B = bio.BIOGEME(d, ll, number_of_draws=case['R'], number_of_threads=case['threads'])
        x = [case['b']]
        out = {'L': float(B.calculate_likelihood(x, scaled=False)), 'Ls': float(B.calculate_likelihood(x, scaled=True))}
        for sc in (False, True):
            r = B.calculate_likelihood_and_derivatives(x, scaled=sc, hessian=False, bhhh=True)
            out['Ds' if sc else 'D'] = [float(r.function)] + [float(v) for v in np.asarray(r.gradient).ravel()] + [float(v) for v in np.asarray(r.bhhh).ravel()]
        out['ids'] = [float(i) for i in d.individualMap.index]
        e2 = latent_expr(case)
        out['per'] = [float(v) for v in e2.get_value_c(database=d, betas={'b': case['b']}, number_of_draws=case['R'], prepare_ids=True)]
        out['agg'] = float(latent_expr(case).get_value_c(database=d, betas={'b': case['b']}, number_of_draws=case['R'], aggregation=True, prepare_ids=True))
        out['sorted_rows'] = [[float(a), float(p), float(xx)] for a, p, xx in zip(d.data['ID'], d.data['P'], d.data['X'])]
        out['sample_size'] = int(d.get_sample_size())
        if not case['mc']:
            flat = db.Database('flat', d.data[['ID', 'P', 'X']].copy())
            _, f1, f2 = latent_parts(case)
            out['obs'] = [leanrun.observe(f, flat, {'b': case['b']}) for f in (f1, f2)]
    return out


def expected_latent(case, rows, order):
    """per individual: value log(w prod f1 + (1-w) prod f2) (mean over the draws of the individual inside the log) and its derivative in b"""
    w, b, R = case['w'], case['b'], case['R']
    vals, grads = [], []
    for ind, a in enumerate(order):
        mine = [r for r in rows if r[0] == a]
        S = math.fsum(r[2] for r in mine)
        p1, p2 = math.prod(r[1] for r in mine), math.prod(r[1] * r[1] for r in mine)
        T, dT = [], []
        for r_ in (range(R) if case['mc'] else [None]):
            xi = draw_value(ind, r_, 0) if case['mc'] else 1.0
            A, C = p1 * math.exp(b * xi * S), p2 * math.exp(-b * xi * S)
            T.append(w * A + (1 - w) * C)
            dT.append(xi * S * (w * A - (1 - w) * C))
        vals.append(math.log(math.fsum(T) / len(T)))
        grads.append(math.fsum(dT) / math.fsum(T))
    return vals, grads


def check_latent_one(ctx, res, case, table):
    desc = dict(case, table=table, latent=True)
    iso_f.note(desc, WHERE_LC)
    try:
        real = run_latent(case, table)
    except Exception as e:  # noqa: BLE001
        res.violate(f'a latent-class formula on a valid panel table raises {type(e).__name__}: {str(e)[:150]}', desc, core.exc_kind(e), 'values', where=WHERE_LC)
        return None
    res.count({'latent': desc}, nontrivial=True)
    res.tally('latent-class' + (':monte-carlo' if case['mc'] else ''))
    rows = real['sorted_rows']
    ids = sorted({r[0] for r in rows})
    if real['ids'] != ids or real['sample_size'] != len(ids):
        res.violate('the map lists the individuals (ascending id); sample size = their number', desc, {'ids': real['ids'], 'n': real['sample_size']}, ids, where=WHERE_LC)
        return None
    vals, grads = expected_latent(case, rows, ids)
    if len(real['per']) != len(vals) or not all(core.close(a, b, rel=1e-11, abs_=1e-12) for a, b in zip(real['per'], vals)):
        res.violate('get_value_c: per individual log(w * product over its rows of f1 + (1-w) * product over its rows of f2)', desc, real['per'], {'ids': ids, 'values': vals}, where=WHERE_LC)
        return real
    tot = math.fsum(vals)
    for key, got in (('calculate_likelihood', real['L']), ('calculate_likelihood_and_derivatives', real['D'][0]), ('get_value_c(aggregation)', real['agg'])):
        if not core.close(got, tot, rel=1e-11, abs_=1e-11):
            res.violate(f'{key}: log likelihood = sum over the individuals of log(w * prod f1 + (1-w) * prod f2)', desc, got, tot, where=WHERE_LC)
            return real
    gexp, bexp = math.fsum(grads), math.fsum(g * g for g in grads)
    if len(real['D']) != 3 or not core.close(real['D'][1], gexp, rel=1e-8, abs_=1e-9) or not core.close(real['D'][2], bexp, rel=1e-8, abs_=1e-9):
        res.violate('calculate_likelihood_and_derivatives: gradient = sum over the individuals of their scores, BHHH = sum over the individuals of their squares', desc, real['D'][1:], [gexp, bexp], where=WHERE_LC)
    if not core.close(real['Ls'], real['L'] / len(ids), rel=1e-15) or not all(core.close(a, b / len(ids), rel=1e-14, abs_=1e-300) for a, b in zip(real['Ds'], real['D'])):
        res.violate('scaled quantities = unscaled / number of individuals', desc, {'Ls': real['Ls'], 'Ds': real['Ds']}, {'L': real['L'], 'D': real['D'], 'individuals': len(ids), 'rows': len(rows)}, where=WHERE_LC)
    if not case['mc']:
        LEANRUN.append({'obs': real.pop('obs'), 'rows': rows, 'per': real['per'], 'w': case['w'], 'desc': desc})
    return real


def check_latent(ctx, res, case, rng):
    v = check_latent_one(ctx, res, case, case['table'])
    if v is None:
        return
    t2 = reorder(rng, case['table'])
    v2 = check_latent_one(ctx, res, dict(case, threads=rng.choice([1, 2])), t2)
    if v2 is None:
        return
    d1, d2 = dict(zip(v['ids'], v['per'])), dict(zip(v2['ids'], v2['per']))
    if sorted(d1) != sorted(d2) or not all(core.close(d1[a], d2[a], rel=1e-11, abs_=1e-12) for a in d1) or not core.close(v['L'], v2['L'], rel=1e-11, abs_=1e-11):
        res.violate('latent-class values do not depend on the order of individuals / of the rows of an individual', dict(case, reordered=t2, latent=True), {'per': d2, 'L': v2['L']}, {'per': d1, 'L': v['L']},
                    where='order of the rows in a panel table')


def flush_leanrun(ctx, res):
    """the integrands the code built, evaluated on every row by the PROVED engine model (C01.engine_correct) on their real
    signature text; the panel model (Panel.tableValuesMulti / tableValues) then runs on those numbers: the C++ engine is
    outside this comparison except for the final value it is compared with"""
    if not LEANRUN:
        return
    flat = [o for it in LEANRUN for o in it['obs']]
    try:
        leans = leanrun.lean_values(flat)
    except core.LeanError:
        raise
    pos = 0
    reqs, items = [], []
    for it in LEANRUN:
        cols = []
        for o in it['obs']:
            lv = leans[pos]
            pos += 1
            leanrun.compare(res, o, lv, 'integrand of a trajectory operator', it['desc'], rel=1e-12, abs_=1e-14, where=WHERE_LC)
            if not isinstance(lv, list) or any(isinstance(v, tuple) for v in lv) or len(lv) != len(it['rows']):
                cols = None
                break
            cols.append(lv)
        if cols is None:
            continue
        ids = [r[0] for r in it['rows']]
        rk = rank_map(ids)
        if it.get('kind') == 'traj':
            reqs.append({'op': 'values', 'ids': [rk[v] for v in ids], 'p': [f2b(v) for v in cols[0]], 'outer': 'log'})
        else:
            reqs.append({'op': 'multi', 'ids': [rk[v] for v in ids], 'cols': [[f2b(v) for v in c] for c in cols], 'w': f2b(it['w']), 'comb': 'latent'})
        items.append(it)
    del LEANRUN[:]
    if not reqs:
        return

    def cb(ans):
        for a, it in zip(ans, items):
            mv = [b2f(v) for v in a.get('values', [])]
            if len(mv) != len(it['per']) or not all(core.close(x, y, rel=1e-11, abs_=1e-12) for x, y in zip(mv, it['per'])):
                res.diverge('per-individual values vs the panel model (Panel.tableValuesMulti / tableValues) run on the per-row values of the PROVED engine model', it['desc'], mv, it['per'], where=WHERE_LC)
            else:
                res.tally('leanrun:panel model on engine-model rows')

    ctx.batch.add_many(reqs, cb)


# ----------------------------------------------------------------------------- sequences on one object

SEQ_TOML = core.TOML_MINIMAL.replace('save_iterations = "False"', 'save_iterations = "False"\nbootstrap_samples = {B}') + '[Output]\ngenerate_html = "False"\ngenerate_pickle = "False"\n'


def gen_seq_case(rng):
    while True:
        t = gen_table(rng, contiguous=True)
        if len({r[0] for r in t['rows']}) >= 3:
            break
    return {'table': t, 'b0': rng.randint(-8, 8) / 8.0, 'np_seed': rng.randint(1, 10**6), 'samples': rng.choice([2, 3, 4]), 'threads': rng.choice([1, 2, 3]),
            'resize': rng.choice([None, None, 1, 7])}


def run_sequence(case):
    """one panel BIOGEME object, used for: simulate, likelihood, simulate, estimate with bootstrap,
    likelihood, simulate, likelihood, simulate, estimate without bootstrap, simulate"""
    import biogeme.biogeme as bio
    import biogeme.database as db
    from biogeme.expressions import Beta, Variable, exp, log, PanelLikelihoodTrajectory

    np.random.seed(case['np_seed'])
    out = []
    with core.scratch(SEQ_TOML.format(B=case['samples'])):
        d = db.Database('t', make_df(case['table']))
        d.panel('ID')
        b = Beta('b', 0.0, None, None, 0)
        P, X = Variable('P'), Variable('X')
        formulas = {
            'log_like': log(PanelLikelihoodTrajectory(P * exp(-(b - X) * (b - X)))),
            'traj': PanelLikelihoodTrajectory(P),
        }
        B = bio.BIOGEME(d, formulas, number_of_threads=case['threads'])
        B.modelName = 'seq'
        x = [case['b0']]

        def sim(step):
            s = B.simulate({'b': case['b0']})
            out.append({'step': step, 'ids': [float(i) for i in s.index], 'log_like': [float(v) for v in s['log_like'].values], 'traj': [float(v) for v in s['traj'].values]})

        def like(step):
            st = {'step': step, 'L': float(B.calculate_likelihood(x, scaled=False)), 'Ls': float(B.calculate_likelihood(x, scaled=True))}
            for sc in (False, True):
                r = B.calculate_likelihood_and_derivatives(x, scaled=sc, hessian=False, bhhh=True)
                st['Ds' if sc else 'D'] = [float(r.function)] + [float(v) for v in np.asarray(r.gradient).ravel()] + [float(v) for v in np.asarray(r.bhhh).ravel()]
            out.append(st)

        def results(step, r):
            out.append({'step': step, 'sampleSize': int(r.data.sampleSize), 'numberOfObservations': int(r.data.numberOfObservations),
                        'logLike': float(r.data.logLike), 'beta': float(r.get_beta_values()['b'])})

        sim('simulate-first')
        like('likelihood-after-simulate')
        sim('simulate-after-likelihood')
        m0 = d.individualMap
        out.append({'step': 'map', 'map': [[float(i), int(m0.loc[i].iloc[0]), int(m0.loc[i].iloc[1])] for i in m0.index], 'x': [float(v) for v in d.data['X']]})
        n_map = len(m0)
        np.random.seed(case['np_seed'] + 1)
        results('results-of-estimate-with-bootstrap', B.estimate(run_bootstrap=True))
        br = np.asarray(B.bootstrap_results, dtype=float)
        np.random.seed(case['np_seed'] + 1)  # the same stream again: the picks of the bootstrap loop
        picks = [[int(i) for i in np.random.randint(0, n_map, size=n_map)] for _ in range(case['samples'])]
        out.append({'step': 'bootstrap-estimates', 'shape': list(br.shape), 'values': [float(v) for v in br.ravel()], 'picks': picks})
        size = case.get('resize')
        np.random.seed(case['np_seed'] + 2)
        smp = d.sample_individual_map_with_replacement(size)
        np.random.seed(case['np_seed'] + 2)
        pk = [int(i) for i in np.random.randint(0, n_map, size=n_map if size is None else size)]
        out.append({'step': 'resample-map', 'size': size, 'picks': pk, 'sample': [[float(smp.index[k]), int(smp.iloc[k, 0]), int(smp.iloc[k, 1])] for k in range(len(smp))]})
        like('likelihood-right-after-bootstrap')
        sim('simulate-after-bootstrap')
        like('likelihood-after-bootstrap-and-simulate')
        sim('simulate-again')
        results('results-of-estimate', B.estimate())
        sim('simulate-after-estimate')
        like('likelihood-after-estimate')
        results('results-of-quick-estimate', B.quick_estimate())
        like('likelihood-after-quick-estimate')
    return out


def check_sequence(ctx, res, case):
    desc0 = dict(case)
    iso_f.note(dict(desc0, step='sequence'), WHERE_SEQ)
    try:
        steps = run_sequence(case)
    except Exception as e:  # noqa: BLE001
        res.violate(f'a sequence of simulate / likelihood / estimate on one panel object raises {type(e).__name__}: {str(e)[:150]}', dict(desc0, step='sequence'), core.exc_kind(e), 'values', where=WHERE_SEQ)
        return
    res.count({'sequence': desc0}, nontrivial=True)
    res.tally('sequence')
    rows = case['table']['rows']
    ids = sorted({float(r[0]) for r in rows})
    b0 = case['b0']
    # oracle from the statement, straight from the table
    exp_traj = {a: math.prod(r[1] for r in rows if float(r[0]) == a) for a in ids}
    exp_ll = {a: math.fsum(math.log(r[1]) - (b0 - r[2]) ** 2 for r in rows if float(r[0]) == a) for a in ids}
    exp_L = math.fsum(exp_ll.values())
    # the map and the bootstrap samples, from the statement: whole individuals (ascending id), each with all its rows
    srt = sorted(rows, key=lambda r: float(r[0]))
    omap, lo = [], 0
    for a in ids:
        k = sum(1 for r in rows if float(r[0]) == a)
        omap.append([a, lo, lo + k - 1])
        lo += k
    real_map, boot = None, None
    for st in steps:
        desc = dict(desc0, step=st['step'])
        if st['step'] == 'map':
            real_map = st
            if st['map'] != omap:
                res.violate('the map lists every individual (ascending id) with the first and last row of its block', desc, st['map'], omap, where=WHERE_SEQ)
            continue
        if st['step'] == 'bootstrap-estimates':
            boot = st
            res.tally('bootstrap-on-panel')
            # log likelihood sum_rows (log P - (b - X)^2) over the rows of the PICKED INDIVIDUALS (with multiplicity): maximum at the mean of X over those rows
            want = []
            for pk in st['picks']:
                xs = [r[2] for i in pk for r in srt[omap[i][1]:omap[i][2] + 1]]
                want.append(math.fsum(xs) / len(xs))
            if st['shape'] != [case['samples'], 1] or not all(core.close(a, b, rel=1e-5, abs_=1e-5) for a, b in zip(st['values'], want)):
                res.violate(
                    'estimate(run_bootstrap=True) on panel data: every bootstrap sample is made of whole individuals drawn with replacement (all the rows of each picked individual, '
                    'as many individuals as the table has); its estimate maximises the likelihood of exactly those rows', desc, st['values'],
                    {'picks': st['picks'], 'estimates': want}, where=WHERE_BOOT_SAMPLE)
            continue
        if st['step'] == 'resample-map':
            want = [omap[i] for i in st['picks']]
            if st['sample'] != want:
                res.violate('sample_individual_map_with_replacement returns the lines of the map of the picked individuals (requested size, default: the number of individuals)', desc, st['sample'], want, where=WHERE_BOOT_SAMPLE)
            continue
        if 'L' in st:
            where = WHERE_BOOT_L if st['step'] == 'likelihood-right-after-bootstrap' else WHERE_SEQ
            if not core.close(st['L'], exp_L, rel=1e-10, abs_=1e-10):
                res.violate(f'log likelihood ({st["step"]}) = sum over individuals of the log of the product over their rows', desc, st['L'], exp_L, where=where)
            elif not core.close(st['Ls'], st['L'] / len(ids), rel=1e-15):
                res.violate(f'scaled log likelihood ({st["step"]}) = log likelihood / number of individuals', desc, st['Ls'], st['L'] / len(ids), where=where)
            elif not core.close(st['D'][0], exp_L, rel=1e-10, abs_=1e-10):
                res.violate(f'calculate_likelihood_and_derivatives ({st["step"]}): log likelihood = sum over individuals of the log of the product over their rows', desc, st['D'][0], exp_L, where=where)
            elif not all(core.close(a, b / len(ids), rel=1e-14, abs_=1e-300) for a, b in zip(st['Ds'], st['D'])):
                res.violate(
                    f'calculate_likelihood_and_derivatives(scaled=True) ({st["step"]}): [log likelihood, gradient, BHHH] = unscaled / number of individuals', desc, st['Ds'],
                    {'unscaled': st['D'], 'individuals': len(ids), 'rows': len(rows)}, where=where if where == WHERE_BOOT_L else WHERE_DERIV)
            continue
        if 'sampleSize' in st:
            if st['sampleSize'] != len(ids) or st['numberOfObservations'] != len(rows):
                res.violate(
                    f'estimation results ({st["step"]}): sample size = number of individuals, number of observations = number of rows', desc,
                    {'sampleSize': st['sampleSize'], 'numberOfObservations': st['numberOfObservations']}, {'sampleSize': len(ids), 'numberOfObservations': len(rows)},
                    where='estimation results on panel data: sampleSize / numberOfObservations')
            # the log likelihood sum_rows (log P - (b - X)^2) is maximal at the mean of X over ALL the rows of all individuals
            bstar = math.fsum(r[2] for r in rows) / len(rows)
            lstar = math.fsum(math.log(r[1]) - (bstar - r[2]) ** 2 for r in rows)
            if not core.close(st['beta'], bstar, rel=1e-5, abs_=1e-5) or not core.close(st['logLike'], lstar, rel=1e-8, abs_=1e-8):
                res.violate(f'estimation results ({st["step"]}): estimate and final log likelihood are those of the full panel table (every individual once, all its rows)', desc,
                            {'beta': st['beta'], 'logLike': st['logLike']}, {'beta': bstar, 'logLike': lstar}, where=WHERE_SEQ)
            continue
        if sorted(st['ids']) != ids:
            res.violate(f'simulate ({st["step"]}) reports one line per individual', desc, st['ids'], ids, where=WHERE_SEQ)
            continue
        for a, tv, lv in zip(st['ids'], st['traj'], st['log_like']):
            if not core.close(tv, exp_traj[a], rel=1e-11) or not core.close(lv, exp_ll[a], rel=1e-10, abs_=1e-11):
                res.violate(
                    f'simulate ({st["step"]}): the value reported for individual {a} = product over exactly the rows of that individual', desc,
                    {'traj': tv, 'log_like': lv}, {'traj': exp_traj[a], 'log_like': exp_ll[a]}, where=WHERE_SEQ)
                break
    if real_map is None or boot is None:
        return
    rs = [st for st in steps if st['step'] == 'resample-map']
    rk = rank_map(ids)
    inv = {v: k for k, v in rk.items()}
    samples = boot['picks'] + [st['picks'] for st in rs]
    req = {'op': 'bootstrap', 'ids': [rk[float(r[0])] for r in srt], 'samples': samples,
           'ops': ['simulate', 'likelihood', 'simulate', 'estimate-bootstrap', 'likelihood', 'simulate', 'likelihood', 'simulate', 'estimate', 'simulate', 'likelihood', 'estimate', 'likelihood']}

    def cb(ans):
        a = ans[0]
        conv = lambda m: [[float(inv[e[0]]), e[1], e[2]] for e in m]
        if conv(a.get('map', [])) != real_map['map']:
            res.diverge('individualMap vs Panel.panelMap', desc0, conv(a.get('map', [])), real_map['map'], where=WHERE_SEQ)
            return
        rsm = [conv(m) for m in a.get('resampled', [])]
        xs = real_map['x']
        est = [math.fsum(x for e in m for x in xs[e[1]:e[2] + 1]) / max(1, sum(e[2] - e[1] + 1 for e in m)) for m in rsm[:len(boot['picks'])]]
        if len(est) != len(boot['values']) or not all(core.close(x, y, rel=1e-5, abs_=1e-5) for x, y in zip(est, boot['values'])):
            res.diverge('bootstrap estimates vs the maximiser over the rows of Panel.resample (whole individuals, with multiplicity)', dict(desc0, step='bootstrap-estimates'), est, boot['values'], where=WHERE_BOOT_SAMPLE)
        for st, m in zip(rs, rsm[len(boot['picks']):]):
            if m != st['sample']:
                res.diverge('sample_individual_map_with_replacement vs Panel.resample', dict(desc0, step='resample-map'), m, st['sample'], where=WHERE_BOOT_SAMPLE)
        if any(conv(u) != real_map['map'] for u in a.get('used', [])) or len(a.get('used', [])) != 13:
            res.diverge('Panel.Sess.run: every reported evaluation of the sequence runs on the full map', desc0, a.get('used'), real_map['map'], where=WHERE_SEQ)

    ctx.batch.add_many([req], cb)


# ----------------------------------------------------------------------------- the table changes between evaluations

WHERE_EDIT = 'evaluation on a panel database whose table was changed after panel() (map rebuilt before each evaluation)'
WHERE_STALE_DRAWS = 'Expression.get_value_c / get_value_and_derivatives with MonteCarlo on a panel database whose number of individuals changed since the map was built'
WHERE_UNSORTED = 'Expression.get_value_c / get_value_and_derivatives with PanelLikelihoodTrajectory on a panel database whose table is no longer sorted by individual'
MATCHERS['stale_draws'] = lambda case: isinstance(case, dict) and case.get('stale_draws') is True
MATCHERS['unsorted_table'] = lambda case: isinstance(case, dict) and case.get('unsorted_table') is True
EXPR_ENTRIES = ('expr', 'expr_sum', 'expr_deriv')
_POISON = {'hit': False}  # an exception came out of the C++ engine in this process: its later answers mean nothing


def apply_edits(cur, edits):
    """the table after the edits (oracle side: plain lists; rows are [id, P, X, key], key unique)"""
    cur = [list(r) for r in cur]
    for e in edits:
        op = e['op']
        if op == 'append':
            cur += [list(r) for r in e['rows']]
        elif op == 'drop':
            cur = [r for r in cur if r[3] not in e['keys']]
        elif op == 'relabel':
            for r in cur:
                if r[3] == e['key']:
                    r[0] = e['id']
        elif op == 'order':
            by = {r[3]: r for r in cur}
            cur = [by[k] for k in e['keys']]
        elif op == 'remove':
            cur = [r for r in cur if not r[2] > e['x_gt']]
        elif op == 'replace':
            cur = [list(r) for r in e['rows']]
        else:
            raise ValueError(op)
    return cur


def apply_edits_real(d, edits, allint):
    """the same edits on the real Database: database.data is assigned / modified directly, Database.remove for 'remove'"""
    import pandas as pd
    from biogeme.expressions import Variable

    def frame(rows):
        return pd.DataFrame({
            'ID': [int(r[0]) for r in rows] if allint else [float(r[0]) for r in rows],
            'P': [float(r[1]) for r in rows], 'X': [float(r[2]) for r in rows], 'K': [float(r[3]) for r in rows]})

    for e in edits:
        op = e['op']
        if op == 'append':
            d.data = pd.concat([d.data, frame(e['rows'])], ignore_index=bool(e.get('ignore_index', True)))
        elif op == 'drop':
            d.data = d.data[~d.data['K'].isin([float(k) for k in e['keys']])]
        elif op == 'relabel':
            d.data.loc[d.data['K'] == float(e['key']), 'ID'] = int(e['id']) if allint else float(e['id'])
        elif op == 'order':
            keys = [float(k) for k in d.data['K']]
            d.data = d.data.iloc[[keys.index(float(k)) for k in e['keys']]]
        elif op == 'remove':
            d.remove(Variable('X') > e['x_gt'])
        elif op == 'replace':
            d.data = frame(e['rows'])
        else:
            raise ValueError(op)


def n_individuals(rows):
    return len({r[0] for r in rows})


def gen_edit_case(rng, allow_stale_draws):
    """panel() on a table, one evaluation, then 1-3 times: edits of the table followed by one evaluation"""
    t = gen_table(rng, contiguous=True)
    ids0 = [r[0] for r in t['rows']]
    allint = all(float(v).is_integer() for v in ids0)
    cur = [[r[0], r[1], r[2], float(k)] for k, r in enumerate(t['rows'])]
    nxt = [len(cur)]
    formula = rng.choice(['traj', 'traj', 'mc'])

    def new_id(existing):
        while True:
            v = rng.randint(-60, 60) if allint else rng.randint(-60, 60) / 2.0
            if v not in existing:
                return v

    def new_rows(idv, k):
        out = []
        for _ in range(k):
            out.append([idv, rng.choice([0.125, 0.25, 0.5, 0.75, 0.375, 0.9]), rng.randint(-8, 8) / 4.0, float(nxt[0])])
            nxt[0] += 1
        return out

    case = {'first': [list(r) for r in cur], 'index': list(t['index']), 'allint': allint, 'formula': formula, 'b': rng.randint(-8, 8) / 16.0, 'q': rng.choice([0.0, 0.25, 0.5]),
            'K': rng.choice([1, 2]), 'R': rng.choice([1, 2, 3]), 'entry0': rng.choice(EXPR_ENTRIES + ('biogeme',)), 'steps': [], 'isolated': False}
    n_map = n_individuals(cur)  # number of individuals when the map of the database was last built
    res_tag = case.setdefault('shapes', [])
    for _ in range(rng.choice([1, 1, 2, 3])):
        edits = []
        for _ in range(rng.choice([1, 1, 2])):
            ids_now = sorted({r[0] for r in cur})
            op = rng.choice(['append_last', 'append_any', 'append_new', 'drop', 'drop_individual', 'relabel', 'order', 'remove', 'replace',
                             'move_boundary', 'move_boundary', 'resize_blocks', 'resize_blocks'])
            if op == 'move_boundary':
                # same individuals, same order, same number of rows, table still sorted: only a block BOUNDARY moves
                # (the last observation of an individual goes to the next one, or the first to the previous one)
                srt = sorted(cur, key=lambda r: r[0])
                cand = []
                for a, b2 in zip(ids_now, ids_now[1:]):
                    ra, rb = [r for r in srt if r[0] == a], [r for r in srt if r[0] == b2]
                    if len(ra) >= 2:
                        cand.append((ra[-1][3], b2))
                    if len(rb) >= 2:
                        cand.append((rb[0][3], a))
                if not cand:
                    continue
                key, idv = rng.choice(cand)
                e = {'op': 'relabel', 'key': key, 'id': idv}
                edits.append(e)
                cur = apply_edits(cur, [e])
                res_tag.append('move_boundary')
                continue
            if op == 'resize_blocks':
                # the table replaced by another sorted extract: same ids, same total number of rows, other block sizes
                n_tot, k_ind = len(cur), len(ids_now)
                old = [sum(1 for r in cur if r[0] == a) for a in ids_now]
                sizes = None
                for _ in range(20):
                    cuts = sorted(rng.sample(range(1, n_tot), k_ind - 1)) if k_ind >= 2 and n_tot > k_ind else None
                    if cuts is None:
                        break
                    sz = [b2 - a for a, b2 in zip([0] + cuts, cuts + [n_tot])]
                    if sz != old:
                        sizes = sz
                        break
                if sizes is None:
                    continue
                rows = []
                for a, k in zip(ids_now, sizes):
                    rows += new_rows(a, k)
                e = {'op': 'replace', 'rows': rows}
                edits.append(e)
                cur = apply_edits(cur, [e])
                res_tag.append('resize_blocks')
                continue
            if op == 'append_last':      # new wave for the last individual: the table stays sorted
                e = {'op': 'append', 'rows': new_rows(cur[-1][0], rng.choice([1, 2]))}
            elif op == 'append_any':     # new rows for any individual: its rows are no longer consecutive in the table
                e = {'op': 'append', 'rows': new_rows(rng.choice(ids_now), rng.choice([1, 2, 3])), 'ignore_index': rng.random() < 0.7}
            elif op == 'append_new':
                e = {'op': 'append', 'rows': new_rows(new_id(ids_now), rng.choice([1, 2]))}
            elif op == 'drop':
                if len(cur) < 2:
                    continue
                e = {'op': 'drop', 'keys': sorted(rng.sample([r[3] for r in cur], rng.randint(1, max(1, len(cur) // 3))))}
            elif op == 'drop_individual':
                if len(ids_now) < 2:
                    continue
                a = rng.choice(ids_now)
                e = {'op': 'drop', 'keys': sorted(r[3] for r in cur if r[0] == a)}
            elif op == 'relabel':        # one row changes hands (to another individual or to a new one)
                e = {'op': 'relabel', 'key': rng.choice(cur)[3], 'id': rng.choice(ids_now + [new_id(ids_now)])}
            elif op == 'order':
                keys = [r[3] for r in cur]
                rng.shuffle(keys)
                e = {'op': 'order', 'keys': keys}
            elif op == 'remove':
                c = rng.randint(-6, 6) / 4.0 + 0.125
                if all(r[2] > c for r in cur):
                    continue
                e = {'op': 'remove', 'x_gt': c}
            else:
                rows, fresh = [], []
                for _ in range(rng.choice([1, 2, 3])):
                    fresh.append(new_id(fresh))
                    rows += new_rows(fresh[-1], rng.choice([1, 2, 3]))
                e = {'op': 'replace', 'rows': rows}
            edits.append(e)
            cur = apply_edits(cur, [e])
            if e['op'] == 'remove':
                n_map = n_individuals(cur)  # Database.remove rebuilds the map itself (and sorts the table)
                cur.sort(key=lambda r: r[0])
        entry = rng.choice(EXPR_ENTRIES + EXPR_ENTRIES + ('biogeme',))
        ids_now = [r[0] for r in cur]
        if entry in EXPR_ENTRIES and any(x > y for x, y in zip(ids_now, ids_now[1:])) and rng.random() < 0.6:
            entry = 'biogeme'  # (expression entry points on a table that is not sorted: listed finding F-C09-4; kept in the stream, less often)
        if formula == 'mc' and entry in EXPR_ENTRIES and n_map != n_individuals(cur):
            # known finding F-C09-3: the draws are generated (Expression.prepare) before the map is rebuilt
            if allow_stale_draws:
                case['isolated'] = True
            else:
                entry = 'biogeme'
        case['steps'].append({'edits': edits, 'entry': entry})
        n_map = n_individuals(cur)
        cur.sort(key=lambda r: r[0])  # every evaluation leaves the table sorted by individual (stable)
        if case['isolated']:
            break  # the engine may raise here: nothing is evaluated after it
    return case


def edit_formula(case):
    from biogeme.expressions import PanelLikelihoodTrajectory, MonteCarlo

    if case['formula'] == 'traj':
        return PanelLikelihoodTrajectory(integrand_expr(case, False))
    return MonteCarlo(PanelLikelihoodTrajectory(integrand_expr(case, True)))


def run_edit_case(case):
    """drives the real code; one record per evaluation (record 0: before any edit)"""
    return list(iter_edit_case(case))


def iter_edit_case(case):
    """generator: the next evaluation is driven only when the caller asks for it (a case is abandoned at its first failure)"""
    import pandas as pd
    import biogeme.biogeme as bio
    import biogeme.database as db
    from biogeme.expressions import log

    calls = []
    with core.scratch(TOML):
        first = case['first']
        allint = case['allint']
        df = pd.DataFrame({
            'ID': [int(r[0]) for r in first] if allint else [float(r[0]) for r in first],
            'P': [float(r[1]) for r in first], 'X': [float(r[2]) for r in first], 'K': [float(r[3]) for r in first]}, index=list(case['index']))
        d = db.Database('t', df)
        if case['formula'] == 'mc':
            d.set_random_number_generators(make_generators(calls))
        d.panel('ID')
        f = edit_formula(case)
        betas = {'b': case['b']}
        R = case['R']
        for k, step in enumerate([{'edits': [], 'entry': case['entry0']}] + case['steps']):
            rec = {'entry': step['entry']}
            del calls[:]
            try:
                apply_edits_real(d, step['edits'], allint)
                entry = step['entry']
                rec['ids_before'] = [float(v) for v in d.data['ID']]  # the table as the evaluation finds it
                if entry == 'expr':
                    rec['values'] = [float(v) for v in f.get_value_c(database=d, betas=betas, number_of_draws=R, prepare_ids=True)]
                elif entry == 'expr_sum':
                    rec['sum'] = float(f.get_value_c(database=d, betas=betas, number_of_draws=R, aggregation=True, prepare_ids=True))
                elif entry == 'expr_deriv':
                    r = f.get_value_and_derivatives(betas=betas, database=d, number_of_draws=R, gradient=True, hessian=False, bhhh=False, aggregation=False, prepare_ids=True)
                    rec['values'] = [float(v) for v in r.functions]
                    rec['gradients'] = [[float(x) for x in np.asarray(g).ravel()] for g in r.gradients]
                else:
                    B = bio.BIOGEME(d, log(edit_formula(case)), number_of_draws=R, number_of_threads=1 + k % 3)
                    rec['L'] = float(B.calculate_likelihood([case['b']], scaled=False))
                    rec['Ls'] = float(B.calculate_likelihood([case['b']], scaled=True))
                    rec['N'] = int(d.get_sample_size())
                    rec['Dsf'] = float(B.calculate_likelihood_and_derivatives([case['b']], scaled=True).function)
                    sim = B.simulate(betas)
                    rec['sim_ids'] = [float(i) for i in sim.index]
                    rec['values'] = [float(v) for v in sim['log_like'].values]
            except Exception as e:  # noqa: BLE001
                rec['error'] = f'{type(e).__name__}: {str(e)[:200]}'
                rec['error_kind'] = core.exc_kind(e)
                yield rec
                return
            m = d.individualMap
            rec['map'] = [[float(i), int(m.loc[i].iloc[0]), int(m.loc[i].iloc[1])] for i in m.index]
            rec['sorted_rows'] = [[float(a), float(p), float(x)] for a, p, x in zip(d.data['ID'], d.data['P'], d.data['X'])]
            rec['keys'] = [float(v) for v in d.data['K']]
            rec['data_index'] = [int(i) for i in d.data.index]
            rec['sample_size'] = int(d.get_sample_size())
            rec['n_obs'] = int(d.get_number_of_observations())
            rec['gen_calls'] = [list(c) for c in calls]
            if case['formula'] == 'mc':
                rec['draws_shape'] = list(np.asarray(d.theDraws).shape)
            yield rec


def edit_child(payload):
    """(fresh interpreter) used for the cases on which the engine may raise: every record is written to the progress
    file as soon as it exists; after an engine exception the process leaves at once (its heap may be corrupted)"""
    import json
    import os
    import warnings
    import logging

    warnings.simplefilter('ignore')
    logging.disable(logging.WARNING)
    with open(payload['progress'], 'a') as f:
        for rec in iter_edit_case(payload['case']):
            f.write(json.dumps(rec) + '\n')
            f.flush()
            os.fsync(f.fileno())
            if 'error' in rec and str(rec.get('error_kind', '')).startswith('Other'):
                os._exit(0)
    return 'done'


def run_edit_case_isolated(case):
    import json
    import os
    import tempfile

    fd, path = tempfile.mkstemp(prefix='vbg_c09_edit_', suffix='.jsonl')
    os.close(fd)
    try:
        out = core.run_isolated('props.c09', 'edit_child', {'case': case, 'progress': path}, timeout=300)
        recs = [json.loads(l) for l in open(path).read().splitlines() if l.strip()]
        return recs, out
    finally:
        try:
            os.unlink(path)
        except OSError:
            pass


def expected_edit_values(case, cur, b=None):
    """per individual (ascending id): the product over exactly the rows that carry its id in the current table
    (Monte-Carlo: mean over r of that product, the draws being those of (position of the individual, r))"""
    b = case['b'] if b is None else b
    ids = sorted({float(r[0]) for r in cur})
    vals = []
    for ind, a in enumerate(ids):
        mine = [r for r in cur if float(r[0]) == a]
        if case['formula'] == 'traj':
            vals.append(math.prod(r[1] * math.exp(b * r[2]) for r in mine))
        else:
            acc = []
            for r_ in range(case['R']):
                x0, x1 = draw_value(ind, r_, 0), draw_value(ind, r_, 1)
                acc.append(math.prod(r[1] * math.exp(b * r[2] * x0) * ((1 + case['q'] * x1) if case['K'] >= 2 else 1.0) for r in mine))
            vals.append(math.fsum(acc) / case['R'])
    return ids, vals


def check_edit_step(res, case, cur, k, rec, desc, where):
    """oracle of one evaluation: values and map are those of the table as it is now"""
    ids, vals = expected_edit_values(case, cur)
    # the map left behind describes the current table
    real = {'sorted_rows': rec['sorted_rows'], 'data_index': rec['data_index'], 'map': rec['map'], 'sample_size': rec['sample_size'], 'n_obs': rec['n_obs']}
    n_before = len(res.violations)
    oracle_map({'rows': [r[:3] for r in cur]}, real, res, desc, flat=False, where=where)
    if sorted(rec['keys']) != sorted(float(r[3]) for r in cur):
        res.violate('after the evaluation the table of the database holds exactly the rows it was given', desc, sorted(rec['keys']), sorted(float(r[3]) for r in cur), where=where)
    if [m[0] for m in rec['map']] != ids:
        res.violate('the map lists the individuals of the current table (ascending id)', desc, [m[0] for m in rec['map']], ids, where=where)
    if len(res.violations) > n_before:
        return
    outer = math.log if rec['entry'] == 'biogeme' else (lambda v: v)
    want = [outer(v) for v in vals]
    if 'values' in rec:
        if len(rec['values']) != len(want) or not all(core.close(a, b, rel=1e-11, abs_=1e-13) for a, b in zip(rec['values'], want)):
            res.violate(
                f'evaluation {k} ({rec["entry"]}): one value per individual of the current table = product over exactly the rows that carry its id'
                + (' (mean over the draws of the individual)' if case['formula'] == 'mc' else ''), desc, rec['values'], {'ids': ids, 'values': want}, where=where)
            return
    if 'sum' in rec and not core.close(rec['sum'], math.fsum(vals), rel=1e-11, abs_=1e-13):
        res.violate(f'evaluation {k} (aggregated): sum over the individuals of the current table', desc, rec['sum'], math.fsum(vals), where=where)
        return
    if 'sim_ids' in rec and rec['sim_ids'] != ids:
        res.violate(f'evaluation {k}: simulate reports one line per individual of the current table', desc, rec['sim_ids'], ids, where=where)
    if 'L' in rec:
        if not core.close(rec['L'], math.fsum(want), rel=1e-11, abs_=1e-11):
            res.violate(f'evaluation {k}: log likelihood = sum over the individuals of the current table', desc, rec['L'], math.fsum(want), where=where)
        elif not core.close(rec['Ls'], rec['L'] / len(ids), rel=1e-15):
            res.violate(f'evaluation {k}: scaled log likelihood = log likelihood / number of individuals of the current table', desc, rec['Ls'], rec['L'] / len(ids), where=where)
        elif 'Dsf' in rec and not core.close(rec['Dsf'], rec['L'] / len(ids), rel=1e-14):
            res.violate(f'evaluation {k}: calculate_likelihood_and_derivatives(scaled=True) = log likelihood / number of individuals of the current table', desc, rec['Dsf'], rec['L'] / len(ids), where=where)
    if 'gradients' in rec and case['formula'] == 'traj':
        # d/db prod_t P exp(b X) = value * sum of X over the rows of the individual
        gw = [v * math.fsum(r[2] for r in cur if float(r[0]) == a) for a, v in zip(ids, vals)]
        got = [g[0] if len(g) == 1 else None for g in rec['gradients']]
        if len(got) != len(gw) or not all(g is not None and core.close(g, w, rel=1e-9, abs_=1e-11) for g, w in zip(got, gw)):
            res.violate(f'evaluation {k}: derivative of the value of each individual (product over its rows)', desc, rec['gradients'], gw, where=where)
    if case['formula'] == 'mc':
        bad = [c for c in rec['gen_calls'] if c[1] != len(ids) or c[2] != case['R']]
        if bad or not rec['gen_calls'] or rec.get('draws_shape') != [len(ids), case['R'], case['K']]:
            res.violate(
                f'evaluation {k}: the draw table is dimensioned by the individuals of the current table (individuals, draws, variables)', desc,
                {'generator_calls': rec['gen_calls'], 'shape': rec.get('draws_shape')}, [len(ids), case['R'], case['K']], where=where)


def check_edit_case(ctx, res, case):
    desc0 = dict(case)
    where = WHERE_EDIT
    iso_f.note(desc0, where)
    died = None
    if case.get('isolated'):
        recs, out = run_edit_case_isolated(case)
        n_steps = 1 + len(case['steps'])
        if len(recs) < n_steps and not (recs and 'error' in recs[-1]):
            # the process died inside evaluation number len(recs)
            died = {'entry': ([case['entry0']] + [st['entry'] for st in case['steps']])[len(recs)], 'error': 'the process dies: ' + str(out.get('__error__') if isinstance(out, dict) else out)[:100],
                    'error_kind': 'Other:died'}
            recs = recs + [died]
    else:
        recs = iter_edit_case(case)
    res.count({'edit': desc0}, nontrivial=True)
    res.tally('edit-sequence' + (':isolated' if case.get('isolated') else ''))
    for sh in case.get('shapes', []):
        res.tally(f'edit-shape:{sh} (ids, order, length kept; block boundaries moved)')
    cur = [list(r) for r in case['first']]
    steps = [{'edits': [], 'entry': case['entry0']}] + case['steps']
    tables = []
    flags = []  # per evaluation: (where, description of the case with the evaluation number)
    seen = []
    it = iter(recs)
    for k, step in enumerate(steps):
        try:
            rec = next(it)
        except StopIteration:
            break
        except Exception as e:  # noqa: BLE001
            res.violate(f'panel() on a valid panel table raises {type(e).__name__}: {str(e)[:150]}', desc0, core.exc_kind(e), 'values', where=WHERE_EDIT)
            break
        seen.append(rec)
        cur = apply_edits(cur, step['edits'])
        tables.append([list(r) for r in cur])
        desc = dict(desc0, evaluation=k)
        where = WHERE_EDIT
        ib = rec.get('ids_before')
        if case.get('isolated') and k == len(steps) - 1:
            # only this evaluation is the listed finding F-C09-3; everything before it is checked as usual
            desc['stale_draws'] = True
            where = WHERE_STALE_DRAWS
        elif rec['entry'] in EXPR_ENTRIES and ib is not None and any(x > y for x, y in zip(ib, ib[1:])):
            # listed finding F-C09-4: the engine receives the table as it was before build_panel_map sorted it
            desc['unsorted_table'] = True
            where = WHERE_UNSORTED
        flags.append((where, desc))
        res.tally(f'edit:{rec["entry"]}' + (':unsorted-table' if desc.get('unsorted_table') else ''))
        for e in step['edits']:
            res.tally(f'edit-op:{e["op"]}')
        if 'error' in rec:
            if rec['error_kind'].startswith('Other') and not case.get('isolated'):
                _POISON['hit'] = True
            if 'L' in rec:
                # the likelihood was returned before a later call raised: judge it first (the reason, not the crash)
                ids_, vals_ = expected_edit_values(case, cur)
                wantL = math.fsum(math.log(v) for v in vals_)
                if not core.close(rec['L'], wantL, rel=1e-11, abs_=1e-11) or rec.get('N') != len(ids_):
                    res.violate(
                        f'evaluation {k} (new BIOGEME object on the changed table): log likelihood = sum over the individuals of the CURRENT table of the log of the '
                        'product over exactly their rows; sample size = their number', desc, {'L': rec['L'], 'sample_size': rec.get('N')},
                        {'L': wantL, 'sample_size': len(ids_)}, where=where)
                    break
            res.violate(
                f'evaluation {k} ({rec["entry"]}) after the table was changed raises {rec["error"]}', desc, rec['error_kind'],
                'one value per individual of the current table', where=where)
            break
        n0 = len(res.violations)
        check_edit_step(res, case, cur, k, rec, desc, where)
        if len(res.violations) > n0 and where == WHERE_EDIT:
            break  # the case is abandoned at its first failure (a wrong map may take the engine outside the table next)
    if hasattr(it, 'close'):
        it.close()
    recs = seen
    # model: the same history through Panel.DbState.history (trajectory formulas), Panel.panelValuesMC (Monte-Carlo)
    n_ok = min(len(recs), len(tables)) - (1 if recs and 'error' in recs[-1] else 0)
    if n_ok <= 0:
        return
    allids = sorted({float(r[0]) for t in tables for r in t})
    rk = {a: i - len(allids) // 2 for i, a in enumerate(allids)}
    inv = {v: k for k, v in rk.items()}
    b = case['b']
    if case['formula'] == 'traj':
        def tj(t):
            return {'ids': [rk[float(r[0])] for r in t], 'p': [f2b(r[1] * math.exp(b * r[2])) for r in t]}

        reqs = [{'op': 'history', 'outer': 'id', 'first': tj(tables[0]), 'tables': [tj(t) for t in tables[:n_ok]]}]
    else:
        reqs = []
        for t in tables[:n_ok]:
            st = sorted(t, key=lambda r: float(r[0]))
            n_ind = n_individuals(st)
            reqs.append({
                'op': 'mc', 'ids': [rk[float(r[0])] for r in st], 'p': [f2b(r[1]) for r in st], 'x': [f2b(r[2]) for r in st], 'b': f2b(b), 'q': f2b(case['q']),
                'K': case['K'], 'R': case['R'], 'outer': 'id',
                'draws': [[[f2b(draw_value(i, r, kk)) for kk in range(case['K'])] for r in range(case['R'])] for i in range(n_ind)]})

    def cb(ans):
        steps_m = ans[0].get('steps') if case['formula'] == 'traj' else [{'values': a.get('values')} for a in ans]
        if not isinstance(steps_m, list) or len(steps_m) != n_ok:
            res.diverge('history of evaluations vs Panel.DbState.history', desc0, ans[0], 'one answer per evaluation', where=WHERE_EDIT)
            return
        for k, (sm, rec) in enumerate(zip(steps_m, recs)):
            mv = [b2f(v) for v in sm.get('values') or []]
            where, desc = flags[k]
            if 'values' in rec:
                rv = [math.exp(v) for v in rec['values']] if rec['entry'] == 'biogeme' else rec['values']
                if len(mv) != len(rv) or not all(core.close(x, y, rel=1e-11, abs_=1e-13) for x, y in zip(mv, rv)):
                    res.diverge(f'evaluation {k} ({rec["entry"]}) vs Panel.{"DbState.history" if case["formula"] == "traj" else "panelValuesMC"}', desc, mv, rv, where=where)
                    return
            elif 'sum' in rec and not core.close(math.fsum(mv), rec['sum'], rel=1e-11, abs_=1e-13):
                res.diverge(f'evaluation {k} (aggregated) vs the sum of Panel.DbState.history', desc, math.fsum(mv), rec['sum'], where=where)
                return
            if 'map' in sm:
                mm = [[float(inv[e[0]]), e[1], e[2]] for e in sm['map']]
                if mm != rec['map']:
                    res.diverge(f'individualMap after evaluation {k} vs the map of Panel.DbState.history', desc, mm, rec['map'], where=where)
                    return

    ctx.batch.add_many(reqs, cb)


# ----------------------------------------------------------------------------- one object, table changed after it was created

WHERE_SAME_OBJ = 'evaluation on an existing BIOGEME object after the table of its panel database was changed (the engine keeps the table of __init__)'
MATCHERS['same_object_edit'] = lambda case: isinstance(case, dict) and case.get('same_object') is True
SAME_ENTRIES = ('likelihood', 'deriv', 'simulate')


def gen_same_obj_case(rng):
    t = gen_table(rng, contiguous=True)
    ids0 = [r[0] for r in t['rows']]
    allint = all(float(v).is_integer() for v in ids0)
    cur = [[r[0], r[1], r[2], float(k)] for k, r in enumerate(t['rows'])]
    nxt = len(cur)
    case = {'first': [list(r) for r in cur], 'index': list(t['index']), 'allint': allint, 'formula': 'traj', 'b': rng.randint(-8, 8) / 16.0, 'q': 0.0, 'K': 1, 'R': 1,
            'steps': [], 'same_object': True}
    for _ in range(rng.choice([1, 2, 3])):
        op = rng.choice(['none', 'order', 'order', 'append_last', 'append_new', 'drop_individual', 'relabel', 'drop'])
        ids_now = sorted({r[0] for r in cur})
        edits = []
        if op == 'order':            # the same rows in another order: the sorted table is the one the engine holds
            by = {}
            for r in cur:
                by.setdefault(r[0], []).append(r[3])
            order = list(by)
            rng.shuffle(order)
            edits = [{'op': 'order', 'keys': [k for a in order for k in by[a]]}]
        elif op in ('append_last', 'append_new'):
            idv = cur[-1][0] if op == 'append_last' else max(ids_now) + rng.choice([1, 5])
            rows = [[idv, rng.choice([0.125, 0.25, 0.5, 0.75]), rng.randint(-8, 8) / 4.0, float(nxt + i)] for i in range(rng.choice([1, 2]))]
            nxt += len(rows)
            edits = [{'op': 'append', 'rows': rows}]
        elif op == 'drop_individual' and len(ids_now) >= 2:
            a = rng.choice(ids_now)
            edits = [{'op': 'drop', 'keys': sorted(r[3] for r in cur if r[0] == a)}]
        elif op == 'drop' and len(cur) >= 2:
            edits = [{'op': 'drop', 'keys': [rng.choice(cur)[3]]}]
        elif op == 'relabel' and len(ids_now) >= 2:
            edits = [{'op': 'relabel', 'key': rng.choice(cur)[3], 'id': rng.choice(ids_now)}]
        cur = apply_edits(cur, edits)
        case['steps'].append({'edits': edits, 'entry': rng.choice(SAME_ENTRIES)})
    return case


def same_child(payload):
    """(fresh interpreter) one BIOGEME object; after each group of edits of database.data one public call on that object"""
    import json
    import os
    import warnings
    import logging
    import pandas as pd
    import biogeme.biogeme as bio
    import biogeme.database as db
    from biogeme.expressions import log

    warnings.simplefilter('ignore')
    logging.disable(logging.WARNING)
    case = payload['case']
    with open(payload['progress'], 'a') as f, core.scratch(TOML):
        first, allint = case['first'], case['allint']
        df = pd.DataFrame({
            'ID': [int(r[0]) for r in first] if allint else [float(r[0]) for r in first],
            'P': [float(r[1]) for r in first], 'X': [float(r[2]) for r in first], 'K': [float(r[3]) for r in first]}, index=list(case['index']))
        d = db.Database('t', df)
        d.panel('ID')
        B = bio.BIOGEME(d, {'log_like': log(edit_formula(case))})
        x = [case['b']]
        for step in [{'edits': [], 'entry': 'likelihood'}] + case['steps']:
            rec = {'entry': step['entry']}
            try:
                apply_edits_real(d, step['edits'], allint)
                if step['entry'] == 'likelihood':
                    rec['L'] = float(B.calculate_likelihood(x, scaled=False))
                    rec['Ls'] = float(B.calculate_likelihood(x, scaled=True))
                elif step['entry'] == 'deriv':
                    r = B.calculate_likelihood_and_derivatives(x, scaled=True, hessian=False, bhhh=False)
                    rec['Ls'] = float(r.function)
                    rec['gs'] = [float(v) for v in np.asarray(r.gradient).ravel()]
                else:
                    sim = B.simulate({'b': case['b']})
                    rec['sim_ids'] = [float(i) for i in sim.index]
                    rec['values'] = [None if math.isnan(float(v)) else float(v) for v in sim['log_like'].values]
                rec['N'] = int(d.get_sample_size())
            except Exception as e:  # noqa: BLE001
                rec['error'] = f'{type(e).__name__}: {str(e)[:200]}'
                rec['error_kind'] = core.exc_kind(e)
            f.write(json.dumps(rec) + '\n')
            f.flush()
            os.fsync(f.fileno())
            if 'error' in rec and str(rec.get('error_kind', '')).startswith('Other'):
                os._exit(0)
    return 'done'


def check_same_obj(ctx, res, case):
    import json
    import os
    import tempfile

    desc0 = dict(case)
    iso_f.note(desc0, WHERE_SAME_OBJ)
    fd, path = tempfile.mkstemp(prefix='vbg_c09_same_', suffix='.jsonl')
    os.close(fd)
    try:
        out = core.run_isolated('props.c09', 'same_child', {'case': case, 'progress': path}, timeout=300)
        recs = [json.loads(l) for l in open(path).read().splitlines() if l.strip()]
    finally:
        try:
            os.unlink(path)
        except OSError:
            pass
    steps = [{'edits': [], 'entry': 'likelihood'}] + case['steps']
    if len(recs) < len(steps) and not (recs and str(recs[-1].get('error_kind', '')).startswith('Other')):
        recs.append({'entry': steps[len(recs)]['entry'], 'error': 'the process dies: ' + str(out.get('__error__') if isinstance(out, dict) else out)[:100], 'error_kind': 'Other:died'})
    res.count({'same-object': desc0}, nontrivial=True)
    res.tally('same-object-sequence')
    cur = [list(r) for r in case['first']]
    first_sorted = sorted(([float(r[0]), r[1], r[2]] for r in cur), key=lambda r: r[0])
    tables, seen = [], []
    for k, (step, rec) in enumerate(zip(steps, recs)):
        cur = apply_edits(cur, step['edits'])
        tables.append([list(r) for r in cur])
        seen.append(rec)
        desc = dict(desc0, evaluation=k)
        changed = sorted(([float(r[0]), r[1], r[2]] for r in cur), key=lambda r: r[0]) != first_sorted
        res.tally(f'same-object:{rec["entry"]}:' + ('table changed' if changed else 'same rows'))
        if rec.get('error_kind') == 'BiogemeError' and changed:
            continue  # a refusal with the library error is an acceptable answer for a table the engine does not hold
        if 'error' in rec:
            res.violate(
                f'evaluation {k} ({rec["entry"]}) on the existing object raises {rec["error"]}', desc, rec['error_kind'],
                'the values of the current table' + (' (or a BiogemeError refusing the changed table)' if changed else ''), where=WHERE_SAME_OBJ)
            break
        ids, vals = expected_edit_values(case, cur)
        want = [math.log(v) for v in vals]
        L = math.fsum(want)
        bad = None
        if rec.get('N') != len(ids):
            bad = ('sample size = number of individuals of the current table', rec.get('N'), len(ids))
        elif 'L' in rec and not core.close(rec['L'], L, rel=1e-11, abs_=1e-11):
            bad = ('log likelihood = sum over the individuals of the current table of the log of the product over their rows', rec['L'], L)
        elif 'Ls' in rec and not core.close(rec['Ls'], L / len(ids), rel=1e-11, abs_=1e-11):
            bad = ('scaled log likelihood = log likelihood of the current table / number of its individuals', rec['Ls'], L / len(ids))
        elif 'values' in rec and (rec['sim_ids'] != ids or any(v is None for v in rec['values']) or not all(core.close(a, b, rel=1e-11, abs_=1e-12) for a, b in zip(rec['values'], want))):
            bad = ('simulate: one line per individual of the current table, value = log of the product over its rows', {'ids': rec['sim_ids'], 'values': rec['values']}, {'ids': ids, 'values': want})
        if bad:
            res.violate(f'evaluation {k} ({rec["entry"]}) on the existing object: {bad[0]} (or the call is refused with the library error)', desc, bad[1], bad[2], where=WHERE_SAME_OBJ)
            break
    if not tables:
        return
    allids = sorted({float(r[0]) for t in tables for r in t})
    rk = {a: i - len(allids) // 2 for i, a in enumerate(allids)}
    b = case['b']

    def tj(t):
        return {'ids': [rk[float(r[0])] for r in t], 'p': [f2b(r[1] * math.exp(b * r[2])) for r in t]}

    n = len(seen)

    def cb(ans):
        sm = ans[0].get('steps') or []
        for k, (m, rec) in enumerate(zip(sm, seen)):
            desc = dict(desc0, evaluation=k)
            real_refused = rec.get('error_kind') == 'BiogemeError'
            if bool(m.get('refused')) != real_refused:
                res.diverge(f'evaluation {k} on the existing object: refused / evaluated vs Panel.Obj.history', desc, 'refused' if m.get('refused') else 'evaluated',
                            rec.get('error', 'evaluated'), where=WHERE_SAME_OBJ)
                return
            if not m.get('refused') and 'values' in rec:
                mv = [math.log(b2f(v)) for v in m.get('values', [])]
                if len(mv) != len(rec['values']) or not all(y is not None and core.close(x, y, rel=1e-11, abs_=1e-12) for x, y in zip(mv, rec['values'])):
                    res.diverge(f'evaluation {k} (simulate) on the existing object vs Panel.Obj.history', desc, mv, rec['values'], where=WHERE_SAME_OBJ)
                    return

    ctx.batch.add_many([{'op': 'object', 'outer': 'id', 'first': tj(tables[0]), 'tables': [tj(t) for t in tables[:n]]}], cb)


def _same_corpus():
    base = [[7, 0.5, 1.0, 0.0], [7, 0.25, 2.0, 1.0], [7, 0.5, -1.0, 2.0], [3, 0.75, 0.5, 3.0], [12, 0.5, 1.5, 4.0], [12, 0.125, -0.5, 5.0]]
    common = {'first': base, 'index': [0, 1, 2, 3, 4, 5], 'allint': True, 'formula': 'traj', 'b': 0.5, 'q': 0.0, 'K': 1, 'R': 1, 'same_object': True}
    return [
        # the same rows in another order (nothing changed for the engine), three entry points
        dict(common, steps=[{'edits': [{'op': 'order', 'keys': [4.0, 5.0, 3.0, 0.0, 1.0, 2.0]}], 'entry': 'likelihood'}, {'edits': [], 'entry': 'simulate'}, {'edits': [], 'entry': 'deriv'}]),
        # F-C09-5: a new wave for the last individual and a new individual, then likelihood and simulate on the existing object
        dict(common, steps=[{'edits': [{'op': 'append', 'rows': [[12, 0.5, 1.0, 6.0], [20, 0.5, 1.0, 7.0]]}], 'entry': 'likelihood'}, {'edits': [], 'entry': 'simulate'}, {'edits': [], 'entry': 'likelihood'}]),
    ]


CORPUS_SAME = _same_corpus()


# ----------------------------------------------------------------------------- placement rule


def gen_tree(rng, depth):
    if depth == 0 or rng.random() < 0.25:
        return rng.choice([{'k': 'var', 'n': 'P'}, {'k': 'var', 'n': 'X'}, {'k': 'beta', 'n': 'b'}, {'k': 'num', 'v': rng.randint(1, 3)}])
    k = rng.choice(['un', 'bin', 'bin', 'traj', 'traj'])
    if k == 'un':
        return {'k': 'un', 'op': rng.choice(['exp', 'neg']), 'e': gen_tree(rng, depth - 1)}
    if k == 'bin':
        return {'k': 'bin', 'op': rng.choice(['+', '*']), 'l': gen_tree(rng, depth - 1), 'r': gen_tree(rng, depth - 1)}
    return {'k': 'traj', 'e': gen_tree(rng, depth - 1)}


def gen_ptree(rng, depth, clean, in_mc=False, in_traj=False):
    """formulas with Monte-Carlo integrals and draws.  clean=True: no variable outside a trajectory operator and no
    draw outside an integral, so that the place of the integral relative to the trajectory is what decides"""
    if depth == 0 or rng.random() < 0.2:
        leaves = [{'k': 'beta', 'n': 'b'}, {'k': 'num', 'v': rng.randint(1, 3)}]
        if in_traj or not clean:
            leaves += [{'k': 'var', 'n': 'P'}, {'k': 'var', 'n': 'X'}] * 2
        if in_mc or (not clean and rng.random() < 0.2):
            leaves += [{'k': 'draws', 'n': rng.choice(['xi0', 'xi1'])}] * 3
        return rng.choice(leaves)
    kinds = ['un', 'bin', 'bin', 'bin']
    if not in_traj or rng.random() < 0.1:
        kinds += ['traj', 'traj']
    if not in_mc or rng.random() < 0.1:
        kinds += ['mc', 'mc']
    k = rng.choice(kinds)
    if k == 'un':
        return {'k': 'un', 'op': rng.choice(['exp', 'neg']), 'e': gen_ptree(rng, depth - 1, clean, in_mc, in_traj)}
    if k == 'bin':
        return {'k': 'bin', 'op': rng.choice(['+', '*']), 'l': gen_ptree(rng, depth - 1, clean, in_mc, in_traj), 'r': gen_ptree(rng, depth - 1, clean, in_mc, in_traj)}
    if k == 'traj':
        return {'k': 'traj', 'e': gen_ptree(rng, depth - 1, clean, in_mc, True)}
    e = gen_ptree(rng, depth - 1, clean, True, in_traj)
    if clean and not contains(e, 'draws'):
        e = {'k': 'bin', 'op': '*', 'l': e, 'r': {'k': 'un', 'op': 'exp', 'e': {'k': 'draws', 'n': 'xi0'}}}
    return {'k': 'mc', 'e': e}


def build_tree(t):
    from biogeme.expressions import Beta, Variable, Numeric, exp, PanelLikelihoodTrajectory, MonteCarlo, bioDraws

    if t['k'] == 'mc':
        return MonteCarlo(build_tree(t['e']))
    if t['k'] == 'draws':
        return bioDraws(t['n'], 'UNIFORM')

    k = t['k']
    if k == 'var':
        return Variable(t['n'])
    if k == 'beta':
        return Beta(t['n'], 0.0, None, None, 0)
    if k == 'num':
        return Numeric(t['v'])
    if k == 'un':
        e = build_tree(t['e'])
        return exp(e) if t['op'] == 'exp' else -e
    if k == 'bin':
        l, r = build_tree(t['l']), build_tree(t['r'])
        return l + r if t['op'] == '+' else l * r
    if k == 'traj':
        return PanelLikelihoodTrajectory(build_tree(t['e']))
    raise ValueError(k)


def outside_vars(t, inside=False):
    """oracle: variables that are not below a trajectory operator"""
    k = t['k']
    if k == 'var':
        return [] if inside else [t['n']]
    if k in ('beta', 'num', 'draws'):
        return []
    if k in ('un', 'mc'):
        return outside_vars(t['e'], inside)
    if k == 'bin':
        return outside_vars(t['l'], inside) + outside_vars(t['r'], inside)
    if k == 'traj':
        return []
    raise ValueError(k)


AUDIT_TABLE = {'rows': [[3, 0.5, 1.0], [3, 0.25, 0.5], [-1, 0.75, 0.0]], 'index': [0, 1, 2]}


def construct(tree, as_dict):
    """BIOGEME(database, formula) on a panel table + what the formula's own audit functions report"""
    import biogeme.biogeme as bio
    import biogeme.database as db
    from biogeme.exceptions import BiogemeError

    with core.scratch(TOML):
        d = db.Database('t', make_df(AUDIT_TABLE))
        d.panel('ID')
        e = build_tree(tree)
        info = {'outside': sorted(e.check_panel_trajectory()), 'draws_outside': sorted(e.check_draws())}
        try:
            info['audit_errors'] = len(e.audit(d)[0])
        except Exception as ex:  # noqa: BLE001
            info['audit_errors'] = core.exc_kind(ex)
        try:
            bio.BIOGEME(d, {'log_like': e} if as_dict else e, number_of_draws=2)
            return 'accepted', info
        except BiogemeError:
            return 'BiogemeError', info
        except Exception as ex:  # noqa: BLE001
            return core.exc_kind(ex), info


def mc_without_traj(t):
    """oracle: Monte-Carlo integrals that do not enclose a trajectory operator (row-wise integrals when they are
    below one, integrals of something that is not the individual's product otherwise)"""
    k = t['k']
    if k in ('var', 'beta', 'num', 'draws'):
        return []
    if k == 'un':
        return mc_without_traj(t['e'])
    if k == 'bin':
        return mc_without_traj(t['l']) + mc_without_traj(t['r'])
    if k == 'traj':
        return mc_without_traj(t['e'])
    if k == 'mc':
        return ([] if contains(t['e'], 'traj') else [t]) + mc_without_traj(t['e'])
    raise ValueError(k)


def contains(t, kind):
    if t['k'] == kind:
        return True
    return any(contains(t[c], kind) for c in ('e', 'l', 'r') if c in t)


WHERE_MC_RULE = 'BIOGEME.__init__ on panel data: MonteCarlo that does not enclose the PanelLikelihoodTrajectory'
WHERE_EVAL_RULE = 'Expression.get_value_c on a panel database: placement rules of PanelLikelihoodTrajectory / MonteCarlo'


def check_audit(ctx, res, tree, dict_path=False):
    desc = {'tree': tree, 'dict_path': dict_path}
    iso_f.note(desc, 'BIOGEME.__init__ on panel data')
    verdict, info = construct(tree, dict_path)
    reported = info['outside']
    exp_out = sorted(set(outside_vars(tree)))
    bad_mc = mc_without_traj(tree)
    res.count({'audit': desc}, nontrivial=bool(exp_out) or bool(bad_mc))
    res.tally('audit:' + ('dict' if dict_path else 'single') + (':outside' if exp_out else ':clean') + (':mc-without-trajectory' if bad_mc else (':mc' if contains(tree, 'mc') else '')))
    if reported != exp_out:
        res.violate('check_panel_trajectory reports the variables outside every trajectory operator', desc, reported, exp_out, where='Expression.check_panel_trajectory')
    if exp_out and verdict != 'BiogemeError':
        res.violate(
            'on panel data a formula with a variable outside PanelLikelihoodTrajectory is refused with the library error', desc, verdict, 'BiogemeError',
            where=WHERE_DICT if dict_path else 'BIOGEME.__init__ on panel data: variables outside PanelLikelihoodTrajectory')
    # (a formula without any variable and without trajectory has no rows to share a draw between: correspondence only)
    uses_rows = contains(tree, 'traj') or contains(tree, 'var')
    if bad_mc and uses_rows and verdict != 'BiogemeError' and not (dict_path and exp_out):
        res.violate(
            'on panel data a Monte-Carlo integral must enclose the trajectory operator (the integral is taken over the product of the rows of the individual, '
            'one draw shared by all its rows): a formula with a MonteCarlo that contains no PanelLikelihoodTrajectory is refused with the library error',
            desc, verdict, {'verdict': 'BiogemeError', 'integrals without trajectory': bad_mc[:2]}, where=WHERE_MC_RULE)
    if not exp_out and not bad_mc and verdict == 'BiogemeError':
        # other rules may refuse the formula (they are C12's subject); recorded, not a failure of this property
        res.tally('audit:refused-for-another-reason')
    if verdict == 'accepted':
        res.tally('audit:accepted')

    def cb(ans):
        a = ans[0]
        if sorted(set(a.get('outside', []))) != reported:
            res.diverge('check_panel_trajectory vs Panel.checkPanelTrajectory', desc, a.get('outside'), reported)
        if sorted(set(a.get('draws_outside', []))) != info['draws_outside']:
            res.diverge('check_draws vs Panel.checkDraws', desc, a.get('draws_outside'), info['draws_outside'])
        if a.get('audit_errors') != info['audit_errors']:
            res.diverge('number of errors listed by Expression.audit(panel database) vs Panel.auditErrors', desc, a.get('audit_errors'), info['audit_errors'], where=WHERE_MC_RULE)
        if not dict_path and a.get('accepts') != (verdict == 'accepted'):
            res.diverge('BIOGEME(database, formula) builds the object vs Panel.initAccepts', desc, a.get('accepts'), verdict, where=WHERE_MC_RULE)

    ctx.batch.add_many([{'op': 'audit', 'e': tree}], cb)


def check_audit_eval(ctx, res, tree):
    """the same rules at the expression entry point (called only for formulas that must be refused: nothing reaches the engine)"""
    import biogeme.database as db

    desc = {'tree': tree, 'entry': 'get_value_c'}
    iso_f.note(desc, WHERE_EVAL_RULE)
    bad_mc = mc_without_traj(tree) if (contains(tree, 'traj') or contains(tree, 'var')) else []
    exp_out = sorted(set(outside_vars(tree))) if contains(tree, 'traj') else []
    if not bad_mc and not exp_out:
        return
    res.count({'audit-eval': desc}, nontrivial=True)
    res.tally('audit:get_value_c' + (':mc-without-trajectory' if bad_mc else ':outside'))
    with core.scratch(TOML):
        d = db.Database('t', make_df(AUDIT_TABLE))
        d.panel('ID')
        e = build_tree(tree)
        try:
            v = e.get_value_c(database=d, number_of_draws=2, prepare_ids=True)
            verdict = 'value ' + str([float(x) for x in np.asarray(v).ravel()][:4])
        except Exception as ex:  # noqa: BLE001
            verdict = core.exc_kind(ex)
            if verdict.startswith('Other'):
                _POISON['hit'] = True
    if verdict != 'BiogemeError':
        res.violate(
            'on panel data get_value_c refuses (library error) a formula with a trajectory operator and '
            + ('a MonteCarlo that does not enclose it' if bad_mc else 'a variable outside it'), desc, verdict, 'BiogemeError', where=WHERE_EVAL_RULE)


# ----------------------------------------------------------------------------- the check

CORPUS_TABLES = [
    # interleaved: id 7 in two runs
    {'rows': [[7, 0.5, 1.0], [7, 0.25, 0.0], [-3, 0.75, 0.5], [7, 0.5, 2.0]], 'index': [0, 1, 2, 3]},
    # contiguous, individuals not in id order, one individual with a single row, large and negative ids
    {'rows': [[7, 0.5, 1.0], [7, 0.25, 0.0], [7, 0.75, 0.5], [-3, 0.5, 2.0], [-3, 0.125, 1.0], [1000000, 0.25, 0.0], [2, 0.5, 1.5], [2, 0.5, -1.0]], 'index': [3, 1, 4, 0, 5, 9, 2, 6]},
    {'rows': [[5, 0.5, 1.0]], 'index': [0]},
    # half-integer ids
    {'rows': [[2.5, 0.5, 1.0], [2.5, 0.25, 0.0], [-0.5, 0.75, 0.5]], 'index': [2, 0, 1]},
]


# id 0: the smallest id, not in the first block / in the first block / between negative and positive ids; ids descending
CORPUS_ZERO = [
    {'rows': [[3, 0.5, 1.0], [3, 0.25, 0.5], [0, 0.75, 0.5], [0, 0.5, 2.0], [0, 0.125, -1.0], [2, 0.25, 0.0], [1, 0.5, 1.5], [1, 0.5, -1.0]], 'index': [0, 1, 2, 3, 4, 5, 6, 7]},
    {'rows': [[0, 0.5, 1.0], [0, 0.25, 0.5], [-1, 0.75, 0.5], [1, 0.5, 2.0], [1, 0.125, -1.0]], 'index': [4, 3, 2, 1, 0]},
    {'rows': [[5, 0.5, 1.0], [5, 0.25, 0.5], [9, 0.75, 0.5], [9, 0.5, 2.0], [9, 0.125, -1.0], [0, 0.25, 0.0], [2, 0.5, 1.5], [2, 0.5, -1.0]], 'index': [7, 6, 5, 4, 3, 2, 1, 0]},
    {'rows': [[0, 0.5, 1.0], [3, 0.25, 0.5], [0, 0.75, 0.5]], 'index': [0, 1, 2]},   # interleaved, with 0
]


def _v(n):
    return {'k': 'var', 'n': n}


def _mul(l, r):
    return {'k': 'bin', 'op': '*', 'l': l, 'r': r}


_EXPD = {'k': 'un', 'op': 'exp', 'e': _mul({'k': 'beta', 'n': 'b'}, {'k': 'draws', 'n': 'xi0'})}
CORPUS_MC_TREES = [
    # the integral around the trajectory (accepted)
    {'k': 'mc', 'e': {'k': 'traj', 'e': _mul(_v('P'), _EXPD)}},
    # the integral inside the trajectory, row by row: integrand with a variable / without any variable
    {'k': 'traj', 'e': {'k': 'mc', 'e': _mul(_v('P'), _EXPD)}},
    {'k': 'traj', 'e': _mul(_v('P'), {'k': 'mc', 'e': _EXPD})},
    # the integral next to the trajectory
    _mul({'k': 'traj', 'e': _v('P')}, {'k': 'mc', 'e': _EXPD}),
    # no trajectory at all
    {'k': 'mc', 'e': _mul(_v('P'), _EXPD)},
    {'k': 'mc', 'e': _EXPD},
]


def _edit_corpus():
    base = [[7, 0.5, 1.0, 0.0], [7, 0.25, 2.0, 1.0], [7, 0.5, -1.0, 2.0], [3, 0.75, 0.5, 3.0], [12, 0.5, 1.5, 4.0], [12, 0.125, -0.5, 5.0]]
    common = {'first': base, 'index': [0, 1, 2, 3, 4, 5], 'allint': True, 'b': 0.25, 'q': 0.5, 'K': 2, 'R': 3, 'isolated': False}
    return [
        # a new wave of rows for the last individual (the table stays sorted), then rows dropped at the end of the table
        dict(common, formula='traj', entry0='expr', steps=[
            {'edits': [{'op': 'append', 'rows': [[12, 0.5, 1.0, 6.0], [12, 0.75, 0.5, 7.0]]}], 'entry': 'expr'},
            {'edits': [{'op': 'drop', 'keys': [5.0, 6.0, 7.0]}], 'entry': 'expr_deriv'},
            {'edits': [{'op': 'append', 'rows': [[5, 0.5, 1.0, 8.0], [7, 0.5, 0.25, 9.0]]}, {'op': 'relabel', 'key': 0.0, 'id': 3}], 'entry': 'expr_sum'}]),
        # the same with shared draws; the number of individuals does not change before the expression entry point is used
        dict(common, formula='mc', entry0='expr', steps=[
            {'edits': [{'op': 'append', 'rows': [[12, 0.5, 1.0, 6.0], [3, 0.75, 0.5, 7.0]]}], 'entry': 'expr'},
            {'edits': [{'op': 'append', 'rows': [[5, 0.5, 1.0, 8.0]]}, {'op': 'order', 'keys': [8.0, 7.0, 6.0, 5.0, 4.0, 3.0, 2.0, 1.0, 0.0]}], 'entry': 'biogeme'},
            {'edits': [{'op': 'remove', 'x_gt': 1.25}], 'entry': 'expr_deriv'}]),
        # (A) only block boundaries move: the last observation of 7 goes to 12, then the first of 7 goes to 3 (ids, order, length unchanged)
        dict(common, formula='traj', entry0='expr', steps=[
            {'edits': [{'op': 'relabel', 'key': 2.0, 'id': 12}], 'entry': 'expr'},
            {'edits': [{'op': 'relabel', 'key': 0.0, 'id': 3}], 'entry': 'expr_deriv'},
            {'edits': [{'op': 'relabel', 'key': 2.0, 'id': 7}], 'entry': 'expr_sum'},
            {'edits': [{'op': 'relabel', 'key': 4.0, 'id': 7}], 'entry': 'biogeme'}]),
        # (B) the table replaced by another sorted extract with the same ids and the same number of rows, other block sizes
        dict(common, formula='traj', entry0='expr_sum', steps=[
            {'edits': [{'op': 'replace', 'rows': [[3, 0.5, 1.0, 6.0], [3, 0.25, 0.5, 7.0], [3, 0.75, -1.0, 8.0], [7, 0.5, 2.0, 9.0], [12, 0.125, 0.5, 10.0], [12, 0.9, 1.5, 11.0]]}], 'entry': 'expr'},
            {'edits': [{'op': 'replace', 'rows': [[3, 0.5, 1.0, 12.0], [7, 0.25, 0.5, 13.0], [7, 0.75, -1.0, 14.0], [7, 0.5, 2.0, 15.0], [7, 0.125, 0.5, 16.0], [12, 0.9, 1.5, 17.0]]}], 'entry': 'expr_deriv'},
            {'edits': [{'op': 'replace', 'rows': [[3, 0.5, 1.0, 18.0], [3, 0.25, 0.5, 19.0], [7, 0.75, -1.0, 20.0], [7, 0.5, 2.0, 21.0], [12, 0.125, 0.5, 22.0], [12, 0.9, 1.5, 23.0]]}], 'entry': 'expr_sum'}]),
        dict(common, formula='mc', entry0='expr', steps=[
            {'edits': [{'op': 'relabel', 'key': 2.0, 'id': 12}], 'entry': 'expr'},
            {'edits': [{'op': 'relabel', 'key': 0.0, 'id': 3}], 'entry': 'expr_sum'}]),
        # known finding F-C09-3: a new individual, then the expression entry point with Monte-Carlo
        dict(common, formula='mc', entry0='expr', isolated=True, steps=[{'edits': [{'op': 'append', 'rows': [[5, 0.5, 1.0, 6.0]]}], 'entry': 'expr'}]),
    ]


CORPUS_EDITS = _edit_corpus()


def check_impl(ctx) -> Result:
    res = Result(rule=RULE, tolerance='map, acceptance, sample size, generator calls: exact; values: rel 1e-11 (oracle), rel 1e-12 (model vs code)')
    rng = ctx.rng
    for i, t in enumerate(CORPUS_TABLES + CORPUS_ZERO):
        crng = core.rng_for('C09-corpus', i)
        for formula in ('traj', 'mc'):
            case = {'table': t, 'formula': formula, 'b': 0.25, 'q': 0.5, 'K': 2, 'R': 3, 'threads': 2}
            check_case(ctx, res, case, crng)
        res.tally('corpus')
    # known finding F-C09-1 (dict of formulas): concrete input first
    check_audit(ctx, res, {'k': 'bin', 'op': '+', 'l': {'k': 'traj', 'e': {'k': 'var', 'n': 'P'}}, 'r': {'k': 'var', 'n': 'X'}}, dict_path=True)
    check_audit(ctx, res, {'k': 'bin', 'op': '+', 'l': {'k': 'traj', 'e': {'k': 'var', 'n': 'P'}}, 'r': {'k': 'var', 'n': 'X'}}, dict_path=False)
    known = (WHERE_DICT, WHERE_BOOT_L, WHERE_STALE_DRAWS, WHERE_UNSORTED, WHERE_SAME_OBJ)
    # one object used for several calls in a row, with an estimation (bootstrap) in between
    check_sequence(ctx, res, {'table': CORPUS_TABLES[1], 'b0': 0.25, 'np_seed': 2026, 'samples': 3, 'threads': 2})
    for _ in range(ctx.n(8, 150)):
        check_sequence(ctx, res, gen_seq_case(rng))
    # the table is changed between two evaluations (rows appended / dropped / relabelled / reordered, Database.remove)
    for c in CORPUS_EDITS:
        if not [v for v in res.violations if v.get('where') not in known]:
            check_edit_case(ctx, res, c)
    n_stale = 0
    for _ in range(ctx.n(70, 1200)):
        if _POISON['hit']:
            break
        c = gen_edit_case(rng, allow_stale_draws=n_stale < ctx.n(2, 20))
        n_stale += 1 if c['isolated'] else 0
        check_edit_case(ctx, res, c)
        if [v for v in res.violations if v.get('where') not in known]:
            break  # one concrete failing history is enough: the next ones may take the engine outside the table
    for _ in range(ctx.n(120, 2500)):
        if _POISON['hit']:
            break
        case = gen_case(rng)
        check_case(ctx, res, case, rng)
        if len([v for v in res.violations if v.get('where') not in known]) > 5:
            break
    # one BIOGEME object kept while the table of its database is changed (isolated: the engine may raise or die)
    for c in CORPUS_SAME:
        check_same_obj(ctx, res, c)
    for _ in range(ctx.n(1, 25)):
        check_same_obj(ctx, res, gen_same_obj_case(rng))
    # several trajectory operators combined non-additively (latent classes), with and without shared draws
    for i, t in enumerate(CORPUS_TABLES[1:] + CORPUS_ZERO[:3]):
        for mc in (False, True):
            check_latent(ctx, res, {'table': t, 'w': 0.25, 'b': 0.5, 'mc': mc, 'R': 3, 'threads': 2}, core.rng_for('C09-latent', i))
    for _ in range(ctx.n(16, 350)):
        if _POISON['hit'] or len([v for v in res.violations if v.get('where') not in known]) > 5:
            break
        check_latent(ctx, res, gen_latent_case(rng), rng)
    flush_leanrun(ctx, res)
    for _ in range(ctx.n(60, 1200)):
        check_audit(ctx, res, gen_tree(rng, rng.randint(1, 4)), dict_path=False)
    for _ in range(ctx.n(5, 60)):
        check_audit(ctx, res, gen_tree(rng, rng.randint(1, 4)), dict_path=True)
    # formulas with Monte-Carlo integrals: around the trajectory, inside it (row by row), next to it
    mc_trees = list(CORPUS_MC_TREES)
    for t in CORPUS_MC_TREES:
        check_audit(ctx, res, t, dict_path=False)
        check_audit(ctx, res, t, dict_path=True)
    for i in range(ctx.n(150, 2400)):
        t = gen_ptree(rng, rng.randint(2, 5), clean=rng.random() < 0.7)
        check_audit(ctx, res, t, dict_path=(i % 6 == 5))
        mc_trees.append(t)
    # last (a formula that is wrongly accepted reaches the engine): the same rules at the expression entry point
    n_eval = 0
    for t in mc_trees:
        if _POISON['hit'] or n_eval >= ctx.n(60, 600) or [v for v in res.violations if v.get('where') == WHERE_EVAL_RULE]:
            break
        if mc_without_traj(t) or (contains(t, 'traj') and outside_vars(t)):
            check_audit_eval(ctx, res, t)
            n_eval += 1
    ctx.batch.flush()
    return res


class _NoBatch:
    def add_many(self, reqs, cb):
        pass


class _Ctx2:
    def __init__(self, rng):
        self.rng = rng
        self.batch = _NoBatch()


def search(ctx, res, broken):
    rng = core.rng_for('C09-search', ctx.seed)
    c2 = _Ctx2(rng)
    known = (WHERE_DICT, WHERE_BOOT_L, WHERE_STALE_DRAWS, WHERE_UNSORTED, WHERE_SAME_OBJ)
    for i in range(300):
        r2 = Result()
        check_case(c2, r2, gen_case(rng), rng)
        check_edit_case(c2, r2, gen_edit_case(rng, allow_stale_draws=False))
        t = gen_ptree(rng, rng.randint(2, 5), clean=rng.random() < 0.7)
        check_audit(c2, r2, t, dict_path=False)
        if i < 40:
            check_sequence(c2, r2, gen_seq_case(rng))
        if i < 100:
            check_latent(c2, r2, gen_latent_case(rng), rng)
            del LEANRUN[:]
        found = [v for v in r2.violations if v.get('where') not in known]
        if found:
            res.violations.extend(found[:1])
            return


def replay_impl(ctx, obj):
    case = obj.get('case') or {}
    out = {'replayed': obj.get('what')}
    c2 = _Ctx2(core.rng_for('C09-replay', 0))
    r = Result()
    if 'np_seed' in case:
        check_sequence(c2, r, {k: v for k, v in case.items() if k != 'step'})
        if case.get('step') and case['step'] != 'sequence':
            r.violations = [v for v in r.violations if v['case'].get('step') == case['step']]
    elif case.get('same_object') and 'first' in case:
        check_same_obj(c2, r, {k: v for k, v in case.items() if k != 'evaluation'})
        if 'evaluation' in case:
            r.violations = [v for v in r.violations if v['case'].get('evaluation') == case['evaluation']]
    elif 'steps' in case and 'first' in case:
        check_edit_case(c2, r, {k: v for k, v in case.items() if k not in ('evaluation', 'stale_draws', 'unsorted_table')})
        if 'evaluation' in case:
            r.violations = [v for v in r.violations if v['case'].get('evaluation') == case['evaluation']]
    elif 'tree' in case and case.get('entry') == 'get_value_c':
        check_audit_eval(c2, r, case['tree'])
    elif 'tree' in case:
        check_audit(c2, r, case['tree'], dict_path=bool(case.get('dict_path')))
    elif case.get('latent') and 'table' in case:
        base = {k: v for k, v in case.items() if k not in ('reordered', 'latent')}
        check_latent(c2, r, base, c2.rng)
        if 'reordered' in case:
            check_latent_one(c2, r, base, case['reordered'])
        del LEANRUN[:]
    elif 'formula' in case and 'table' in case:
        check_case(c2, r, {k: v for k, v in case.items() if k != 'reordered'}, c2.rng)
        if 'reordered' in case:
            check_values(c2, r, case, case['reordered'])
    elif 'table' in case:
        check_panel(c2, r, case['table'])
    else:
        out.update({'property_fails': False, 'note': 'nothing to replay (no concrete input in this file)'})
        return out
    out.update({'property_fails': bool(r.violations), 'violations': r.violations[:3]})
    return out


# ----------------------------------------------------------------------------- entry points (isolated)


def check(ctx) -> Result:
    """the streams run in a fresh interpreter: an engine that dies is reported with the case being evaluated"""
    return iso_f.run_check_isolated('props.c09', ctx, 'BIOGEME.calculate_likelihood / simulate on panel data')


def replay(ctx, obj):
    return iso_f.run_replay_isolated('props.c09', ctx, obj)
