"""C09 — panel likelihood: product over each individual's rows, with shared draws.

Tie: correspondence (C).  Panel tables (1-8 individuals, 1-5 rows each, arbitrary id values,
individuals in random order, contiguous or deliberately interleaved) are turned into real
`Database` objects; `Database.panel`, `individualMap`, `get_sample_size`, `count_number_of_groups`,
`generate_flat_panel_dataframe`, and `BIOGEME.calculate_likelihood` / `simulate` on formulas
`log(PanelLikelihoodTrajectory(.))` and `log(MonteCarlo(PanelLikelihoodTrajectory(.)))` with
deterministic user-defined generators (the draw value encodes (individual, r, variable)) are
driven.  Outputs are compared with the Lean model (`Panel.panelOk/panelMap/tableValues/
panelValuesMC`, `checkPanelTrajectory`) and with an oracle written from the property statement
(independent products / means in Python from the *real* per-row values).
"""

from __future__ import annotations

import math

import numpy as np

from lib import core
from props import iso_f
from lib.core import Result, f2b, b2f

READY = True
MANIFEST = dict(
    text='Proof (Lean 4): the test of Database.panel (number of runs of the id column = number of runs of the sorted column) holds IFF every id occupies one run '
    '(C09.contiguous_iff, contiguous_index_form); every entry [first,last] of the map of the sorted column holds exactly the rows of its id and every row lies in exactly one entry '
    '(map_block, map_bounds, map_partition, map_ids); sample size = number of distinct ids (sample_size); the trajectory operator = product over the visited rows, = exactly the rows '
    'of the id, invariant under reordering (traj_product, traj_rows, traj_perm); at table level the list (individual, value) is the same for every permutation of the rows '
    '(table_values, table_perm_invariant); inside Monte-Carlo the draw vector is that of (individual, r) for all rows (shared_draw, draws_of_individual_only, mc_perm); '
    'check_panel_trajectory = variables outside every trajectory operator (audit_panel). Tie: real Database/BIOGEME objects on generated panel tables, deterministic draw generators.',
    design='DESIGN.md §5 C09',
    technique='Lean 4 theorems (core + Mathlib list/finset lemmas) over an executable model of the contiguity test, the individual map and the trajectory / Monte-Carlo operators + differential correspondence',
    note='The C++ engine operators are modelled, not verified. pandas sort_values/unique/shift are trusted primitives (their outputs are checked on every case).',
)

TRUSTED = [
    'cythonbiogeme operators PanelLikelihoodTrajectory / MonteCarlo / bioDraws: modelled from their source, validated on the explored cases, not verified',
    'pandas sort_values / unique / shift / cumsum used by Database.panel and build_panel_map (their outputs are checked against the model and the oracle on every case)',
    'per-row values of the integrand are taken from the real code evaluated on a non-panel copy of the table (their correctness is C01)',
]
ASSUMPTIONS = ['per-observation values inside the trajectory are positive (the engine computes exp of the sum of logs)', 'ids are mapped to integers preserving order and equality']
RULE = (
    'panel table: 1-8 individuals x 1-5 rows, ids from {negative, large, non-consecutive, half-integers}, individuals in random order, contiguous or interleaved; '
    'formulas traj / Monte-Carlo(traj) with 1-2 user draw variables, R in {1,2,3,5}; sequences simulate / likelihood / estimate(bootstrap) / simulate on one object; non-trivial = >= 2 individuals with unequal block sizes'
)

WHERE_DICT = 'BIOGEME.__init__ with a dict of formulas on panel data: variables outside PanelLikelihoodTrajectory'
WHERE_BOOT_L = 'calculate_likelihood right after estimate(run_bootstrap=True) on the same object (engine keeps the last bootstrap sample)'
WHERE_SEQ = 'sequence of simulate / calculate_likelihood / estimate on one panel BIOGEME object'
MATCHERS = {
    'dict_path': lambda case: isinstance(case, dict) and case.get('dict_path') is True,
    'after_bootstrap': lambda case: isinstance(case, dict) and case.get('step') == 'likelihood-right-after-bootstrap',
}

TOML = core.TOML_MINIMAL

ID_POOLS = [
    lambda rng: rng.randint(-50, 50),
    lambda rng: rng.randint(-10**9, 10**9),
    lambda rng: rng.choice([1, 2, 3, 4, 5, 6, 7, 8, 9, 10, 11, 12]),
    lambda rng: rng.randint(-40, 40) / 2.0,
    lambda rng: rng.choice([0, -1, 1, 10**6, -(10**6), 999999, 1000001, 17, 170, 1700]),
]

# ----------------------------------------------------------------------------- generators


def gen_table(rng, contiguous=None):
    n_ind = rng.choice([1, 1, 2, 2, 3, 3, 4, 5, 6, 8])
    pool = rng.choice(ID_POOLS)
    ids = []
    while len(ids) < n_ind:
        v = pool(rng)
        if v not in ids:
            ids.append(v)
    blocks = []
    for v in ids:
        k = rng.choice([1, 1, 2, 3, 4, 5])
        blocks.append([[v, rng.choice([0.125, 0.25, 0.5, 0.75, 0.375, 0.9, 0.05]), rng.randint(-8, 8) / 4.0] for _ in range(k)])
    if contiguous is None:
        contiguous = rng.random() < 0.75
    rows = [r for b in blocks for r in b]
    if not contiguous and len(rows) >= 3 and n_ind >= 2:
        # deliberately interleave: move one row of an individual with >= 2 rows (or any) elsewhere
        for _ in range(20):
            rows2 = list(rows)
            i = rng.randrange(len(rows2))
            r = rows2.pop(i)
            j = rng.randrange(len(rows2) + 1)
            rows2.insert(j, r)
            if not is_contiguous([x[0] for x in rows2]):
                rows = rows2
                break
    index = list(range(len(rows)))
    if rng.random() < 0.5:
        rng.shuffle(index)
    return {'rows': rows, 'index': index}


def is_contiguous(ids):
    """oracle from the statement: each individual's rows form one contiguous block"""
    seen = set()
    prev = object()
    for v in ids:
        if v != prev:
            if v in seen:
                return False
            seen.add(v)
        prev = v
    return True


def n_groups(ids):
    return sum(1 for i, v in enumerate(ids) if i == 0 or v != ids[i - 1])


def reorder(rng, table):
    """another order of the same rows: individuals shuffled, rows shuffled inside each individual (still contiguous)"""
    by = {}
    order = []
    for r in table['rows']:
        if r[0] not in by:
            by[r[0]] = []
            order.append(r[0])
        by[r[0]].append(r)
    rng.shuffle(order)
    rows = []
    for v in order:
        b = list(by[v])
        rng.shuffle(b)
        rows += b
    index = list(range(len(rows)))
    rng.shuffle(index)
    return {'rows': rows, 'index': index}


def gen_case(rng, contiguous=None):
    case = {
        'table': gen_table(rng, contiguous),
        'formula': rng.choice(['traj', 'traj', 'mc', 'mc']),
        'b': rng.randint(-8, 8) / 16.0,
        'q': rng.choice([0.0, 0.25, 0.5, 1.0]),
        'K': rng.choice([1, 2]),
        'R': rng.choice([1, 2, 3, 5]),
        'threads': rng.choice([1, 2, 3, 9]),
    }
    return case


# ----------------------------------------------------------------------------- real objects


def make_df(table):
    import pandas as pd

    ids = [r[0] for r in table['rows']]
    allint = all(float(v).is_integer() for v in ids)
    return pd.DataFrame(
        {'ID': [int(v) for v in ids] if allint else [float(v) for v in ids], 'P': [float(r[1]) for r in table['rows']], 'X': [float(r[2]) for r in table['rows']]},
        index=list(table['index']),
    )


def draw_value(ind, r, k):
    """deterministic 'draw' that encodes (individual, r, variable) - dyadic, small, positive"""
    return (ind + 1) / 16.0 + (r + 1) / 256.0 + k / 4.0


def make_generators(calls):
    def g(k):
        def gen(sample_size, number_of_draws):
            calls.append((k, int(sample_size), int(number_of_draws)))
            return np.array([[draw_value(i, r, k) for r in range(number_of_draws)] for i in range(sample_size)], dtype=float).reshape(sample_size, number_of_draws)

        return gen

    return {'G0': (g(0), 'encodes (individual, r), variable 0'), 'G1': (g(1), 'encodes (individual, r), variable 1')}


def integrand_expr(case, with_draws):
    from biogeme.expressions import Beta, Variable, exp, bioDraws

    b = Beta('b', 0.0, None, None, 0)
    P, X = Variable('P'), Variable('X')
    if not with_draws:
        return P * exp(b * X)
    e = P * exp(b * X * bioDraws('xi0', 'G0'))
    if case['K'] >= 2:
        e = e * (1 + case['q'] * bioDraws('xi1', 'G1'))
    return e


def loglike_expr(case):
    from biogeme.expressions import log, PanelLikelihoodTrajectory, MonteCarlo

    if case['formula'] == 'traj':
        return log(PanelLikelihoodTrajectory(integrand_expr(case, False)))
    return log(MonteCarlo(PanelLikelihoodTrajectory(integrand_expr(case, True))))


def run_panel(table):
    """Database.panel on the table: acceptance, map, sorted data, sample size, flat frame"""
    import biogeme.database as db
    from biogeme.exceptions import BiogemeError
    from biogeme.tools.database import count_number_of_groups

    df = make_df(table)
    out = {'groups': int(count_number_of_groups(df.copy(), 'ID'))}
    d = db.Database('t', df)
    try:
        d.panel('ID')
    except BiogemeError as e:
        out['ok'] = False
        out['error'] = str(e)[:200]
        return out, None
    out['ok'] = True
    m = d.individualMap
    out['map'] = [[float(i), int(m.loc[i].iloc[0]), int(m.loc[i].iloc[1])] for i in m.index]
    out['sorted_rows'] = [[float(a), float(p), float(x)] for a, p, x in zip(d.data['ID'], d.data['P'], d.data['X'])]
    out['data_index'] = [int(i) for i in d.data.index]
    out['sample_size'] = int(d.get_sample_size())
    out['n_obs'] = int(d.get_number_of_observations())
    flat = d.generate_flat_panel_dataframe()
    out['flat_index'] = [float(i) for i in flat.index]
    out['flat'] = {c: [None if (isinstance(v, float) and math.isnan(v)) else float(v) for v in flat[c]] for c in flat.columns}
    return out, d


def run_values(case, table):
    """likelihood / simulate on the panel table + the real per-row values from a non-panel copy"""
    import biogeme.biogeme as bio
    import biogeme.database as db

    calls = []
    with core.scratch(TOML):
        d = db.Database('t', make_df(table))
        d.panel('ID')
        if case['formula'] == 'mc':
            d.set_random_number_generators(make_generators(calls))
        ll = loglike_expr(case)
        B = bio.BIOGEME(d, ll, number_of_draws=case['R'], number_of_threads=case['threads'])
        n_calls_init = len(calls)
        x = [case['b']]
        out = {
            'L': float(B.calculate_likelihood(x, scaled=False)),
            'Ls': float(B.calculate_likelihood(x, scaled=True)),
            'sample_size': int(d.get_sample_size()),
        }
        sim = B.simulate({'b': case['b']})
        out['sim_ids'] = [float(i) for i in sim.index]
        out['sim'] = [float(v) for v in sim['log_like'].values]
        out['sorted_rows'] = [[float(a), float(p), float(xx)] for a, p, xx in zip(d.data['ID'], d.data['P'], d.data['X'])]
        out['gen_calls'] = [list(c) for c in calls]
        out['n_calls_init'] = n_calls_init
        if case['formula'] == 'mc':
            out['draws_shape'] = list(np.asarray(d.theDraws).shape)
        # real per-row values of the integrand without draws, on a non-panel copy of the sorted table
        if case['formula'] == 'traj':
            flat = db.Database('flat', d.data[['ID', 'P', 'X']].copy())
            out['per_row'] = [float(v) for v in integrand_expr(case, False).get_value_c(database=flat, betas={'b': case['b']}, prepare_ids=True)]
    return out


# ----------------------------------------------------------------------------- oracle (from the statement)


def rank_map(ids):
    vals = sorted(set(ids))
    return {v: i - len(vals) // 2 for i, v in enumerate(vals)}  # order- and equality-preserving integers (negative ones too)


def oracle_map(table, real, res, desc):
    """every row belongs to exactly one individual, each individual's rows form one block, sample size = #individuals"""
    ids = [float(r[0]) for r in table['rows']]
    N = len(ids)
    rows_sorted = real['sorted_rows']
    where = 'Database.panel / build_panel_map'
    if sorted(map(tuple, rows_sorted)) != sorted((float(r[0]), float(r[1]), float(r[2])) for r in table['rows']):
        res.violate('the sorted table holds exactly the rows of the table', desc, rows_sorted, table['rows'], where=where)
    if real['data_index'] != list(range(N)):
        res.violate('rows are renumbered 0..N-1 after sorting', desc, real['data_index'], list(range(N)), where=where)
    covered = [0] * N
    for a, lo, hi in real['map']:
        if not (0 <= lo <= hi < N):
            res.violate('map bounds inside the table', desc, [a, lo, hi], f'0 <= first <= last < {N}', where=where)
            return
        for i in range(lo, hi + 1):
            covered[i] += 1
            if rows_sorted[i][0] != a:
                res.violate("an individual's block holds only its own rows", desc, {'entry': [a, lo, hi], 'row': i, 'id': rows_sorted[i][0]}, a, where=where)
        cnt = sum(1 for r in rows_sorted if r[0] == a)
        if cnt != hi - lo + 1:
            res.violate("an individual's block holds all its rows", desc, [a, lo, hi], cnt, where=where)
    if covered != [1] * N:
        res.violate('every row belongs to exactly one individual', desc, covered, [1] * N, where=where)
    if sorted(m[0] for m in real['map']) != sorted(set(ids)):
        res.violate('one map entry per individual', desc, [m[0] for m in real['map']], sorted(set(ids)), where=where)
    if real['sample_size'] != len(set(ids)):
        res.violate('sample size = number of individuals', desc, real['sample_size'], len(set(ids)), where='Database.get_sample_size')
    if real['n_obs'] != N:
        res.violate('number of observations = number of rows', desc, real['n_obs'], N, where='Database.get_number_of_observations')
    # flat frame: one line per individual, k-th row of the individual in columns k_P, k_X
    if sorted(real['flat_index']) != sorted(set(ids)):
        res.violate('flat panel frame has one line per individual', desc, real['flat_index'], sorted(set(ids)), where='generate_flat_panel_dataframe')
    else:
        # a column that is constant inside every individual is reported once under its own name,
        # the others as 1_<col>, 2_<col>, ... in the order of the rows of the sorted table
        for ci, col in ((1, 'P'), (2, 'X')):
            constant = all(len({r[ci] for r in rows_sorted if r[0] == a}) == 1 for a in set(ids))
            for pos, a in enumerate(real['flat_index']):
                mine = [r[ci] for r in rows_sorted if r[0] == a]
                if constant:
                    got = [real['flat'].get(col, [None] * (pos + 1))[pos]]
                    expd = [mine[0]]
                else:
                    got = []
                    k = 1
                    while f'{k}_{col}' in real['flat']:
                        got.append(real['flat'][f'{k}_{col}'][pos])
                        k += 1
                    expd = mine + [None] * (len(got) - len(mine))
                if got != expd:
                    res.violate(f'flat panel frame lists column {col} of the rows of each individual', desc, got, expd, where='generate_flat_panel_dataframe')
                    break


def oracle_values(case, table, real, res, desc):
    """independent product / mean from the statement"""
    rows = real['sorted_rows']
    ids = sorted(set(r[0] for r in rows))
    where = 'BIOGEME.calculate_likelihood / simulate on panel data'
    order = real['sim_ids']  # position of an individual in the real map = its index for the draws
    if sorted(order) != ids:
        res.violate('simulate on panel data reports one line per individual', desc, order, ids, where=where)
        return None
    exp_vals = []
    if case['formula'] == 'traj':
        pr = real['per_row']
        for a in order:
            exp_vals.append(math.log(math.prod(v for v, r in zip(pr, rows) if r[0] == a)))
    else:
        R, K, b, q = case['R'], case['K'], case['b'], case['q']
        for ind, a in enumerate(order):
            acc = []
            for r in range(R):
                x0 = draw_value(ind, r, 0)
                x1 = draw_value(ind, r, 1)
                acc.append(math.prod(rw[1] * math.exp(b * rw[2] * x0) * ((1 + q * x1) if K >= 2 else 1.0) for rw in rows if rw[0] == a))
            exp_vals.append(math.log(math.fsum(acc) / R))
        # draw table dimensioned by individuals, every generator call asks for (individuals, R)
        bad = [c for c in real['gen_calls'] if c[1] != len(ids) or c[2] != R]
        if bad or not real['gen_calls']:
            res.violate('the draw generators are asked for (number of individuals, R) series', desc, real['gen_calls'], [len(ids), R], where='Database.generate_draws')
        if real.get('draws_shape') != [len(ids), R, K]:
            res.violate('draw table has dimensions (individuals, draws, variables)', desc, real.get('draws_shape'), [len(ids), R, K], where='Database.generate_draws')
    for a, got, e in zip(order, real['sim'], exp_vals):
        if not core.close(got, e, rel=1e-11, abs_=1e-12):
            res.violate(f'value of individual {a} = log of the {"mean over draws of the " if case["formula"] == "mc" else ""}product over its rows', desc, got, e, where=where)
            break
    tot = math.fsum(exp_vals)
    if not core.close(real['L'], tot, rel=1e-11, abs_=1e-11):
        res.violate('log likelihood = sum over individuals of the per-individual values', desc, real['L'], tot, where=where)
    if not core.close(real['Ls'], real['L'] / len(ids), rel=1e-15):
        res.violate('scaled log likelihood = log likelihood / number of individuals', desc, real['Ls'], real['L'] / len(ids), where=where)
    if real['sample_size'] != len(ids):
        res.violate('sample size = number of individuals', desc, real['sample_size'], len(ids), where='Database.get_sample_size')
    return exp_vals


# ----------------------------------------------------------------------------- one case


def check_panel(ctx, res, table, tag=''):
    ids = [r[0] for r in table['rows']]
    rk = rank_map(ids)
    desc = {'table': table}
    iso_f.note(desc, 'Database.panel')
    try:
        real, d = run_panel(table)
    except Exception as e:  # noqa: BLE001
        res.violate(f'Database.panel raises {type(e).__name__}: {str(e)[:150]}', desc, core.exc_kind(e), 'accepted or BiogemeError', where='Database.panel')
        return None
    contiguous = is_contiguous(ids)
    sizes = {}
    for v in ids:
        sizes[v] = sizes.get(v, 0) + 1
    res.count({'panel': desc}, nontrivial=len(sizes) >= 2 and len(set(sizes.values())) >= 2)
    res.tally('contiguous' if contiguous else 'interleaved')
    res.tally(f'individuals={len(sizes)}')
    # property oracle
    if real['ok'] != contiguous:
        res.violate(
            'Database.panel accepts the table iff each individual\'s rows are consecutive', desc,
            'accepted' if real['ok'] else 'refused', 'accepted' if contiguous else 'refused', where='Database.panel')
    if real['groups'] != n_groups(ids):
        res.violate('count_number_of_groups = number of runs of equal ids', desc, real['groups'], n_groups(ids), where='count_number_of_groups')
    if real['ok']:
        oracle_map(table, real, res, desc)

    def cb(ans):
        a = ans[0]
        if a.get('ok') != real['ok']:
            res.diverge('acceptance by Database.panel vs Panel.panelOk', desc, a.get('ok'), real['ok'])
        if a.get('groups') != real['groups']:
            res.diverge('count_number_of_groups vs Panel.countGroups', desc, a.get('groups'), real['groups'])
        if real['ok']:
            inv = {v: k for k, v in rk.items()}
            mm = [[float(inv[e[0]]), e[1], e[2]] for e in a.get('map', [])]
            if mm != real['map']:
                res.diverge('individualMap vs Panel.panelMap', desc, mm, real['map'])
            if a.get('sample_size') != real['sample_size']:
                res.diverge('get_sample_size vs Panel.sampleSize', desc, a.get('sample_size'), real['sample_size'])
            if [float(inv[v]) for v in a.get('sorted', [])] != [r[0] for r in real['sorted_rows']]:
                res.diverge('sorted id column vs Panel.sortIds', desc, a.get('sorted'), [r[0] for r in real['sorted_rows']])

    ctx.batch.add_many([{'op': 'panel', 'ids': [rk[v] for v in ids]}], cb)
    return real


def check_values(ctx, res, case, table, tag=''):
    desc = dict(case, table=table)
    iso_f.note(desc, 'BIOGEME.calculate_likelihood / simulate on panel data')
    try:
        real = run_values(case, table)
    except Exception as e:  # noqa: BLE001
        res.violate(f'the likelihood entry points raise {type(e).__name__}: {str(e)[:150]} on a valid panel table', desc, core.exc_kind(e), 'a value', where='BIOGEME.calculate_likelihood / simulate on panel data')
        return None
    res.count({'values': desc}, nontrivial=True)
    res.tally(f'formula={case["formula"]}')
    exp_vals = oracle_values(case, table, real, res, desc)
    rows = real['sorted_rows']
    ids_sorted = [r[0] for r in rows]
    rk = rank_map(ids_sorted)
    if case['formula'] == 'traj':
        req = {'op': 'values', 'ids': [rk[v] for v in ids_sorted], 'p': [f2b(v) for v in real['per_row']], 'outer': 'log'}
    else:
        n_ind = len(set(ids_sorted))
        req = {
            'op': 'mc', 'ids': [rk[v] for v in ids_sorted], 'p': [f2b(r[1]) for r in rows], 'x': [f2b(r[2]) for r in rows],
            'b': f2b(case['b']), 'q': f2b(case['q']), 'K': case['K'], 'R': case['R'], 'outer': 'log',
            'draws': [[[f2b(draw_value(i, r, k)) for k in range(case['K'])] for r in range(case['R'])] for i in range(n_ind)],
        }

    def cb(ans):
        a = ans[0]
        mv = [b2f(v) for v in a.get('values', [])]
        if len(mv) != len(real['sim']) or not all(core.close(x, y, rel=1e-12, abs_=1e-13) for x, y in zip(mv, real['sim'])):
            res.diverge(f'simulate per individual vs Panel.{"tableValues" if case["formula"] == "traj" else "panelValuesMC"}', desc, mv, real['sim'])

    ctx.batch.add_many([req], cb)
    return real


def check_case(ctx, res, case, rng):
    table = case['table']
    real = check_panel(ctx, res, table)
    if real is None or not real['ok']:
        return
    v = check_values(ctx, res, case, table)
    if v is None:
        return
    # another order of individuals and of the rows of each individual: same values per individual
    t2 = reorder(rng, table)
    case2 = dict(case, threads=rng.choice([1, 2, 3]))
    v2 = check_values(ctx, res, case2, t2)
    if v2 is None:
        return
    desc = dict(case, table=table, reordered=t2)
    res.tally('reorder')
    d1, d2 = dict(zip(v['sim_ids'], v['sim'])), dict(zip(v2['sim_ids'], v2['sim']))
    if sorted(d1) != sorted(d2) or not all(core.close(d1[a], d2[a], rel=1e-11, abs_=1e-12) for a in d1):
        res.violate('per-individual values do not depend on the order of individuals / of the rows of an individual', desc, d2, d1, where='order of the rows in a panel table')
    if not core.close(v['L'], v2['L'], rel=1e-11, abs_=1e-11):
        res.violate('log likelihood does not depend on the order of individuals / rows', desc, v2['L'], v['L'], where='order of the rows in a panel table')


# ----------------------------------------------------------------------------- sequences on one object

SEQ_TOML = core.TOML_MINIMAL.replace('save_iterations = "False"', 'save_iterations = "False"\nbootstrap_samples = {B}') + '[Output]\ngenerate_html = "False"\ngenerate_pickle = "False"\n'


def gen_seq_case(rng):
    while True:
        t = gen_table(rng, contiguous=True)
        if len({r[0] for r in t['rows']}) >= 3:
            break
    return {'table': t, 'b0': rng.randint(-8, 8) / 8.0, 'np_seed': rng.randint(1, 10**6), 'samples': rng.choice([2, 3, 4]), 'threads': rng.choice([1, 2, 3])}


def run_sequence(case):
    """one panel BIOGEME object, used for: simulate, likelihood, simulate, estimate with bootstrap,
    likelihood, simulate, likelihood, simulate, estimate without bootstrap, simulate"""
    import biogeme.biogeme as bio
    import biogeme.database as db
    from biogeme.expressions import Beta, Variable, exp, log, PanelLikelihoodTrajectory

    np.random.seed(case['np_seed'])
    out = []
    with core.scratch(SEQ_TOML.format(B=case['samples'])):
        d = db.Database('t', make_df(case['table']))
        d.panel('ID')
        b = Beta('b', 0.0, None, None, 0)
        P, X = Variable('P'), Variable('X')
        formulas = {
            'log_like': log(PanelLikelihoodTrajectory(P * exp(-(b - X) * (b - X)))),
            'traj': PanelLikelihoodTrajectory(P),
        }
        B = bio.BIOGEME(d, formulas, number_of_threads=case['threads'])
        B.modelName = 'seq'
        x = [case['b0']]

        def sim(step):
            s = B.simulate({'b': case['b0']})
            out.append({'step': step, 'ids': [float(i) for i in s.index], 'log_like': [float(v) for v in s['log_like'].values], 'traj': [float(v) for v in s['traj'].values]})

        def like(step):
            out.append({'step': step, 'L': float(B.calculate_likelihood(x, scaled=False)), 'Ls': float(B.calculate_likelihood(x, scaled=True))})

        sim('simulate-first')
        like('likelihood-after-simulate')
        sim('simulate-after-likelihood')
        B.estimate(run_bootstrap=True)
        like('likelihood-right-after-bootstrap')
        sim('simulate-after-bootstrap')
        like('likelihood-after-bootstrap-and-simulate')
        sim('simulate-again')
        B.estimate()
        sim('simulate-after-estimate')
        like('likelihood-after-estimate')
    return out


def check_sequence(ctx, res, case):
    desc0 = dict(case)
    iso_f.note(dict(desc0, step='sequence'), WHERE_SEQ)
    try:
        steps = run_sequence(case)
    except Exception as e:  # noqa: BLE001
        res.violate(f'a sequence of simulate / likelihood / estimate on one panel object raises {type(e).__name__}: {str(e)[:150]}', dict(desc0, step='sequence'), core.exc_kind(e), 'values', where=WHERE_SEQ)
        return
    res.count({'sequence': desc0}, nontrivial=True)
    res.tally('sequence')
    rows = case['table']['rows']
    ids = sorted({float(r[0]) for r in rows})
    b0 = case['b0']
    # oracle from the statement, straight from the table
    exp_traj = {a: math.prod(r[1] for r in rows if float(r[0]) == a) for a in ids}
    exp_ll = {a: math.fsum(math.log(r[1]) - (b0 - r[2]) ** 2 for r in rows if float(r[0]) == a) for a in ids}
    exp_L = math.fsum(exp_ll.values())
    for st in steps:
        desc = dict(desc0, step=st['step'])
        if 'L' in st:
            where = WHERE_BOOT_L if st['step'] == 'likelihood-right-after-bootstrap' else WHERE_SEQ
            if not core.close(st['L'], exp_L, rel=1e-10, abs_=1e-10):
                res.violate(f'log likelihood ({st["step"]}) = sum over individuals of the log of the product over their rows', desc, st['L'], exp_L, where=where)
            elif not core.close(st['Ls'], st['L'] / len(ids), rel=1e-15):
                res.violate(f'scaled log likelihood ({st["step"]}) = log likelihood / number of individuals', desc, st['Ls'], st['L'] / len(ids), where=where)
            continue
        if sorted(st['ids']) != ids:
            res.violate(f'simulate ({st["step"]}) reports one line per individual', desc, st['ids'], ids, where=WHERE_SEQ)
            continue
        for a, tv, lv in zip(st['ids'], st['traj'], st['log_like']):
            if not core.close(tv, exp_traj[a], rel=1e-11) or not core.close(lv, exp_ll[a], rel=1e-10, abs_=1e-11):
                res.violate(
                    f'simulate ({st["step"]}): the value reported for individual {a} = product over exactly the rows of that individual', desc,
                    {'traj': tv, 'log_like': lv}, {'traj': exp_traj[a], 'log_like': exp_ll[a]}, where=WHERE_SEQ)
                break


# ----------------------------------------------------------------------------- placement rule


def gen_tree(rng, depth):
    if depth == 0 or rng.random() < 0.25:
        return rng.choice([{'k': 'var', 'n': 'P'}, {'k': 'var', 'n': 'X'}, {'k': 'beta', 'n': 'b'}, {'k': 'num', 'v': rng.randint(1, 3)}])
    k = rng.choice(['un', 'bin', 'bin', 'traj', 'traj'])
    if k == 'un':
        return {'k': 'un', 'op': rng.choice(['exp', 'neg']), 'e': gen_tree(rng, depth - 1)}
    if k == 'bin':
        return {'k': 'bin', 'op': rng.choice(['+', '*']), 'l': gen_tree(rng, depth - 1), 'r': gen_tree(rng, depth - 1)}
    return {'k': 'traj', 'e': gen_tree(rng, depth - 1)}


def build_tree(t):
    from biogeme.expressions import Beta, Variable, Numeric, exp, PanelLikelihoodTrajectory

    k = t['k']
    if k == 'var':
        return Variable(t['n'])
    if k == 'beta':
        return Beta(t['n'], 0.0, None, None, 0)
    if k == 'num':
        return Numeric(t['v'])
    if k == 'un':
        e = build_tree(t['e'])
        return exp(e) if t['op'] == 'exp' else -e
    if k == 'bin':
        l, r = build_tree(t['l']), build_tree(t['r'])
        return l + r if t['op'] == '+' else l * r
    if k == 'traj':
        return PanelLikelihoodTrajectory(build_tree(t['e']))
    raise ValueError(k)


def outside_vars(t, inside=False):
    """oracle: variables that are not below a trajectory operator"""
    k = t['k']
    if k == 'var':
        return [] if inside else [t['n']]
    if k in ('beta', 'num'):
        return []
    if k == 'un':
        return outside_vars(t['e'], inside)
    if k == 'bin':
        return outside_vars(t['l'], inside) + outside_vars(t['r'], inside)
    if k == 'traj':
        return []
    raise ValueError(k)


AUDIT_TABLE = {'rows': [[3, 0.5, 1.0], [3, 0.25, 0.5], [-1, 0.75, 0.0]], 'index': [0, 1, 2]}


def construct(tree, as_dict):
    import biogeme.biogeme as bio
    import biogeme.database as db
    from biogeme.exceptions import BiogemeError

    with core.scratch(TOML):
        d = db.Database('t', make_df(AUDIT_TABLE))
        d.panel('ID')
        e = build_tree(tree)
        try:
            bio.BIOGEME(d, {'log_like': e} if as_dict else e)
            return 'accepted', sorted(e.check_panel_trajectory())
        except BiogemeError as ex:
            return 'BiogemeError', sorted(e.check_panel_trajectory())
        except Exception as ex:  # noqa: BLE001
            return core.exc_kind(ex), sorted(e.check_panel_trajectory())


def check_audit(ctx, res, tree, dict_path=False):
    desc = {'tree': tree, 'dict_path': dict_path}
    iso_f.note(desc, 'BIOGEME.__init__ on panel data')
    verdict, reported = construct(tree, dict_path)
    exp_out = sorted(set(outside_vars(tree)))
    res.count({'audit': desc}, nontrivial=bool(exp_out))
    res.tally('audit:' + ('dict' if dict_path else 'single') + (':outside' if exp_out else ':clean'))
    if reported != exp_out:
        res.violate('check_panel_trajectory reports the variables outside every trajectory operator', desc, reported, exp_out, where='Expression.check_panel_trajectory')
    if exp_out and verdict != 'BiogemeError':
        res.violate(
            'on panel data a formula with a variable outside PanelLikelihoodTrajectory is refused with the library error', desc, verdict, 'BiogemeError',
            where=WHERE_DICT if dict_path else 'BIOGEME.__init__ on panel data: variables outside PanelLikelihoodTrajectory')
    if not exp_out and verdict == 'BiogemeError':
        # other rules may refuse the formula (they are C12's subject); recorded, not a failure of this property
        res.tally('audit:refused-for-another-reason')

    def cb(ans):
        if sorted(set(ans[0].get('outside', []))) != reported:
            res.diverge('check_panel_trajectory vs Panel.checkPanelTrajectory', desc, ans[0].get('outside'), reported)

    ctx.batch.add_many([{'op': 'audit', 'e': tree}], cb)


# ----------------------------------------------------------------------------- the check

CORPUS_TABLES = [
    # interleaved: id 7 in two runs
    {'rows': [[7, 0.5, 1.0], [7, 0.25, 0.0], [-3, 0.75, 0.5], [7, 0.5, 2.0]], 'index': [0, 1, 2, 3]},
    # contiguous, individuals not in id order, one individual with a single row, large and negative ids
    {'rows': [[7, 0.5, 1.0], [7, 0.25, 0.0], [7, 0.75, 0.5], [-3, 0.5, 2.0], [-3, 0.125, 1.0], [1000000, 0.25, 0.0], [2, 0.5, 1.5], [2, 0.5, -1.0]], 'index': [3, 1, 4, 0, 5, 9, 2, 6]},
    {'rows': [[5, 0.5, 1.0]], 'index': [0]},
    # half-integer ids
    {'rows': [[2.5, 0.5, 1.0], [2.5, 0.25, 0.0], [-0.5, 0.75, 0.5]], 'index': [2, 0, 1]},
]


def check_impl(ctx) -> Result:
    res = Result(rule=RULE, tolerance='map, acceptance, sample size, generator calls: exact; values: rel 1e-11 (oracle), rel 1e-12 (model vs code)')
    rng = ctx.rng
    for i, t in enumerate(CORPUS_TABLES):
        crng = core.rng_for('C09-corpus', i)
        for formula in ('traj', 'mc'):
            case = {'table': t, 'formula': formula, 'b': 0.25, 'q': 0.5, 'K': 2, 'R': 3, 'threads': 2}
            check_case(ctx, res, case, crng)
        res.tally('corpus')
    # known finding F-C09-1 (dict of formulas): concrete input first
    check_audit(ctx, res, {'k': 'bin', 'op': '+', 'l': {'k': 'traj', 'e': {'k': 'var', 'n': 'P'}}, 'r': {'k': 'var', 'n': 'X'}}, dict_path=True)
    check_audit(ctx, res, {'k': 'bin', 'op': '+', 'l': {'k': 'traj', 'e': {'k': 'var', 'n': 'P'}}, 'r': {'k': 'var', 'n': 'X'}}, dict_path=False)
    known = (WHERE_DICT, WHERE_BOOT_L)
    # one object used for several calls in a row, with an estimation (bootstrap) in between
    check_sequence(ctx, res, {'table': CORPUS_TABLES[1], 'b0': 0.25, 'np_seed': 2026, 'samples': 3, 'threads': 2})
    for _ in range(ctx.n(8, 150)):
        check_sequence(ctx, res, gen_seq_case(rng))
    for _ in range(ctx.n(120, 2500)):
        case = gen_case(rng)
        check_case(ctx, res, case, rng)
        if len([v for v in res.violations if v.get('where') not in known]) > 5:
            break
    for _ in range(ctx.n(60, 1200)):
        check_audit(ctx, res, gen_tree(rng, rng.randint(1, 4)), dict_path=False)
    for _ in range(ctx.n(5, 60)):
        check_audit(ctx, res, gen_tree(rng, rng.randint(1, 4)), dict_path=True)
    ctx.batch.flush()
    return res


class _NoBatch:
    def add_many(self, reqs, cb):
        pass


class _Ctx2:
    def __init__(self, rng):
        self.rng = rng
        self.batch = _NoBatch()


def search(ctx, res, broken):
    rng = core.rng_for('C09-search', ctx.seed)
    c2 = _Ctx2(rng)
    for _ in range(300):
        r2 = Result()
        check_case(c2, r2, gen_case(rng), rng)
        if r2.violations:
            res.violations.extend(r2.violations[:1])
            return


def replay_impl(ctx, obj):
    case = obj.get('case') or {}
    out = {'replayed': obj.get('what')}
    c2 = _Ctx2(core.rng_for('C09-replay', 0))
    r = Result()
    if 'np_seed' in case:
        check_sequence(c2, r, {k: v for k, v in case.items() if k != 'step'})
        if case.get('step') and case['step'] != 'sequence':
            r.violations = [v for v in r.violations if v['case'].get('step') == case['step']]
    elif 'tree' in case:
        check_audit(c2, r, case['tree'], dict_path=bool(case.get('dict_path')))
    elif 'formula' in case and 'table' in case:
        check_case(c2, r, {k: v for k, v in case.items() if k != 'reordered'}, c2.rng)
        if 'reordered' in case:
            check_values(c2, r, case, case['reordered'])
    elif 'table' in case:
        check_panel(c2, r, case['table'])
    else:
        out.update({'property_fails': False, 'note': 'nothing to replay (no concrete input in this file)'})
        return out
    out.update({'property_fails': bool(r.violations), 'violations': r.violations[:3]})
    return out


# ----------------------------------------------------------------------------- entry points (isolated)


def check(ctx) -> Result:
    """the streams run in a fresh interpreter: an engine that dies is reported with the case being evaluated"""
    return iso_f.run_check_isolated('props.c09', ctx, 'BIOGEME.calculate_likelihood / simulate on panel data')


def replay(ctx, obj):
    return iso_f.run_replay_isolated('props.c09', ctx, obj)
