"""C10 — simulated and numerical integrals equal the average / integral they denote.

Tie: correspondence (C).
* draw table: `Database.set_random_number_generators` / `generate_draws` with 1-3 draw variables of
  different types (user generators returning `100*g + n + r/1000`, deterministic native Halton
  types, and - through a harness-side recording wrapper of the catalogue entry - random native
  types), names in adversarial order; the returned table is compared entry by entry with the Lean
  model (`Integrals.generateDraws`: dispatch, shape test, stack, moveaxis) and with the statement
  (entry [n][r][k] = r-th draw of observation n of the k-th variable's own series); refusals
  (reserved name, unknown type, wrong shape) on both sides;
* Monte-Carlo: random integrands of the formula family (`IExpr`) evaluated by the real engine
  (`MonteCarlo(e).get_value_c`, `BIOGEME.simulate`) vs the model (`Integrals.monteCarlo`) and vs an
  independent mean computed in Python from the recorded series;
  the Monte-Carlo formula sits alone, next to a closed-form log likelihood (and a weight), or is
  the log likelihood itself;
* seeds: two `BIOGEME` objects built with the same non-zero seed (keyword or biogeme.toml) give
  bit-identical results (simulated values of every formula, log likelihood, draw table) whatever
  was drawn from the global generator in between, for every layout of the formulas (Monte-Carlo
  operator in the log likelihood, in another formula next to a closed-form log likelihood / weight,
  pure simulation) and 1-3 draw variables of random native types; the generator state after
  `BIOGEME.__init__` and the first series are compared with `Integrals.seedPolicy`;
* `Integrate` over a `RandomVariable` against the Gaussian closed-form family proved in
  Props/C10.lean (tolerance 1e-6); `Derive` against the model's symbolic derivative and against
  central finite differences of the real value of its argument;
* `Derive` in context: free and fixed parameters, a random variable under `Integrate`, 0-3 draw
  variables and 2-4 database columns (in adversarial order) in one formula, derivative w.r.t. a
  free parameter, a fixed parameter, a database column or the random variable, as
  `Derive(MonteCarlo(e))`, `MonteCarlo(Derive(e))` or plain; oracle = forward-mode derivative of an
  independent evaluator averaged over the variables' own series (+ proved closed forms for the
  `Integrate` term) and finite differences of the real value; the index written by
  `Derive.get_signature` and the value are compared with `Integrals.literalIndex` /
  `Integrals.deriveNamed`.
* round 3 - sessions on ONE database (`McSession`): BIOGEME objects created with a zero / non-zero seed (also twice with the same
  seed, also with an unknown draw type), evaluated through `simulate`, `calculate_likelihood` (scaled or not),
  `calculate_likelihood_and_derivatives`, `calculate_init_likelihood`; expressions evaluated in between through `get_value_c` (per
  observation / aggregated), `get_value_and_derivatives` (aggregated / per observation, gradient) and `create_function` (called
  twice at once, or created and called later with other operations in between - only operations that do not regenerate the
  database's draws: see C10.function_reads_own_series_partial); numbers taken from the global generator; `number_of_draws`
  assigned on an object (also under its deprecated name); formulas REFUSED inside the generation of their draws (unknown type or a
  generator returning the wrong shape, after a first variable was served; expression or BIOGEME constructor) between the
  preparation of a formula (`create_function` / `Expression.prepare`) and its evaluation with `prepare_ids=False`
  (C10.refused_generation_keeps_world, function_survives_refusals_partial); user types that are case variants / look-alikes of
  native names and of each other (`Uniform`, `normal_anti`, `g1`, `Normal_MLHS`, `UNIFORM_HALTON`) in every stream; 1-3 draw variables per formula of ALL 21 native types and the user
  ones, order of first appearance mostly not alphabetical.  Oracle from the statement: the value (and the gradient) is the mean
  over the draws of the integrand with every variable reading its own column of one of the tables `Database.generate_draws`
  returned for these variables (recorded by a harness-side wrapper of the instance's public method), objects with the same
  non-zero seed agree bit for bit.  Model: `McSession.run` on a describing instance says, per operation, which generator call
  (history of the global generator since its last seeding) produced every cell of `Database.theDraws` and of the table the
  engine received; the harness replays these histories on the real numpy generator with the real registered generators and
  compares `Database.theDraws` after every operation (exact), every value / gradient, `number_of_draws`, the refusals, and the
  values with `Integrals.monteCarlo` on the resolved tables;
* every native type under a non-zero seed (exhaustive over the catalogue): the registered generator is a function of the seeded
  state, two evaluations with the same seed agree bit for bit, and the value is the mean over one of the first tables the
  registered generator produces from `np.random.seed(seed)`;
* `Integrate` next to other elements: sum / product with a Monte-Carlo term, parameters and variables, two random variables in one
  formula (appearance order not alphabetical), `MonteCarlo(Integrate(...))` whose integrand contains a draw variable - against the
  proved Gaussian closed forms; through `get_value_c` and `BIOGEME.simulate`;
* `BIOGEME.estimate` on a quadratic simulated log likelihood: final log likelihood = the mean over the own series at the estimate.
"""

from __future__ import annotations

import json
import math

import numpy as np

from lib import core
from props import iso_f
from lib.core import Result, f2b, b2f

READY = True
MANIFEST = dict(
    text='Proof (Lean 4): entry [n][r][k] of the table returned by generate_draws is entry [n][r] of what the generator serving the declared type of the k-th name returned '
    '(C10.table_index), with the id manager\'s numbering each draw variable reads the series of its own type and two variables never share a column (own_series, distinct_columns); '
    'dispatch native -> user -> error, reserved names refused and no shadowing afterwards, wrong shape / unknown type refused at the first offending variable (generator_dispatch, '
    'reserved_refused, wrong_shape_refused, unknown_type_refused); the Monte-Carlo loop is the arithmetic mean over r of the integrand with every draw variable replaced by its own '
    'series\' r-th draw, end to end on the table produced by generate_draws (mc_mean, mc_own_series, mc_denotes_mean); the symbolic derivative of the formula family is the derivative, w.r.t. parameters and variables (derive_is_diff, derive_var_is_diff: '
    'HasDerivAt), also of a simulated quantity: the Monte-Carlo mean of the symbolic derivative is the derivative of the Monte-Carlo mean (derive_mc_is_diff, derive_mc_var_is_diff); the index Derive.get_signature sends to the engine denotes the named literal and no other in the global numbering free / fixed / random variables / draws / columns, a column being numbered after all four other groups (derive_index_names_literal, derive_index_variable), and the engine\'s derivative w.r.t. that literal id is the symbolic derivative w.r.t. the named column / parameter (derive_named_var_is_diff, derive_named_beta_is_diff); a non-zero seed determines the generator state (seeded_deterministic); Gaussian closed forms over R from Mathlib: int phi = 1, int x phi = 0, int x^2 phi = 1, '
    'int phi e^{ax} = e^{a^2/2}, int (c0+c1 x+c2 x^2) phi e^{ax} = e^{a^2/2}(c0+c1 a+c2(1+a^2)) (integral_phi, integral_x_phi, integral_x2_phi, integral_phi_exp, integral_x_phi_exp, integral_x2_phi_exp, integral_poly_phi_exp). '
    'Round 3 (Model/McSession.lean): generate_draws with the state of the global generator threaded through the loop - every column is what the generator of its variable\'s type returned when called for that variable '
    '(table_index_stateful, own_series_stateful); the list of names a call site hands to generate_draws is forced to be the sorted one by the drawId numbering, the order of appearance is refuted on a witness '
    '(call_site_order_forced, appearance_order_refuted); BIOGEME.__init__ = seed policy + three generation rounds, the engine receives the second one, built for the sorted names, and every evaluation through the object reads each variable\'s own series of that round '
    '(biogeme_engine_is_second_round, biogeme_reads_own_series, biogeme_mc_mean, biogeme_mc_denotes_mean: end to end over the reals); an expression evaluated with prepare_ids reads the table generated in that call (expr_reads_own_series); whatever happens afterwards on the database / generator / attribute number_of_draws an object keeps its formulas and engine table '
    '(engine_frozen, List Op fold); a function made by create_function reads its own series as long as nothing regenerates Database.theDraws between creation and call - PARTIAL, the unguarded statement is refuted on a witness: the calculator hands database.theDraws as it is at the time of the call '
    '(function_reads_own_series_partial, function_reads_later_table); a refused generation (unknown type / wrong shape at any variable; expression, function or constructor) leaves Database.theDraws and the objects as they were, so a prepared formula survives refused formulas (refused_generation_keeps_world, function_survives_refusals_partial); a user type that is not literally a native key is served by the user generator whatever its upper-cased form (lookalike_served_by_user); two constructors with the same non-zero seed build the same object in any two worlds, seed 0 continues from the current state (seeded_objects_identical, seed_zero_continues); '
    'the literal id of every group: free, fixed (after the free ones), random variable, draw variable = offset + drawId (derive_index_free, derive_index_fixed, derive_index_rv, derive_index_draw). '
    'Tie: real Database/BIOGEME/expressions on generated cases and sessions, every entry point.',
    design='DESIGN.md §5 C10',
    technique='Lean 4 theorems (core + Mathlib calculus / Gaussian measure) over an executable model of the draw table, dispatch, Monte-Carlo loop, literal numbering and derivative + differential correspondence',
    note='PARTIAL: the quadrature error of Integrate for general integrands is not proved (closed-form Gaussian family used as oracle, tolerance 1e-6); the distribution of native draws is C11\'s subject; engine operators modelled, not verified; '
    'a function made by Expression.create_function reads Database.theDraws at call time (own series only while nothing else regenerates the draws of that database: function_reads_own_series_partial).',
)

TRUSTED = [
    'cythonbiogeme operators MonteCarlo / bioDraws / Integrate (100-point Gauss-Hermite) / Derive: modelled (MonteCarlo, bioDraws, Derive) or compared with closed forms (Integrate), not verified',
    'numpy array construction and moveaxis (their result is compared entry by entry on every case)',
    'native generators are observed through a recording wrapper placed by the harness on the catalogue entry (random types) or re-invoked (deterministic Halton types)',
    'sessions: the tables the model describes are produced by replaying the described history (np.random.seed, np.random.uniform(size=k), the registered generators in the described order) on the real numpy generator; '
    'the engine table of a BIOGEME object is observed through the values of generated integrands only (the engine has no getter)',
    'Database.generate_draws of the session\'s database is wrapped on the instance to record the tables it returned (oracle of the session stream)',
]
ASSUMPTIONS = ['generators are deterministic functions of (sample size, number of draws) or observed through the recording wrapper',
               'nothing but the registered generators takes numbers from numpy\'s global generator during BIOGEME.__init__ and the evaluations (confirmed by the exact comparison of Database.theDraws in the session stream)',
               'McSession: a formula requires draws iff it has draw variables (a MonteCarlo operator without bioDraws is not modelled)']
RULE = (
    'N in 1..5 x R in {1,2,7,50} x 1-3 draw variables of different types (user G0-G2, native Halton, native random through the recorder) x integrand trees of depth <= 4; '
    'non-trivial = R >= 2 and (>= 2 draw variables or a non-constant integrand); seeds: layout of the formulas (Monte-Carlo formula alone / next to a closed-form '
    'log likelihood (+ weight) / as the log likelihood) x seed by keyword or file x 1-3 draw variables of random native types; Derive in context: 2-3 parameters (free / fixed) x '
    '0-1 random variable x 0-3 draw variables x 2-4 database columns x w.r.t. free parameter / fixed parameter / column / random variable x Derive(MonteCarlo) / MonteCarlo(Derive) / plain; '
    'sessions: 3-7 operations + one final simulate per object on one database of 1-4 rows: new BIOGEME (seed 0 / non-zero / the same formulas and seed again / unknown type; layout is-ll, single, next-to-ll, only; R in {1,2,3,4,8}) | evaluation of an object (simulate, calculate_likelihood, scaled, calculate_likelihood_and_derivatives) | '
    'expression (get_value_c, aggregated, get_value_and_derivatives aggregated / per observation, create_function) | create_function then calls separated by quiet operations | number_of_draws assigned | 1, 17 or 400 numbers consumed; 1-3 draw variables of the 21 native + 3 user types, appearance order reversed w.p. 0.6; non-trivial = a formula with >= 2 draw variables; '
    'native types under a seed: every catalogue entry x N in 1..4 x R in {1,2,3,8} x BIOGEME / get_value_c; Integrate next to other elements: sum | product | two random variables | MonteCarlo(Integrate) x get_value_c / BIOGEME; estimate: 2 draw variables of different deterministic types, R in {2,4,8}'
)

MATCHERS = {}

TOML = core.TOML_MINIMAL
COLS = ['X', 'Y']
NAME_POOL = ['xi10', 'xi2', 'xi_a', 'xi_b', 'a', 'Zeta', 'h', 'omega_d', 'B']
BETA_NAMES = ['b2', 'b10']  # sorted: b10, b2 -> positions differ from the order of appearance
DET_NATIVE = ['UNIFORM_HALTON2', 'UNIFORM_HALTON3', 'UNIFORM_HALTON5', 'UNIFORMSYM_HALTON2', 'UNIFORMSYM_HALTON3', 'UNIFORMSYM_HALTON5', 'NORMAL_HALTON2', 'NORMAL_HALTON3', 'NORMAL_HALTON5']
RND_NATIVE = ['UNIFORM', 'NORMAL', 'UNIFORMSYM', 'UNIFORM_MLHS', 'NORMAL_MLHS', 'NORMAL_ANTI', 'UNIFORM_ANTI', 'UNIFORM_MLHS_ANTI', 'UNIFORMSYM_ANTI', 'UNIFORMSYM_MLHS',
              'UNIFORMSYM_MLHS_ANTI', 'NORMAL_MLHS_ANTI']  # every native type is in one of the two lists (checked by `check_native_seed`)
# user types: plain names + look-alikes of native names and of each other (case variants): registered and declared consistently,
# each must be served by ITS registered generator
USER = ['G0', 'G1', 'G2', 'Uniform', 'normal_anti', 'g1', 'Normal_MLHS', 'UNIFORM_HALTON']


def user_generators():
    return {ty: (user_gen(g), f'user {g}') for g, ty in enumerate(USER)}


# ----------------------------------------------------------------------------- generators (real objects)


def user_value(g, n, r):
    return 100.0 * (g + 1) + n + r / 1000.0


def user_gen(g, shape='ok'):
    def gen(sample_size, number_of_draws):
        t = np.array([[user_value(g, n, r) for r in range(number_of_draws)] for n in range(sample_size)], dtype=float).reshape(sample_size, number_of_draws)
        if shape == 'transposed':
            return t.T.copy()
        if shape == 'extra':
            return np.concatenate([t, t[:, :1]], axis=1)
        return t

    return gen


def native_names():
    from biogeme.native_draws import native_random_number_generators

    return list(native_random_number_generators)


class Recorder:
    """harness-side wrapper of catalogue entries: records what every native generator returned"""

    def __init__(self, types):
        self.types = list(types)
        self.calls = []  # (type, N, R, table)
        self.saved = {}

    def __enter__(self):
        import biogeme.native_draws as nd

        for ty in self.types:
            tup = nd.native_random_number_generators[ty]
            self.saved[ty] = tup

            def wrap(ty=ty, tup=tup):
                def gen(sample_size, number_of_draws):
                    out = tup.generator(sample_size, number_of_draws)
                    self.calls.append((ty, int(sample_size), int(number_of_draws), np.array(out, dtype=float).tolist()))
                    return out

                return gen

            nd.native_random_number_generators[ty] = nd.RandomNumberGeneratorTuple(generator=wrap(), description=tup.description)
        return self

    def __exit__(self, *a):
        import biogeme.native_draws as nd

        for ty, tup in self.saved.items():
            nd.native_random_number_generators[ty] = tup
        return False

    def rounds(self, ty):
        return [c[3] for c in self.calls if c[0] == ty]


def fix_R(R, types):
    """antithetic native types produce 2*(R//2) draws: they are only usable with an even R (C11's subject)"""
    return R + 1 if R % 2 and any(t.endswith('_ANTI') for t in types) else R


def make_db(N, rows):
    import pandas as pd
    import biogeme.database as db

    df = pd.DataFrame({c: [float(r[j]) for r in rows] for j, c in enumerate(COLS)})
    return db.Database('t', df)


def series_of(ty, N, R, rec=None, call=0):
    """the table the generator registered for `ty` produces for (N, R); for a random native type, the
    `call`-th table its recorded generator returned"""
    if ty in USER:
        return user_gen(USER.index(ty))(N, R).tolist()
    if ty in DET_NATIVE:
        from biogeme.native_draws import native_random_number_generators

        return np.array(native_random_number_generators[ty].generator(N, R), dtype=float).tolist()
    rounds = rec.rounds(ty)
    return rounds[call] if call < len(rounds) else None


def series_for_names(order, types, N, R, rec, round_=0):
    """one generation round asks the generators in the order of `order`: the j-th variable of a random
    type receives the j-th table of that round"""
    out = {}
    for pos, name in enumerate(order):
        ty = types[name]
        same = [n for n in order if types[n] == ty]
        out[name] = series_of(ty, N, R, rec, round_ * len(same) + same.index(name))
    return out


# ----------------------------------------------------------------------------- A. the draw table


def gen_vars(rng, allow_random=True):
    K = rng.choice([1, 2, 2, 3, 3])
    names = rng.sample(NAME_POOL, K)
    pool = USER + DET_NATIVE + (RND_NATIVE if allow_random else [])
    types = {}
    for n in names:
        types[n] = rng.choice(USER + USER + pool)
    return names, types


def check_table(ctx, res, rng):
    N = rng.randint(1, 5)
    R = rng.choice([1, 2, 7, 50])
    names, types = gen_vars(rng)
    R = fix_R(R, types.values())
    order = list(names)
    rng.shuffle(order)
    case = {'N': N, 'R': R, 'names': order, 'types': types}
    iso_f.note(case, 'Database.generate_draws')
    d = make_db(N, [[0.0, 0.0]] * N)
    d.set_random_number_generators(user_generators())
    rnd = sorted({t for t in types.values() if t in RND_NATIVE})
    with Recorder(rnd) as rec:
        try:
            table = np.asarray(d.generate_draws(types, order, R), dtype=float)
        except Exception as e:  # noqa: BLE001
            res.violate(f'generate_draws raises {type(e).__name__}: {str(e)[:120]} on valid types', case, core.exc_kind(e), 'a table', where='Database.generate_draws')
            return
    res.count({'table': case}, nontrivial=R >= 2 and len(order) >= 2)
    res.tally(f'K={len(order)}')
    for t in types.values():
        res.tally('type:' + ('user' if t in USER else 'native-det' if t in DET_NATIVE else 'native-random'))
    ser = series_for_names(order, types, N, R, rec)
    # oracle from the statement
    if table.shape != (N, R, len(order)):
        res.violate('draw table has dimensions (observations, draws, variables)', case, list(table.shape), [N, R, len(order)], where='Database.generate_draws')
        return
    for k, name in enumerate(order):
        s = np.asarray(ser[name], dtype=float)
        if s.shape != (N, R) or not np.array_equal(table[:, :, k], s):
            res.violate(f'column {k} of the draw table holds the series of variable {name} (type {types[name]})', case, table[:, :, k].tolist(), s.tolist(), where='Database.generate_draws')
            return
    if not np.array_equal(np.asarray(d.theDraws, dtype=float), table):
        res.violate('Database.theDraws is the table returned by generate_draws', case, np.asarray(d.theDraws).tolist(), table.tolist(), where='Database.generate_draws')

    # the model receives, per variable, what the generator of its type returned for it (a random generator
    # returns a different table at each call: the pair (type, call) is the key)
    def key(name):
        return types[name] if types[name] not in RND_NATIVE else f'{types[name]}#{[n for n in order if types[n] == types[name]].index(name)}'

    nat = native_names()
    req = {
        'op': 'gen_draws', 'native': nat + [key(n) for n in order if types[n] in RND_NATIVE], 'user': USER,
        'types': [[n, key(n)] for n in order], 'names': order, 'N': N, 'R': R,
        'outputs': [[key(n), [[f2b(v) for v in row] for row in ser[n]]] for n in order],
    }

    def cb(ans):
        a = ans[0]
        if 'table' not in a:
            res.diverge('generate_draws vs Integrals.generateDraws', case, a, 'a table')
            return
        m = np.array([[[b2f(v) for v in r] for r in mm] for mm in a['table']], dtype=float).reshape(N, R, len(order))
        if not np.array_equal(m, table):
            res.diverge('draw table vs Integrals.generateDraws (entry by entry)', case, m.tolist(), table.tolist())

    ctx.batch.add_many([req], cb)


def check_refusals(ctx, res, rng):
    """reserved names, unknown types, wrong shapes - both sides"""
    from biogeme.exceptions import BiogemeError

    N = rng.randint(1, 4)
    R = rng.choice([2, 3, 7])
    d = make_db(N, [[0.0, 0.0]] * N)
    kind = rng.choice(['reserved', 'unknown', 'shape-transposed', 'shape-extra', 'ok-tuple'])
    nat = native_names()
    case = {'kind': kind, 'N': N, 'R': R}
    res.count({'refusal': case}, nontrivial=True)
    res.tally('refusal:' + kind)
    if kind == 'reserved':
        key = rng.choice(nat)
        rng_names = ['G0', key] if rng.random() < 0.5 else [key]
        case['rng'] = rng_names
        try:
            d.set_random_number_generators({k: (user_gen(0), 'x') for k in rng_names})
            got = 'accepted'
        except ValueError:
            got = 'ValueError'
        except Exception as e:  # noqa: BLE001
            got = core.exc_kind(e)
        if got != 'ValueError':
            res.violate('a reserved (native) draw type name is refused for a user generator', case, got, 'ValueError', where='Database.set_random_number_generators')
        if d.userRandomNumberGenerators and got == 'ValueError':
            res.violate('a refused dictionary of generators is not installed', case, list(d.userRandomNumberGenerators), [], where='Database.set_random_number_generators')

        def cb(ans):
            if ans[0].get('err') != 'ValueError:reserved':
                res.diverge('set_random_number_generators vs Integrals.setUserGenerators', case, ans[0], got)

        ctx.batch.add_many([{'op': 'set_user', 'native': nat, 'rng': rng_names}], cb)
        return
    if kind == 'ok-tuple':
        # plain tuples and RandomNumberGeneratorTuple are both accepted; a later call replaces the dictionary
        from biogeme.native_draws import RandomNumberGeneratorTuple

        d.set_random_number_generators({'G0': (user_gen(0), 'old')})
        d.set_random_number_generators({'G1': RandomNumberGeneratorTuple(generator=user_gen(1), description='new')})
        try:
            d.generate_draws({'v': 'G0'}, ['v'], R)
            got = 'accepted'
        except BiogemeError:
            got = 'BiogemeError'
        if got != 'BiogemeError':
            res.violate('the dictionary of user generators is replaced by a later call (an old type is unknown)', case, got, 'BiogemeError', where='Database.set_random_number_generators')
        t = np.asarray(d.generate_draws({'v': 'G1'}, ['v'], R))
        if not np.array_equal(t[:, :, 0], np.asarray(user_gen(1)(N, R))):
            res.violate('the generator registered last is the one used', case, t[:, :, 0].tolist(), user_gen(1)(N, R).tolist(), where='Database.generate_draws')
        return
    names = ['v1', 'v0', 'v2'][: rng.randint(1, 3)]
    bad = rng.randrange(len(names))
    types = {n: rng.choice(['G0', 'G1', 'UNIFORM_HALTON2']) for n in names}
    gens = {f'G{g}': (user_gen(g), f'user {g}') for g in range(2)}
    if kind == 'unknown':
        types[names[bad]] = rng.choice(['G7', 'NORMALL', 'uniform', ''])
        expect = 'BiogemeError:unknown-type'
    else:
        shape = 'transposed' if kind == 'shape-transposed' else 'extra'
        if shape == 'transposed' and N == R:
            shape = 'extra'
        gens['GBAD'] = (user_gen(2, shape), 'bad shape')
        types[names[bad]] = 'GBAD'
        expect = 'BiogemeError:wrong-shape'
    case.update({'names': names, 'types': types})
    d.set_random_number_generators(gens)
    try:
        d.generate_draws(types, names, R)
        got = 'accepted'
    except BiogemeError:
        got = 'BiogemeError'
    except Exception as e:  # noqa: BLE001
        got = core.exc_kind(e)
    if got != 'BiogemeError':
        res.violate(f'{"an unknown draw type" if kind == "unknown" else "a generator returning the wrong shape"} is refused with the library error', case, got, 'BiogemeError', where='Database.generate_draws')
    outs = {}
    for t in set(types.values()):
        if t == 'GBAD':
            outs[t] = np.asarray(gens['GBAD'][0](N, R)).tolist()
        elif t in USER or t in DET_NATIVE:
            outs[t] = series_of(t, N, R)
    req = {
        'op': 'gen_draws', 'native': nat, 'user': list(gens), 'types': [[n, t] for n, t in types.items()], 'names': names, 'N': N, 'R': R,
        'outputs': [[t, [[f2b(v) for v in row] for row in tbl]] for t, tbl in outs.items()],
    }

    def cb(ans):
        if ans[0].get('err') != expect:
            res.diverge('refusal of generate_draws vs Integrals.generateDraws', case, ans[0], expect)

    ctx.batch.add_many([req], cb)


# ----------------------------------------------------------------------------- B. integrands


def lit(rng, choices):
    m, e = rng.choice(choices)
    return {'k': 'num', 'm': abs(m), 'neg': m < 0, 'e': e}


def gen_tree(rng, depth, draws, nb=2, nv=2, in_exp=False):
    leaves = [{'k': 'beta', 'i': i} for i in range(nb)] + [{'k': 'var', 'j': j} for j in range(nv)] + [{'k': 'draw', 'n': n} for n in draws] * 2
    if depth == 0 or rng.random() < 0.2:
        return rng.choice(leaves + [lit(rng, [(5, 1), (25, 2), (-15, 1), (2, 0), (125, 3)])])
    k = rng.choice(['add', 'sub', 'mul', 'mul', 'exp'])
    if k == 'exp':
        if in_exp:
            k = 'add'
        else:
            # keep the argument small: exp(0.001 * t)
            return {'k': 'exp', 'a': {'k': 'mul', 'a': {'k': 'num', 'm': 1, 'neg': rng.random() < 0.3, 'e': 3}, 'b': gen_tree(rng, min(depth - 1, 1), draws, nb, nv, True)}}
    return {'k': k, 'a': gen_tree(rng, depth - 1, draws, nb, nv, in_exp), 'b': gen_tree(rng, depth - 1, draws, nb, nv, in_exp)}


def tree_draws(t):
    if t['k'] == 'draw':
        return {t['n']}
    out = set()
    for c in ('a', 'b'):
        if c in t:
            out |= tree_draws(t[c])
    return out


def tree_depth(t):
    return 1 + max([tree_depth(t[c]) for c in ('a', 'b') if c in t] or [0])


def build(t, types, spec=None):
    """`spec` (optional): names / values / status of the parameters by position and names of the data
    columns by position ({'bnames', 'bvals', 'bstatus', 'vnames'})"""
    from biogeme.expressions import Beta, Variable, Numeric, exp, bioDraws

    k = t['k']
    if k == 'num':
        v = float(f"{t['m']}e-{t['e']}")
        return Numeric(-v if t['neg'] else v)
    if k == 'nat':
        return Numeric(t['v'])
    if k == 'beta':
        if spec:
            return Beta(spec['bnames'][t['i']], spec['bvals'][t['i']], None, None, spec['bstatus'][t['i']])
        return Beta(BETA_NAMES[t['i']], 0.0, None, None, 0)
    if k == 'var':
        return Variable(spec['vnames'][t['j']] if spec else COLS[t['j']])
    if k == 'draw':
        return bioDraws(t['n'], types[t['n']])
    if k == 'exp':
        return exp(build(t['a'], types, spec))
    a, b = build(t['a'], types, spec), build(t['b'], types, spec)
    return a + b if k == 'add' else a - b if k == 'sub' else a * b


def py_eval(t, betas, row, xi):
    """independent evaluator of the integrand (plain Python floats)"""
    k = t['k']
    if k == 'num':
        v = float(f"{t['m']}e-{t['e']}")
        return -v if t['neg'] else v
    if k == 'nat':
        return float(t['v'])
    if k == 'beta':
        return betas[t['i']]
    if k == 'var':
        return row[t['j']]
    if k == 'draw':
        return xi[t['n']]
    if k == 'exp':
        try:
            return math.exp(py_eval(t['a'], betas, row, xi))
        except OverflowError:
            return math.inf
    a, b = py_eval(t['a'], betas, row, xi), py_eval(t['b'], betas, row, xi)
    return a + b if k == 'add' else a - b if k == 'sub' else a * b


def beta_vector(betas):
    """model positions = order of BETA_NAMES; the real code wants a dict by name"""
    return {BETA_NAMES[i]: betas[i] for i in range(len(betas))}


def gen_mc_case(rng, allow_random=True):
    N = rng.randint(1, 5)
    R = rng.choice([1, 2, 7, 50])
    names, types = gen_vars(rng, allow_random)
    tree = gen_tree(rng, rng.randint(1, 4), names)
    used = sorted(tree_draws(tree))
    for n in names:
        # most formulas use all their draw variables (several types in one formula)
        if n not in used and (not used or rng.random() < 0.85):
            tree = {'k': rng.choice(['add', 'sub']), 'a': tree, 'b': {'k': 'mul', 'a': {'k': 'draw', 'n': n}, 'b': lit(rng, [(5, 1), (25, 2), (-15, 1)])}}
            used = sorted(set(used) | {n})
    R = fix_R(R, [types[n] for n in used])
    return {
        'N': N, 'R': R, 'types': {n: types[n] for n in used}, 'tree': tree,
        'betas': [rng.randint(-8, 8) / 8.0, rng.randint(-8, 8) / 16.0],
        'rows': [[rng.randint(-8, 8) / 4.0, rng.randint(-4, 4) / 2.0] for _ in range(N)],
        'via': rng.choice(['get_value_c', 'get_value_c', 'biogeme']),
        # (via biogeme) where the Monte-Carlo formula sits among the formulas of the BIOGEME object, and the seed
        'layout': rng.choice(LAYOUTS), 'll_key': rng.choice(['log_like', 'loglike']), 'seed': rng.choice([0, 0, rng.randint(1, 10**6)]),
    }


LAYOUTS = ['only', 'next-to-ll', 'next-to-ll-weight', 'is-ll', 'single']


def closed_ll():
    """a closed-form log likelihood (no draws): -(b2 * X - Y)^2"""
    from biogeme.expressions import Beta, Variable

    u = Beta(BETA_NAMES[0], 0.0, None, None, 0) * Variable('X') - Variable('Y')
    return -(u * u)


def formulas_for(layout, expr, ll_key='log_like'):
    """the formulas given to BIOGEME and the key under which `expr` is simulated"""
    from biogeme.expressions import Numeric

    if layout == 'single':
        return expr, 'log_like'
    if layout == 'is-ll':
        return {ll_key: expr}, ll_key
    if layout == 'next-to-ll':
        return {ll_key: closed_ll(), 'v': expr}, 'v'
    if layout == 'next-to-ll-weight':
        return {'v': expr, 'weight': Numeric(1.0), ll_key: closed_ll()}, 'v'
    return {'v': expr}, 'v'


def check_mc(ctx, res, case):
    from biogeme.expressions import MonteCarlo
    import biogeme.biogeme as bio

    N, R, types, tree = case['N'], case['R'], case['types'], case['tree']
    iso_f.note(case, 'MonteCarlo')
    declared = sorted(types)  # any order: the id manager sorts
    d = make_db(N, case['rows'])
    d.set_random_number_generators(user_generators())
    rnd = sorted({t for t in types.values() if t in RND_NATIVE})
    expr = MonteCarlo(build(tree, types))
    bdict = beta_vector(case['betas'])
    with Recorder(rnd) as rec:
        try:
            if case['via'] == 'get_value_c':
                vals = [float(v) for v in expr.get_value_c(database=d, betas=bdict, number_of_draws=R, prepare_ids=True)]
            else:
                with core.scratch(TOML):
                    formulas, key = formulas_for(case.get('layout', 'only'), expr, case.get('ll_key', 'log_like'))
                    B = bio.BIOGEME(d, formulas, number_of_draws=R, seed=case.get('seed', 0))
                    sim = B.simulate({n: bdict[n] for n in B.free_beta_names})
                    vals = [float(v) for v in sim[key].values]
        except Exception as e:  # noqa: BLE001
            res.violate(f'Monte-Carlo evaluation raises {type(e).__name__}: {str(e)[:150]}', case, core.exc_kind(e), 'values', where='MonteCarlo')
            return
    judge_mc(ctx, res, case, vals, rec)


def judge_mc(ctx, res, case, vals, rec, where='MonteCarlo'):
    """oracle of the first sentence of the property on the values the real code returned + the model"""
    N, R, types, tree = case['N'], case['R'], case['types'], case['tree']
    declared = sorted(types)
    rnd = sorted({t for t in types.values() if t in RND_NATIVE})
    nontrivial = R >= 2 and (len(types) >= 2 or tree_depth(tree) >= 2)
    res.count({'mc': case}, nontrivial=nontrivial)
    res.tally(f'mc:{case["via"]}' + (':' + case.get('layout', 'only') if case['via'] == 'biogeme' else ''))
    res.tally(f'mc:R={R}')
    res.tally(f'mc:vars={len(types)}')
    n_rounds = max([len(rec.rounds(t)) // max(1, sum(1 for n in types if types[n] == t)) for t in rnd] or [1])
    # oracle from the statement, for every generation round that the code performed: the value must be the
    # mean over r of the integrand with every draw variable replaced by its own series (all of one round)
    expected_by_round = []
    tables = []
    names_sorted = sorted(types)
    for rd in range(n_rounds):
        ser = series_for_names(names_sorted, types, N, R, rec, rd)
        if any(s is None for s in ser.values()):
            continue
        exp_vals = []
        for n in range(N):
            acc = [py_eval(tree, case['betas'], case['rows'][n], {nm: ser[nm][n][r] for nm in types}) for r in range(R)]
            exp_vals.append(math.fsum(acc) / R)
        expected_by_round.append(exp_vals)
        tables.append([[[ser[nm][n][r] for nm in names_sorted] for r in range(R)] for n in range(N)])
    def ok(a, b):
        return len(a) == len(b) and all(core.close(x, y, rel=1e-11, abs_=1e-11) for x, y in zip(a, b))
    hit = [i for i, e in enumerate(expected_by_round) if ok(vals, e)]
    if not hit:
        res.violate(
            'Monte-Carlo value = arithmetic mean over the draws of the integrand, every draw variable replaced by its own series', case, vals,
            expected_by_round[0] if expected_by_round else None, where=where)
        return
    table = tables[hit[0]]
    req = {
        'op': 'mc', 'declared': declared[::-1], 'table': [[[f2b(v) for v in r] for r in m] for m in table],
        'betas': [f2b(v) for v in case['betas']], 'rows': [[f2b(v) for v in r] for r in case['rows']], 'R': R, 'e': tree,
    }

    def cb(ans):
        mv = [b2f(v) for v in ans[0].get('values', [])]
        if not ok(mv, vals):
            res.diverge('MonteCarlo value vs Integrals.monteCarlo', case, mv, vals)

    ctx.batch.add_many([req], cb)


# ----------------------------------------------------------------------------- C. seeds


def gen_seed_case(rng):
    N = rng.randint(1, 4)
    R = rng.choice([2, 7, 50])
    K = rng.choice([1, 1, 2, 3])
    names = rng.sample(NAME_POOL, K)
    # at least one random native type; the others random native (mostly), user or deterministic native
    types = {n: rng.choice(RND_NATIVE + RND_NATIVE + USER + DET_NATIVE) for n in names}
    types[rng.choice(names)] = rng.choice(RND_NATIVE)
    tree = gen_tree(rng, rng.randint(1, 3), names)
    used = tree_draws(tree)
    for n in names:
        if n not in used:
            tree = {'k': rng.choice(['add', 'sub']), 'a': tree, 'b': {'k': 'mul', 'a': {'k': 'draw', 'n': n}, 'b': lit(rng, [(5, 1), (25, 2), (-15, 1)])}}
    return {
        'N': N, 'R': fix_R(R, types.values()), 'seed': rng.randint(1, 10**6), 'types': types, 'tree': tree,
        'betas': [rng.randint(-8, 8) / 8.0, rng.randint(-8, 8) / 16.0],
        'rows': [[rng.randint(-8, 8) / 4.0, rng.randint(-4, 4) / 2.0] for _ in range(N)],
        'via': 'biogeme', 'seed_via': rng.choice(['kwarg', 'toml']), 'layout': rng.choice(LAYOUTS), 'll_key': rng.choice(['log_like', 'loglike']),
        # how many numbers something else takes from the global generator between the two runs
        'between': rng.choice([0, 1, 17, 400]),
    }


def run_seeded(case, s):
    """one complete run: a new database and a new BIOGEME object with seed `s`; everything it returns"""
    import biogeme.biogeme as bio
    from biogeme.expressions import MonteCarlo

    N, R, types = case['N'], case['R'], case['types']
    toml = TOML.replace('seed = 0', f'seed = {s}') if case['seed_via'] == 'toml' else TOML
    rnd = sorted({t for t in types.values() if t in RND_NATIVE})
    bdict = beta_vector(case['betas'])
    with core.scratch(toml):
        d = make_db(N, case['rows'])
        d.set_random_number_generators(user_generators())
        formulas, key = formulas_for(case['layout'], MonteCarlo(build(case['tree'], types)), case['ll_key'])
        with Recorder(rnd) as rec:
            B = bio.BIOGEME(d, formulas, number_of_draws=R, seed=s) if case['seed_via'] == 'kwarg' else bio.BIOGEME(d, formulas, number_of_draws=R)
            free = list(B.free_beta_names)
            sim = B.simulate({n: bdict[n] for n in free})
            out = {'simulate': {c: [f2b(float(v)) for v in sim[c].values] for c in sorted(sim.columns)}}
            if case['layout'] != 'only':
                out['calculate_likelihood'] = f2b(float(B.calculate_likelihood([bdict[n] for n in free], scaled=False)))
            out['theDraws'] = [f2b(float(v)) for v in np.asarray(d.theDraws, dtype=float).reshape(-1)]
    return out, [float(v) for v in sim[key].values], rec


def check_seed(ctx, res, case):
    """two runs with the same non-zero seed are identical, whatever happened to the global generator in between"""
    iso_f.note(case, 'BIOGEME seed')
    seed = case['seed']
    a, vals_a, rec_a = run_seeded(case, seed)
    if case['between']:
        np.random.uniform(size=case['between'])
    b, vals_b, rec_b = run_seeded(case, seed)
    res.tally('seed:' + case['layout'])
    for t in sorted(set(case['types'].values())):
        if t in RND_NATIVE:
            res.tally('seed:' + t)
    for what in a:
        if a[what] != b.get(what):
            unb = (lambda x: {k: [b2f(v) for v in vs] for k, vs in x.items()} if isinstance(x, dict) else [b2f(v) for v in x] if isinstance(x, list) else b2f(x))
            res.violate(f'with a non-zero seed the results are reproducible (bit for bit): {what} of two runs with seed {seed}', case, unb(b.get(what)), unb(a[what]), where='BIOGEME seed')
            return
    # the value itself (first sentence of the property), on the series recorded during the first run
    judge_mc(ctx, res, case, vals_a, rec_a, where='BIOGEME seed')
    # model: the generator state after the constructor's first statement is a function of the seed alone, so the first
    # series asked from a random native generator is what that generator returns from the freshly seeded state
    first = rec_a.calls[0] if rec_a.calls else None
    if first is not None:
        ty, n_, r_, table = first
        np.random.seed(seed)
        ref = np.asarray(rec_a.saved[ty].generator(n_, r_), dtype=float).tolist()

        def cb(ans):
            if ans[0].get('state') != f'fresh:{seed}':
                res.diverge('Integrals.seedPolicy: a non-zero seed re-initialises the generator', case, ans[0], f'fresh:{seed}')
            elif ref != table:
                res.diverge(f'first series of type {ty} vs the generator run from the state Integrals.seedPolicy gives (fresh {seed})', case, ref, table)

        ctx.batch.add_many([{'op': 'seed_policy', 'seed': seed}], cb)


def rng_state():
    st = np.random.get_state()
    return [st[0], [int(v) for v in st[1]], int(st[2]), int(st[3]), float(st[4])]


def check_seed_state(ctx, res, rng):
    """`BIOGEME.__init__` on formulas without draws: the global generator is re-initialised iff the seed is not 0"""
    import biogeme.biogeme as bio

    N = rng.randint(1, 3)
    seed = rng.choice([0, rng.randint(1, 10**6), rng.randint(1, 10**6)])
    case = {'N': N, 'seed': seed, 'seed_via': rng.choice(['kwarg', 'toml']), 'layout': rng.choice(['single', 'is-ll', 'next-to-ll']),
            'rows': [[rng.randint(-8, 8) / 4.0, rng.randint(-4, 4) / 2.0] for _ in range(N)], 'before': rng.choice([0, 3, 50])}
    iso_f.note(case, 'BIOGEME seed (state)')
    np.random.seed(rng.randint(1, 10**6))
    if case['before']:
        np.random.uniform(size=case['before'])
    st0 = rng_state()
    toml = TOML.replace('seed = 0', f'seed = {seed}') if case['seed_via'] == 'toml' else TOML
    with core.scratch(toml):
        d = make_db(N, case['rows'])
        formulas, _ = formulas_for(case['layout'], closed_ll())
        if case['layout'] == 'next-to-ll':
            formulas['v'] = closed_ll() * 2
        B = bio.BIOGEME(d, formulas, seed=seed) if case['seed_via'] == 'kwarg' else bio.BIOGEME(d, formulas)
        st1 = rng_state()
    res.count({'seed-state': case}, nontrivial=True)
    res.tally('seed-state:' + ('0' if seed == 0 else 'non-zero'))
    fresh = None
    if seed:
        np.random.seed(seed)
        fresh = rng_state()

    def cb(ans):
        want = {'current': st0, f'fresh:{seed}': fresh}.get(ans[0].get('state'))
        if want is None or want != st1:
            res.diverge('generator state after BIOGEME.__init__ vs Integrals.seedPolicy', case, ans[0], 'fresh' if st1 == fresh else 'current' if st1 == st0 else 'another state')

    ctx.batch.add_many([{'op': 'seed_policy', 'seed': seed}], cb)


# ----------------------------------------------------------------------------- D. numerical integration


def check_integrate(ctx, res, rng):
    from biogeme.expressions import Beta, Variable, exp, Integrate, RandomVariable, Numeric

    N = rng.randint(1, 4)
    rows = [[rng.randint(-8, 8) / 4.0, rng.randint(-4, 4) / 2.0] for _ in range(N)]
    bval = rng.randint(-8, 8) / 8.0
    c = [rng.randint(-4, 4) / 2.0 for _ in range(3)]
    shape = rng.choice(['phi', 'x', 'x2', 'exp', 'poly-exp', 'poly-exp'])
    if shape == 'phi':
        c, use_a = [1.0, 0.0, 0.0], False
    elif shape == 'x':
        c, use_a = [0.0, 1.0, 0.0], False
    elif shape == 'x2':
        c, use_a = [0.0, 0.0, 1.0], False
    elif shape == 'exp':
        c, use_a = [1.0, 0.0, 0.0], True
    else:
        use_a = True
    case = {'N': N, 'rows': rows, 'b': bval, 'c': c, 'shape': shape}
    iso_f.note(case, 'Integrate')
    d = make_db(N, rows)
    om = RandomVariable('omega')
    b = Beta('b', 0.0, None, None, 0)
    phi = exp(-(om * om) / 2) / Numeric(math.sqrt(2 * math.pi))
    a_expr = b * Variable('X')
    g = Numeric(c[0]) + Numeric(c[1]) * om + Numeric(c[2]) * om * om
    integrand = phi * g * exp(a_expr * om) if use_a else phi * g
    try:
        vals = [float(v) for v in Integrate(integrand, 'omega').get_value_c(database=d, betas={'b': bval}, prepare_ids=True)]
    except Exception as e:  # noqa: BLE001
        res.violate(f'Integrate raises {type(e).__name__}: {str(e)[:150]}', case, core.exc_kind(e), 'values', where='Integrate')
        return
    res.count({'integrate': case}, nontrivial=True)
    res.tally('integrate:' + shape)
    exp_vals = []
    for r in rows:
        a = bval * r[0] if use_a else 0.0
        # closed form proved in Props/C10.lean (integral_poly_phi_exp): int phi e^{ax} (c0 + c1 x + c2 x^2) dx
        exp_vals.append(math.exp(a * a / 2) * (c[0] + c[1] * a + c[2] * (1 + a * a)))
    if len(vals) != N or not all(abs(x - y) <= 1e-6 * max(1.0, abs(y)) for x, y in zip(vals, exp_vals)):
        res.violate('Integrate = integral over the real line of its argument (Gaussian closed form)', case, vals, exp_vals, where='Integrate')


# ----------------------------------------------------------------------------- E. derivative operator


def check_derive(ctx, res, rng):
    from biogeme.expressions import Derive

    N = rng.randint(1, 4)
    tree = gen_tree(rng, rng.randint(1, 4), [], 2, 2)
    if not (tree_has(tree, 'beta') or tree_has(tree, 'var')):
        tree = {'k': 'mul', 'a': tree, 'b': {'k': 'beta', 'i': 0}}
    rows = [[rng.randint(-8, 8) / 4.0, rng.randint(-4, 4) / 2.0] for _ in range(N)]
    betas = [rng.randint(-8, 8) / 8.0, rng.randint(-8, 8) / 16.0]
    wrt = rng.choice(['beta', 'beta', 'var'])
    idx = rng.randrange(2)
    name = BETA_NAMES[idx] if wrt == 'beta' else COLS[idx]
    case = {'N': N, 'tree': tree, 'rows': rows, 'betas': betas, 'wrt': wrt, 'name': name}
    iso_f.note(case, 'Derive')
    d = make_db(N, rows)
    e = build(tree, {})
    bdict = beta_vector(betas)
    # both parameters must exist in the formula for the id manager: add 0 * (b10 + b2)
    from biogeme.expressions import Beta

    e_full = e + 0 * (Beta(BETA_NAMES[0], 0.0, None, None, 0) + Beta(BETA_NAMES[1], 0.0, None, None, 0))
    try:
        vals = [float(v) for v in Derive(e_full, name).get_value_c(database=d, betas=bdict, prepare_ids=True)]
    except Exception as ex:  # noqa: BLE001
        res.violate(f'Derive raises {type(ex).__name__}: {str(ex)[:150]}', case, core.exc_kind(ex), 'values', where='Derive')
        return
    res.count({'derive': case}, nontrivial=tree_depth(tree) >= 2)
    res.tally('derive:' + wrt)
    # oracle from the statement: central finite differences of the real value of the argument
    h = 1e-5
    fd = []
    for sgn in (+1, -1):
        if wrt == 'beta':
            bb = dict(bdict)
            bb[name] = bb[name] + sgn * h
            fd.append([float(v) for v in e_full.get_value_c(database=d, betas=bb, prepare_ids=True)])
        else:
            rows2 = [list(r) for r in rows]
            for r in rows2:
                r[idx] += sgn * h
            fd.append([float(v) for v in e_full.get_value_c(database=make_db(N, rows2), betas=bdict, prepare_ids=True)])
    fdv = [(p - m) / (2 * h) for p, m in zip(*fd)]
    if not all(abs(x - y) <= 1e-5 * max(1.0, abs(y), abs(x)) for x, y in zip(vals, fdv)):
        res.violate(f'Derive(e, {name}) = partial derivative of e (central finite differences of the real value)', case, vals, fdv, where='Derive')

    req = {'op': 'derive', 'betas': [f2b(v) for v in betas], 'rows': [[f2b(v) for v in r] for r in rows], 'e': tree, 'wrt': wrt, 'idx': idx}

    def cb(ans):
        mv = [b2f(v) for v in ans[0].get('values', [])]
        if len(mv) != len(vals) or not all(core.close(x, y, rel=1e-11, abs_=1e-12) for x, y in zip(mv, vals)):
            res.diverge('Derive vs Integrals.diffBeta / diffVar', case, mv, vals)

    ctx.batch.add_many([req], cb)


# ----------------------------------------------------------------------------- F. the derivative operator in context

BETA_POOL = ['b2', 'b10', 'B_x', 'c_fix', 'zz', 'Alpha']  # disjoint from NAME_POOL, COL_POOL, RV_POOL
COL_POOL = ['X', 'Y', 'Z', 'W10', 'W2']
RV_POOL = ['omega', 'eps_r', 'Aa_rv']
DET_TYPES = USER + DET_NATIVE


def py_dual(t, betas, row, xi, wrt):
    """independent forward-mode derivative of the integrand: (value, derivative, bound on |value|, bound on |derivative|);
    the bounds are the same expressions evaluated on absolute values (a forward error bound for any evaluation order)"""
    k = t['k']
    if k == 'num':
        v = float(f"{t['m']}e-{t['e']}")
        return (-v if t['neg'] else v), 0.0, v, 0.0
    if k == 'nat':
        return float(t['v']), 0.0, float(t['v']), 0.0
    if k == 'beta':
        on = 1.0 if wrt == ('beta', t['i']) else 0.0
        return betas[t['i']], on, abs(betas[t['i']]), on
    if k == 'var':
        on = 1.0 if wrt == ('var', t['j']) else 0.0
        return row[t['j']], on, abs(row[t['j']]), on
    if k == 'draw':
        return xi[t['n']], 0.0, abs(xi[t['n']]), 0.0
    if k == 'exp':
        a, da, ma, mda = py_dual(t['a'], betas, row, xi, wrt)
        e = math.exp(a)
        return e, e * da, e * (1 + ma), e * (1 + ma) * mda
    a, da, ma, mda = py_dual(t['a'], betas, row, xi, wrt)
    b, db, mb, mdb = py_dual(t['b'], betas, row, xi, wrt)
    if k == 'mul':
        return a * b, da * b + a * db, ma * mb, mda * mb + ma * mdb
    return (a + b, da + db, ma + mb, mda + mdb) if k == 'add' else (a - b, da - db, ma + mb, mda + mdb)


def gen_derive2_case(rng):
    N = rng.randint(1, 4)
    dbcols = rng.sample(COL_POOL, rng.randint(2, 4))  # order of the columns in the database
    vnames = rng.sample(dbcols, 2)  # data column at position j of the formula family
    nb = rng.choice([2, 2, 3])
    bnames = rng.sample(BETA_POOL, nb)
    bstatus = [rng.choice([0, 0, 1]) for _ in range(nb)]
    K = rng.choice([0, 1, 1, 2, 2, 3])
    names = rng.sample(NAME_POOL, K)
    types = {n: rng.choice(DET_TYPES) for n in names}
    tree = gen_tree(rng, rng.randint(1, 4), names, nb, 2)
    used = tree_draws(tree)
    for n in names:
        if n not in used:
            tree = {'k': rng.choice(['add', 'sub']), 'a': tree, 'b': {'k': 'mul', 'a': {'k': 'draw', 'n': n}, 'b': rng.choice([{'k': 'beta', 'i': rng.randrange(nb)}, {'k': 'var', 'j': rng.randrange(2)}])}}
    wrt = rng.choice(['beta', 'beta', 'var', 'var', 'var', 'rv'])
    rv = None
    if wrt == 'rv' or rng.random() < 0.35:
        rv = {'name': rng.choice(RV_POOL), 'bi': rng.randrange(nb), 'vj': rng.randrange(2), 'c0': rng.choice([1.0, 0.5, -2.0, 1.5])}
    idx = rng.randrange(nb if wrt == 'beta' else 2)
    if wrt == 'beta' and 1 in bstatus and rng.random() < 0.5:
        idx = bstatus.index(1)  # fixed parameters are numbered after the free ones
    return {
        'N': N, 'R': rng.choice([1, 2, 7, 50]), 'dbcols': dbcols, 'vnames': vnames, 'bnames': bnames, 'bstatus': bstatus,
        'bvals': [rng.randint(-8, 8) / 8.0 for _ in range(nb)], 'types': types, 'tree': tree, 'rv': rv,
        'rows': [[rng.randint(-8, 8) / 4.0 for _ in dbcols] for _ in range(N)],
        'wrt': wrt, 'idx': idx, 'form': rng.choice(['derive-of-mc', 'mc-of-derive']) if K else 'plain',
    }


def derive2_objects(case, bvals=None, rows=None):
    """real objects of a case: database, the argument A (a simulated / integrated quantity) and the formula F containing
    the derivative operator"""
    import pandas as pd
    import biogeme.database as db
    from biogeme.expressions import Beta, Variable, Numeric, exp, Derive, MonteCarlo, Integrate, RandomVariable

    rows = case['rows'] if rows is None else rows
    spec = {'bnames': case['bnames'], 'bstatus': case['bstatus'], 'bvals': case['bvals'] if bvals is None else bvals, 'vnames': case['vnames']}
    d = db.Database('t', pd.DataFrame({c: [float(r[j]) for r in rows] for j, c in enumerate(case['dbcols'])}))
    d.set_random_number_generators(user_generators())
    nb = len(case['bnames'])

    def beta(i):
        return Beta(spec['bnames'][i], spec['bvals'][i], None, None, spec['bstatus'][i])

    # every parameter exists in the formula: + 0 * (sum of the parameters)
    zero = beta(0)
    for i in range(1, nb):
        zero = zero + beta(i)
    e = build(case['tree'], case['types'], spec) + 0 * zero
    name = case['rv']['name'] if case['wrt'] == 'rv' else spec['bnames'][case['idx']] if case['wrt'] == 'beta' else spec['vnames'][case['idx']]
    integ = om = g = None
    if case['rv']:
        rv = case['rv']
        om = RandomVariable(rv['name'])
        g = Numeric(rv['c0']) * (exp(-(om * om) / 2) / Numeric(math.sqrt(2 * math.pi))) * exp(beta(rv['bi']) * Variable(spec['vnames'][rv['vj']]) * om)
        integ = Integrate(g, rv['name'])
    sim = MonteCarlo(e) if case['types'] else e
    A = sim + integ if integ is not None else sim
    if case['wrt'] == 'rv':
        # int omega * d/d omega [c0 phi(omega) e^{a omega}] d omega  (+ the simulated quantity, unchanged)
        F = Integrate(om * Derive(g, name), rv['name']) + sim
    elif case['form'] == 'mc-of-derive':
        F = MonteCarlo(Derive(e, name))
        if integ is not None:
            F = F + Derive(integ, name)
    else:
        F = Derive(A, name)
    return d, A, F, name


def check_derive2(ctx, res, case):
    N, R, types, tree, wrt, idx = case['N'], case['R'], case['types'], case['tree'], case['wrt'], case['idx']
    where = 'Derive (in context)'
    iso_f.note(case, where)
    nb = len(case['bnames'])
    free = {case['bnames'][i]: case['bvals'][i] for i in range(nb) if case['bstatus'][i] == 0}
    d, A, F, name = derive2_objects(case)
    try:
        vals = [float(v) for v in F.get_value_c(database=d, betas=free, number_of_draws=R, prepare_ids=True)]
    except Exception as ex:  # noqa: BLE001
        res.violate(f'Derive raises {type(ex).__name__}: {str(ex)[:150]}', case, core.exc_kind(ex), 'values', where=where)
        return
    res.count({'derive2': case}, nontrivial=tree_depth(tree) >= 2)
    kind = wrt if wrt != 'beta' else 'fixed-beta' if case['bstatus'][idx] else 'free-beta'
    res.tally(f'derive2:{kind}')
    res.tally(f'derive2:{case["form"]}:draws={len(types)}' + (':rv' if case['rv'] else ''))
    # ---- oracle from the statement: the partial derivative of the argument w.r.t. the named literal, the argument
    # being the mean over the draws (own series) of the integrand + the proved closed form of the Integrate term
    names_sorted = sorted(types)
    ser = {n: series_of(types[n], N, R) for n in names_sorted}
    vrows = [[r[case['dbcols'].index(c)] for c in case['vnames']] for r in case['rows']]  # rows by position of the family
    draws_of = range(R) if types else [0]

    def duals(n, bvals, row, w):
        return [py_dual(tree, bvals, row, {nm: ser[nm][n][r] for nm in types}, w) for r in draws_of]

    expected, tol, tree_part = [], [], []
    for n in range(N):
        terms = duals(n, case['bvals'], vrows[n], (wrt, idx))
        pick = (0, 2) if wrt == 'rv' else (1, 3)  # w.r.t. the random variable the simulated quantity is a constant term of F
        x, bound = math.fsum(t[pick[0]] for t in terms) / len(terms), math.fsum(t[pick[1]] for t in terms) / len(terms)
        tree_part.append(x)
        tl = 1e-11 * bound + 1e-13
        if case['rv']:
            rv = case['rv']
            bv, vv = case['bvals'][rv['bi']], vrows[n][rv['vj']]
            a = bv * vv
            I = rv['c0'] * math.exp(a * a / 2)  # C10.integral_phi_exp
            if wrt == 'rv':
                dI = -I  # C10.integral_poly_phi_exp with c = (0, c0 a, -c0): c0 e^{a^2/2} (a^2 - (1 + a^2))
            else:
                dI = I * a * ((vv if (wrt, idx) == ('beta', rv['bi']) else 0.0) + (bv if (wrt, idx) == ('var', rv['vj']) else 0.0))
            x += dI
            tl += 1e-6 * max(1.0, abs(I), abs(dI))
        expected.append(x)
        tol.append(tl)
    if len(vals) != N or not all(abs(x - y) <= t for x, y, t in zip(vals, expected, tol)):
        res.violate(f'Derive(., {name}) = partial derivative of its argument w.r.t. the named {"parameter" if wrt == "beta" else "variable"} '
                    '(forward-mode derivative of an independent evaluator, mean over the own series; closed form for the Integrate term)',
                    case, vals, expected, where=where)
        return
    # ---- second oracle: central finite differences of the real value of the argument
    if wrt != 'rv':
        h = 1e-5
        fd = []
        for sgn in (+1, -1):
            bv, rows2 = list(case['bvals']), [list(r) for r in case['rows']]
            if wrt == 'beta':
                bv[idx] += sgn * h
            else:
                for r in rows2:
                    r[case['dbcols'].index(name)] += sgn * h
            d2, A2, _, _ = derive2_objects(case, bv, rows2)
            free2 = {case['bnames'][i]: bv[i] for i in range(nb) if case['bstatus'][i] == 0}
            fd.append([float(v) for v in A2.get_value_c(database=d2, betas=free2, number_of_draws=R, prepare_ids=True)])
        fdv = [(p - m) / (2 * h) for p, m in zip(*fd)]
        # truncation (h^2/6 times the third derivative) and rounding (eps |f| / h), bounded through the magnitude of the
        # argument with the perturbed literal taken >= 1 in absolute value
        big = []
        for n in range(N):
            b1 = [max(1.0, abs(v)) if wrt == 'beta' and i == idx else v for i, v in enumerate(case['bvals'])]
            r1 = [max(1.0, abs(v)) if wrt == 'var' and j == idx else v for j, v in enumerate(vrows[n])]
            m = max(t[2] for t in duals(n, b1, r1, None))
            if case['rv']:
                a1 = max(1.0, abs(case['bvals'][case['rv']['bi']])) * max(1.0, abs(vrows[n][case['rv']['vj']]))
                m += abs(case['rv']['c0']) * math.exp(a1 * a1 / 2) * (1 + a1) ** 3
            big.append(m)
        if not all(abs(x - y) <= 1e-5 * max(1.0, abs(x), abs(y)) + 1e-7 * m for x, y, m in zip(vals, fdv, big)):
            res.violate(f'Derive(., {name}) = partial derivative of its argument (central finite differences of the real value of the argument)', case, vals, fdv, where=where)
            return
    # ---- correspondence: the index written by Derive.get_signature and the value, vs the model
    try:
        F.prepare(d, R)
        sig = F.get_signature()
        sig_idx = sorted({int(ln.decode().split(',')[-1]) for ln in sig if ln.startswith(b'<Derive>')})
        # <bioDraws>{id}"name",literal id,draw id
        sig_draws = sorted({(ln.decode().split('"')[1], int(ln.decode().split(',')[-2]), int(ln.decode().split(',')[-1])) for ln in sig if ln.startswith(b'<bioDraws>')})
        F.set_id_manager(None)
    except Exception as ex:  # noqa: BLE001
        res.violate(f'get_signature raises {type(ex).__name__}: {str(ex)[:150]}', case, core.exc_kind(ex), 'a signature', where=where)
        return
    table = [[[ser[nm][n][r] for nm in names_sorted] for r in range(R)] for n in range(N)] if types else []
    req = {
        'op': 'derive_lit', 'free': [b for b, st in zip(case['bnames'], case['bstatus']) if st == 0][::-1],
        'fixed': [b for b, st in zip(case['bnames'], case['bstatus']) if st == 1][::-1], 'rvs': [case['rv']['name']] if case['rv'] else [],
        'draws': names_sorted[::-1], 'cols': case['dbcols'], 'bnames': case['bnames'], 'vnames': case['vnames'], 'name': name,
        'eval': wrt != 'rv', 'mc': bool(types), 'R': R, 'e': tree, 'betas': [f2b(v) for v in case['bvals']], 'rows': [[f2b(v) for v in r] for r in vrows],
        'table': [[[f2b(v) for v in r] for r in m] for m in table],
    }
    closed = [x - tp for x, tp in zip(expected, tree_part)]  # the Integrate term (closed form), not in the model's family

    def cb(ans):
        a = ans[0]
        if sig_idx != [a.get('index')]:
            res.diverge(f'index of "{name}" written by Derive.get_signature vs Integrals.literalIndex (free, fixed, random variables, draws, columns)', case, a.get('index'), sig_idx)
        if sig_draws != sorted((n, i, k) for n, i, k in a.get('draw_ids', [])):
            res.diverge('literal id and draw id written by bioDraws.get_signature vs Integrals.literalIndex / drawId (C10.derive_index_draw)', case, a.get('draw_ids'), sig_draws)
        if wrt != 'rv':
            mv = [b2f(v) + c for v, c in zip(a.get('values', []), closed)]
            if len(mv) != len(vals) or not all(abs(x - y) <= t for x, y, t in zip(mv, vals, tol)):
                res.diverge('Derive in context vs Integrals.deriveNamed (+ closed form of the Integrate term)', case, mv, vals)

    ctx.batch.add_many([req], cb)


def tree_has(t, kind):
    if t['k'] == kind:
        return True
    return any(tree_has(t[c], kind) for c in ('a', 'b') if c in t)



# ----------------------------------------------------------------------------- G. sessions: every entry point, seeds, several objects

EXPR_VIAS = ['get_value_c', 'get_value_c_agg', 'gvad', 'gvad_disagg', 'create_function']
BIO_VIAS = ['simulate', 'calculate_likelihood', 'calculate_likelihood_scaled', 'cl_and_derivatives', 'calculate_init_likelihood']


def native_split():
    nat = native_names()
    return [t for t in nat if 'HALTON' in t], [t for t in nat if 'HALTON' not in t]


def gen_formula(rng, pool, nb=2):
    """draw variables in their order of first appearance (mostly not the alphabetical one) and an integrand using all of them"""
    K = rng.choice([1, 2, 2, 3, 3])
    names = rng.sample(NAME_POOL, K)
    if K >= 2 and rng.random() < 0.6:
        names.sort(reverse=True)
    decl = [[n, rng.choice(pool)] for n in names]
    base = None
    for n, _ in decl:
        coef = rng.choice([{'k': 'beta', 'i': 0}, {'k': 'beta', 'i': 1}, {'k': 'var', 'j': 0}, {'k': 'var', 'j': 1}, lit(rng, [(5, 1), (25, 2), (-15, 1)])])
        term = {'k': 'mul', 'a': {'k': 'draw', 'n': n}, 'b': coef}
        base = term if base is None else {'k': rng.choice(['add', 'sub']), 'a': base, 'b': term}
    tree = {'k': rng.choice(['add', 'sub', 'mul']), 'a': base, 'b': gen_tree(rng, rng.randint(0, 2), names, nb, 2)}
    return decl, tree


def gen_session(rng):
    det, rnd = native_split()
    pool = USER + det + rnd + rnd
    N = rng.randint(1, 4)
    ops, specs = [], []

    def new_R(decl):
        return fix_R(rng.choice([1, 2, 3, 4, 8]), [t for _, t in decl])

    def new_op():
        if specs and rng.random() < 0.4:
            op = dict(rng.choice(specs))  # the same formulas again: two objects in one process
            if op['seed'] == 0 or rng.random() < 0.2:
                op['seed'] = rng.choice([0, rng.randint(1, 10**6)])
        else:
            decl, tree = gen_formula(rng, pool)
            if rng.random() < 0.04:
                decl[rng.randrange(len(decl))][1] = rng.choice(['NORMALL', 'G7'])
            op = {'k': 'new', 'seed': rng.choice([0, rng.randint(1, 10**6), rng.randint(1, 10**6)]), 'decl': decl, 'R': new_R(decl), 'tree': tree,
                  'layout': rng.choice(['is-ll', 'single', 'next-to-ll', 'only']), 'll_key': rng.choice(['log_like', 'loglike'])}
        return op

    def refused_op():
        """a formula refused inside the generation of its draws, after at least one of its variables was served"""
        decl, tree = gen_formula(rng, pool)
        while len(decl) < 2:
            decl, tree = gen_formula(rng, pool)
        victim = rng.choice(sorted(n for n, _ in decl)[1:])
        for pair in decl:
            if pair[0] == victim:
                pair[1] = rng.choice(['NORMALL', 'G7', 'GBAD', 'GBAD', 'uniform'])
        if rng.random() < 0.3:
            return {'k': 'new', 'seed': rng.choice([0, rng.randint(1, 10**6)]), 'decl': decl, 'R': new_R(decl), 'tree': tree, 'layout': rng.choice(['is-ll', 'only']), 'll_key': 'log_like', 'refused': True}
        return {'k': 'evalE', 'decl': decl, 'R': new_R(decl), 'tree': tree, 'via': rng.choice(EXPR_VIAS), 'refused': True}

    n_ops = rng.randint(3, 7)
    live = False  # a function made by create_function whose draws are still those of the database
    while len(ops) < n_ops:
        kind = rng.choice(['new', 'new', 'evalB', 'evalB', 'evalB', 'evalE', 'evalE', 'setR', 'consume', 'createF', 'callF', 'callF', 'refused'])
        if kind == 'refused':
            ops.append(refused_op())  # keeps a function alive: C10.function_survives_refusals_partial
            continue
        if kind in ('evalB', 'setR') and not specs:
            kind = 'new'
        if kind == 'callF' and not live:
            kind = 'createF'
        if kind in ('new', 'evalE'):
            live = False  # the guard of C10.function_reads_own_series_partial
        if kind == 'createF':
            decl, tree = gen_formula(rng, pool)
            ops.append({'k': 'createF', 'decl': decl, 'R': new_R(decl), 'tree': tree, 'how': rng.choice(['create_function', 'prepare'])})
            live = True
            if rng.random() < 0.7:
                if rng.random() < 0.3:
                    ops.append({'k': 'consume', 'n': rng.choice([1, 17])})
                if rng.random() < 0.5:
                    ops.append(refused_op())
                ops.append({'k': 'callF', 'shift': rng.choice([0.0, 0.5, -1.0])})
        elif kind == 'callF':
            ops.append({'k': 'callF', 'shift': rng.choice([0.0, 0.5, -1.0])})
        elif kind == 'new':
            op = new_op()
            ops.append(op)
            if all(t in USER + det + rnd for _, t in op['decl']):
                specs.append(op)
        elif kind == 'evalB':
            ops.append({'k': 'evalB', 'i': rng.randrange(len(specs)), 'via': rng.choice(BIO_VIAS)})
        elif kind == 'setR':
            ops.append({'k': 'setR', 'i': rng.randrange(len(specs)), 'R': rng.choice([1, 2, 6, 100]), 'alias': rng.random() < 0.3})
        elif kind == 'evalE':
            prev = [i for i, o in enumerate(ops) if o['k'] == 'evalE' and 'reuse_of' not in o and o['via'] != 'create_function']
            if prev and rng.random() < 0.4:
                # the SAME expression object evaluated again, with another number of draws
                src = rng.choice(prev)
                R2 = rng.choice([r for r in (2, 4, 6, 8) if r != ops[src]['R']])
                ops.append({'k': 'evalE', 'decl': ops[src]['decl'], 'R': R2, 'tree': ops[src]['tree'], 'via': rng.choice(EXPR_VIAS[:4]), 'reuse_of': src})
            else:
                decl, tree = gen_formula(rng, pool)
                ops.append({'k': 'evalE', 'decl': decl, 'R': new_R(decl), 'tree': tree, 'via': rng.choice(EXPR_VIAS)})
        else:
            ops.append({'k': 'consume', 'n': rng.choice([1, 17, 400])})
    for i in range(len(specs)):  # every object is evaluated at the end, the same way (pairs with the same seed are compared)
        ops.append({'k': 'evalB', 'i': i, 'via': 'simulate'})
    return {'N': N, 'seed0': rng.randint(1, 10**6), 'ops': ops, 'betas': [rng.randint(-8, 8) / 8.0, rng.randint(-8, 8) / 16.0],
            'rows': [[rng.randint(-8, 8) / 4.0, rng.randint(-4, 4) / 2.0] for _ in range(N)]}


def with_betas(e):
    """every parameter exists in the formula"""
    from biogeme.expressions import Beta

    return e + 0 * (Beta(BETA_NAMES[0], 0.0, None, None, 0) + Beta(BETA_NAMES[1], 0.0, None, None, 0))


def eval_expr(op, d, bdict, exprs=None, pos=None):
    """one evaluation of an expression through a public entry point: {'vals' | 'sum', 'grad'}"""
    from biogeme.expressions import MonteCarlo

    types = {n: t for n, t in op['decl']}
    if exprs is not None and 'reuse_of' in op:
        expr = exprs[op['reuse_of']]
    else:
        expr = with_betas(MonteCarlo(build(op['tree'], types)))
    if exprs is not None:
        exprs[pos] = expr
    R, via = op['R'], op['via']
    if via == 'get_value_c':
        return {'vals': [float(v) for v in expr.get_value_c(database=d, betas=bdict, number_of_draws=R, prepare_ids=True)]}
    if via == 'get_value_c_agg':
        return {'sum': float(expr.get_value_c(database=d, betas=bdict, number_of_draws=R, aggregation=True, prepare_ids=True))}
    if via in ('gvad', 'gvad_disagg'):
        r = expr.get_value_and_derivatives(betas=bdict, database=d, number_of_draws=R, gradient=True, hessian=False, bhhh=False,
                                           aggregation=via == 'gvad', prepare_ids=True, named_results=True)
        if via == 'gvad':
            return {'sum': float(r.function), 'grad': {k: float(v) for k, v in r.gradient.items()}}
        return {'vals': [float(v) for v in r.functions], 'grads': [{k: float(v) for k, v in g.items()} for g in r.gradients]}
    f = expr.create_function(database=d, number_of_draws=R, gradient=True, hessian=False)
    x = np.array([bdict[n] for n in expr.id_manager.free_betas.names])
    f(x + 1.0)  # the function is called several times: the draws are those of its creation
    r = f(x)
    return {'sum': float(r.function), 'grad': {k: float(v) for k, v in r.gradient.items()}}


def eval_bio(B, spec, via, bdict, N):
    free = list(B.free_beta_names)
    x = [bdict[n] for n in free]
    if spec['layout'] not in ('is-ll', 'single'):
        via = 'simulate'
    if via == 'simulate':
        key = formulas_for(spec['layout'], None, spec['ll_key'])[1]
        return {'vals': [float(v) for v in B.simulate({n: bdict[n] for n in free})[key].values]}
    if via == 'calculate_likelihood':
        return {'sum': float(B.calculate_likelihood(x, scaled=False))}
    if via == 'calculate_likelihood_scaled':
        return {'sum': float(B.calculate_likelihood(x, scaled=True)) * N, 'scaled': True}
    if via == 'calculate_init_likelihood':
        return {'sum': float(B.calculate_init_likelihood()), 'init_betas': True}  # at the initial values of the parameters (0)
    r = B.calculate_likelihood_and_derivatives(x, scaled=False, hessian=False, bhhh=False)
    return {'sum': float(r.function), 'grad': {n: float(g) for n, g in zip(free, r.gradient)}}


def run_session(case):
    """the real run: per operation what was returned / raised, `Database.theDraws` afterwards, and every table
    `Database.generate_draws` returned during the session (a harness-side wrapper of the instance's public method)"""
    import biogeme.biogeme as bio
    from biogeme.expressions import MonteCarlo

    N = case['N']
    bdict = beta_vector(case['betas'])
    out, generated, objs, func, exprs = [], [], [], None, {}
    with core.scratch(TOML):
        d = make_db(N, case['rows'])
        d.set_random_number_generators({**user_generators(), 'GBAD': (user_gen(2, 'extra'), 'one column too many')})
        orig = d.generate_draws

        def wrapped(draw_types, names, number_of_draws):
            t = orig(draw_types, names, number_of_draws)
            generated.append((list(names), int(number_of_draws), np.array(t, dtype=float), {n: draw_types[n] for n in names}))
            return t

        d.generate_draws = wrapped
        np.random.seed(case['seed0'])
        for pos, op in enumerate(case['ops']):
            o = {}
            try:
                if op['k'] == 'new':
                    types = {n: t for n, t in op['decl']}
                    formulas, _ = formulas_for(op['layout'], with_betas(MonteCarlo(build(op['tree'], types))), op['ll_key'])
                    B = bio.BIOGEME(d, formulas, number_of_draws=op['R'], seed=op['seed'])
                    objs.append((B, op))
                    o['nd'] = int(B.number_of_draws)
                elif op['k'] == 'setR':
                    if op.get('alias'):
                        objs[op['i']][0].numberOfDraws = op['R']  # the deprecated name of the attribute
                    else:
                        objs[op['i']][0].number_of_draws = op['R']
                    o['nd'] = int(objs[op['i']][0].number_of_draws)
                elif op['k'] == 'evalB':
                    B, spec = objs[op['i']]
                    o.update(eval_bio(B, spec, op['via'], bdict, N))
                    o['nd'] = int(B.number_of_draws)
                elif op['k'] == 'evalE':
                    o.update(eval_expr(op, d, bdict, exprs, pos))
                elif op['k'] == 'createF':
                    expr = with_betas(MonteCarlo(build(op['tree'], {n: t for n, t in op['decl']})))
                    if op.get('how') == 'prepare':
                        expr.prepare(d, op['R'])
                        func = (None, expr)
                    else:
                        func = (expr.create_function(database=d, number_of_draws=op['R'], gradient=True, hessian=False), expr)
                elif op['k'] == 'callF':
                    if func[0] is None:  # a prepared expression evaluated with prepare_ids=False
                        vals = func[1].get_value_c(database=d, betas={n: v + op['shift'] for n, v in bdict.items()}, prepare_ids=False)
                        o.update({'vals': [float(v) for v in vals], 'shift': op['shift']})
                    else:
                        x = np.array([bdict[n] + op['shift'] for n in func[1].id_manager.free_betas.names])
                        r = func[0](x)
                        o.update({'sum': float(r.function), 'grad': {k: float(v) for k, v in r.gradient.items()}, 'shift': op['shift']})
                else:
                    np.random.uniform(size=op['n'])
            except Exception as e:  # noqa: BLE001
                if isinstance(e, RuntimeError):
                    raise
                o['err'] = core.exc_kind(e)
                o['msg'] = str(e)[:160]
            o['db'] = None if d.theDraws is None else np.array(d.theDraws, dtype=float)
            o['n_generated'] = len(generated)
            out.append(o)
    return out, generated


def expected_from_table(tree, betas, rows, col_of, T, R, want_grad):
    """mean over the draws of the integrand, the draw variable `name` reading column `col_of[name]` of T[n][r][.]:
    per observation (value, tolerance, {beta: derivative}, {beta: tolerance})"""
    res = []
    for n, row in enumerate(rows):
        duals = {None: [py_dual(tree, betas, row, {nm: float(T[n][r][k]) for nm, k in col_of.items()}, None) for r in range(R)]}
        if want_grad:
            for i in range(len(betas)):
                duals[i] = [py_dual(tree, betas, row, {nm: float(T[n][r][k]) for nm, k in col_of.items()}, ('beta', i)) for r in range(R)]
        v = math.fsum(t[0] for t in duals[None]) / R
        tv = 1e-11 * math.fsum(t[2] for t in duals[None]) / R + 1e-13
        g = {BETA_NAMES[i]: math.fsum(t[1] for t in duals[i]) / R for i in duals if i is not None}
        tg = {BETA_NAMES[i]: 1e-11 * math.fsum(t[3] for t in duals[i]) / R + 1e-13 for i in duals if i is not None}
        res.append((v, tv, g, tg))
    return res


def matches(o, exp):
    """does what an evaluation returned agree with the per-observation expectation?"""
    def grads_ok(got, idxs):
        for name, gv in got.items():
            e = math.fsum(exp[n][2][name] for n in idxs)
            t = math.fsum(exp[n][3][name] for n in idxs)
            if not abs(gv - e) <= t * (1 + len(idxs)):
                return False
        return True

    alln = range(len(exp))
    if 'vals' in o:
        if len(o['vals']) != len(exp) or not all(abs(x - e[0]) <= e[1] for x, e in zip(o['vals'], exp)):
            return False
        if 'grads' in o and not all(grads_ok(g, [n]) for n, g in enumerate(o['grads'])):
            return False
        return True
    e = math.fsum(x[0] for x in exp)
    t = math.fsum(x[1] for x in exp) * (1 + len(exp))
    if not abs(o['sum'] - e) <= t:
        return False
    return grads_ok(o.get('grad', {}), alln)


def describe(o):
    return {k: v for k, v in o.items() if k in ('vals', 'sum', 'grad', 'grads', 'err', 'msg', 'nd', 'init_betas', 'scaled', 'shift')}


def check_session(ctx, res, case):
    """a history on ONE database: BIOGEME objects created (seeded or not), evaluated through every entry point, expressions
    evaluated in between, numbers taken from the global generator, number_of_draws assigned"""
    where = 'session'
    iso_f.note(case, where)
    N, betas, rows = case['N'], case['betas'], case['rows']
    det, rnd = native_split()
    valid = set(USER + det + rnd)
    out, generated = run_session(case)
    specs = [op for op in case['ops'] if op['k'] == 'new' and all(t in valid for _, t in op['decl'])]
    res.count({'session': case}, nontrivial=any(len(op.get('decl', [])) >= 2 for op in case['ops']))
    for op in case['ops']:
        res.tally('session:' + op['k'] + (':' + op['via'] if 'via' in op else '') + (':seed0' if op.get('seed') == 0 else ''))
        if 'reuse_of' in op:
            res.tally('session:evalE:same-expression-object-other-number-of-draws')
        if op.get('refused'):
            res.tally('session:refused-generation:' + ','.join(sorted({t for _, t in op['decl'] if t not in valid})))
        if op['k'] == 'createF':
            res.tally('session:createF:' + op.get('how', 'create_function'))
        for _, t in op.get('decl', []):
            res.tally('session-type:' + t)
        if op.get('decl') and [n for n, _ in op['decl']] != sorted(n for n, _ in op['decl']):
            res.tally('session:appearance-order-not-alphabetical')
    def spec_of(pos):
        op = case['ops'][pos]
        if op['k'] == 'evalB':
            return specs[op['i']]
        if op['k'] == 'callF':  # the function created last
            return [c for c in case['ops'][:pos] if c['k'] == 'createF'][-1]
        return op

    def betas_of(o):
        return [0.0, 0.0] if o.get('init_betas') else [b + o.get('shift', 0.0) for b in betas]

    # ---- oracle from the statement (no model): refusals, own series, reproducibility
    sims = {}
    for pos, (op, o) in enumerate(zip(case['ops'], out)):
        bad_types = [t for _, t in op.get('decl', []) if t not in valid]
        if 'err' in o:
            if not (bad_types and o['err'].startswith('BiogemeError')):
                res.violate(f'operation {pos} ({op["k"]}) raises {o["err"]}: {o.get("msg")} on valid inputs', case, o['err'], 'no exception', where=where)
                return
            continue
        if bad_types:
            res.violate(f'operation {pos}: an unknown draw type is refused with the library error', case, describe(o), 'BiogemeError', where=where)
            return
        if op['k'] not in ('evalB', 'evalE', 'callF'):
            continue
        spec = spec_of(pos)
        types = {n: t for n, t in spec['decl']}
        R = spec['R']
        want_grad = 'grad' in o or 'grads' in o
        # every table generated so far for these variables: the value must be the mean over the draws of the integrand
        # with every variable reading ITS column (the column of its name in the list handed to generate_draws)
        cands = [(names, T) for names, R_, T, types_ in generated[: o['n_generated']] if types_ == types and R_ == R]
        ok = False
        for names, T in cands:
            for k, nm in enumerate(names):
                if types[nm] in USER or types[nm] in det:
                    if not np.array_equal(T[:, :, k], np.asarray(series_of(types[nm], N, R), dtype=float)):
                        res.violate(f'operation {pos}: column {k} of a generated table holds the series of {nm} (type {types[nm]})', case, T[:, :, k].tolist(), series_of(types[nm], N, R), where=where)
                        return
            if matches(o, expected_from_table(spec['tree'], betas_of(o), rows, {nm: names.index(nm) for nm in names}, T, R, want_grad)):
                ok = True
                break
        if not ok:
            exp = expected_from_table(spec['tree'], betas_of(o), rows, {nm: cands[-1][0].index(nm) for nm in cands[-1][0]}, cands[-1][1], R, want_grad) if cands else None
            res.violate(f'operation {pos} ({op["k"]} via {op.get("via") or spec_of(pos).get("how", "create_function")}): the value is the mean over the draws of the integrand, every draw variable replaced by its own series '
                        '(one of the tables generated for these variables)', case, describe(o),
                        None if exp is None else {'vals': [e[0] for e in exp], 'sum': math.fsum(e[0] for e in exp), 'grad': {b: math.fsum(e[2][b] for e in exp) for b in exp[0][2]}}, where=where)
            return
        if op['k'] == 'evalB' and 'vals' in o:
            sims.setdefault(op['i'], o['vals'])
            key = json.dumps([spec['seed'], spec['decl'], spec['R'], spec['tree'], spec['layout']], sort_keys=True)
            if spec['seed'] != 0:
                first = sims.setdefault(key, (op['i'], o['vals']))
                if [f2b(v) for v in first[1]] != [f2b(v) for v in o['vals']]:
                    res.violate(f'with a non-zero seed the results are reproducible: objects {first[0]} and {op["i"]} built with seed {spec["seed"]} on the same formulas', case, o['vals'], first[1], where=where)
                    return
    # ---- correspondence with the model of the session (McSession on the describing instance)
    req = {'op': 'session', 'native': native_names(), 'user': USER + ['GBAD'], 'N': N, 'seed0': case['seed0'],
           'ops': [{k: v for k, v in op.items() if k in ('k', 'seed', 'decl', 'R', 'i', 'n')} for op in case['ops']]}  # `reuse_of` is not sent: the model has no expression objects

    def cb(ans):
        a = ans[0]
        if 'steps' not in a or len(a['steps']) != len(out):
            res.diverge('session vs McSession.run', case, a, 'one answer per operation')
            return
        tables = [replay_call(c) for c in a['calls']]

        def resolve(desc):
            return None if desc is None else np.array([[[tables[c][n][r] for c, n, r in row] for row in m] for m in desc], dtype=float)

        stage2 = []
        for pos, (op, o, st) in enumerate(zip(case['ops'], out, a['steps'])):
            merr = st.get('err')
            if (merr is None) != ('err' not in o) or (merr and not merr.startswith(o['err'].split(':')[0])):
                res.diverge(f'operation {pos}: error raised vs McSession.step', case, merr, o.get('err'))
                return
            mdb = resolve(st['db'])
            if (mdb is None) != (o['db'] is None) or (mdb is not None and (mdb.shape != o['db'].shape or not np.array_equal(mdb, o['db']))):
                res.diverge(f'operation {pos} ({op["k"]}): Database.theDraws vs the table McSession describes (replayed on the real generators)', case,
                            None if mdb is None else mdb.tolist(), None if o['db'] is None else o['db'].tolist())
                return
            if 'nd' in o and st.get('nd') != o['nd']:
                res.diverge(f'operation {pos}: number_of_draws of the object vs McSession', case, st.get('nd'), o['nd'])
                return
            if merr or op['k'] not in ('evalB', 'evalE', 'callF'):
                continue
            spec = spec_of(pos)
            T = resolve(st['engine']) if op['k'] == 'evalB' else mdb
            ids = {n: k for n, k in st['ids']}
            if T is None or sorted(ids) != sorted(n for n, _ in spec['decl']):
                res.diverge(f'operation {pos}: table read by the evaluation vs McSession', case, st, 'a table and one id per draw variable')
                return
            exp = expected_from_table(spec['tree'], betas_of(o), rows, ids, T, spec['R'], 'grad' in o or 'grads' in o)
            if not matches(o, exp):
                res.diverge(f'operation {pos} ({op["k"]} via {op.get("via") or spec_of(pos).get("how", "create_function")}): value vs the mean over the table McSession.readBiogeme / readExpr designates '
                            '(described calls replayed on the real generators from the seeded state)', case, [e[0] for e in exp], describe(o))
                return
            if 'vals' in o:
                stage2.append((pos, o['vals'], {'op': 'mc', 'declared': [n for n, _ in spec['decl']], 'table': [[[f2b(float(v)) for v in r] for r in m] for m in T],
                                                'betas': [f2b(v) for v in betas_of(o)], 'rows': [[f2b(v) for v in r] for r in rows], 'R': spec['R'], 'e': spec['tree']}))
        if stage2:
            def cb2(ans2):
                for (pos, vals, _), a2 in zip(stage2, ans2):
                    mv = [b2f(v) for v in a2.get('values', [])]
                    if len(mv) != len(vals) or not all(core.close(x, y, rel=1e-11, abs_=1e-11) for x, y in zip(mv, vals)):
                        res.diverge(f'operation {pos}: value vs Integrals.monteCarlo on the table of McSession', case, mv, vals)
                        return

            ctx.batch.add_many([r for _, _, r in stage2], cb2)

    ctx.batch.add_many([req], cb)


def replay_call(log):
    """the table a described call returns on the real generators: the events since the last seeding are replayed on numpy's
    global generator with the real registered generators; the last event is the call itself"""
    from biogeme.native_draws import native_random_number_generators

    out = None
    for ev in log:
        if ev[0] == 'seed':
            np.random.seed(ev[1])
        elif ev[0] == 'consume':
            np.random.uniform(size=ev[1])
        else:
            kind, ty = ev[1].split(':', 1)
            gen = native_random_number_generators[ty].generator if kind == 'native' else user_gen(2, 'extra') if ty == 'GBAD' else user_gen(USER.index(ty))
            out = np.array(gen(ev[2], ev[3]), dtype=float)
    return out



# ----------------------------------------------------------------------------- H. every native type under a non-zero seed

_NATIVE_TREE = {'k': 'add', 'a': {'k': 'add', 'a': {'k': 'mul', 'a': {'k': 'draw', 'n': '@v'}, 'b': {'k': 'var', 'j': 0}},
                                  'b': {'k': 'mul', 'a': {'k': 'mul', 'a': {'k': 'draw', 'n': '@v'}, 'b': {'k': 'draw', 'n': '@v'}}, 'b': {'k': 'beta', 'i': 0}}},
                'b': {'k': 'mul', 'a': {'k': 'draw', 'n': '@o'}, 'b': {'k': 'var', 'j': 1}}}


def rename_draws(t, m):
    if t['k'] == 'draw':
        return {'k': 'draw', 'n': m[t['n']]}
    return {k: (rename_draws(v, m) if k in ('a', 'b') else v) for k, v in t.items()}


def gen_native_case(rng, ty=None):
    ty = ty or rng.choice(native_names())
    N = rng.randint(1, 4)
    v, o = rng.sample(NAME_POOL, 2)
    return {'native': ty, 'N': N, 'R': fix_R(rng.choice([1, 2, 3, 8]), [ty]), 'seed': rng.randint(1, 10**6), 'v': v, 'other': o, 'other_type': rng.choice(USER),
            'betas': [rng.randint(-8, 8) / 8.0, 0.0], 'rows': [[rng.randint(1, 8) / 4.0, rng.randint(-4, 4) / 2.0] for _ in range(N)],
            'via': rng.choice(['biogeme', 'biogeme', 'get_value_c']), 'between': rng.choice([0, 3, 400])}


def check_native_seed(ctx, res, case):
    """every native type: the registered generator is a function of the seeded state, and a BIOGEME object / an expression
    evaluated under that seed reads one of the first tables the generator produces from that state"""
    import biogeme.biogeme as bio
    from biogeme.expressions import MonteCarlo
    from biogeme.native_draws import native_random_number_generators

    where = 'BIOGEME seed'
    ty, N, R, seed, v, o = case['native'], case['N'], case['R'], case['seed'], case['v'], case['other']
    iso_f.note(case, where)
    res.count({'native-seed': case}, nontrivial=R >= 2)
    res.tally('native-seed:' + ty)
    res.tally('native-seed:' + case['via'])
    if ty not in DET_NATIVE + RND_NATIVE:
        res.notes.append(f'native type {ty} is in neither list of the generators of this check')
    gen = native_random_number_generators[ty].generator
    np.random.seed(seed)
    first = [np.array(gen(N, R), dtype=float) for _ in range(3)]
    np.random.uniform(size=7)
    np.random.seed(seed)
    again = [np.array(gen(N, R), dtype=float) for _ in range(3)]
    if any(a.shape != (N, R) for a in first):
        res.violate(f'the generator registered for {ty} returns a table [observations, draws]', case, [list(a.shape) for a in first], [N, R], where=where)
        return
    if not all(np.array_equal(a, b) for a, b in zip(first, again)):
        res.violate(f'with a non-zero seed the results are reproducible: the series of the native type {ty} generated twice from the state np.random.seed({seed})', case,
                    again[0].tolist(), first[0].tolist(), where=where)
        return
    tree = rename_draws(_NATIVE_TREE, {'@v': v, '@o': o})
    types = {v: ty, o: case['other_type']}
    bdict = beta_vector(case['betas'])
    oth = np.asarray(series_of(case['other_type'], N, R), dtype=float)

    def one_run():
        with core.scratch(TOML):
            d = make_db(N, case['rows'])
            d.set_random_number_generators(user_generators())
            expr = MonteCarlo(build(tree, types))
            if case['via'] == 'get_value_c':
                np.random.seed(seed)
                return [float(x) for x in expr.get_value_c(database=d, betas=bdict, number_of_draws=R, prepare_ids=True)]
            B = bio.BIOGEME(d, {'v': expr}, number_of_draws=R, seed=seed)
            return [float(x) for x in B.simulate({n: bdict[n] for n in B.free_beta_names})['v'].values]

    try:
        a = one_run()
        if case['between']:
            np.random.uniform(size=case['between'])
        b = one_run()
    except Exception as e:  # noqa: BLE001
        res.violate(f'evaluation with a draw variable of type {ty} raises {type(e).__name__}: {str(e)[:150]}', case, core.exc_kind(e), 'values', where=where)
        if isinstance(e, RuntimeError):
            raise
        return
    if [f2b(x) for x in a] != [f2b(x) for x in b]:
        res.violate(f'with a non-zero seed the results are reproducible (bit for bit): two evaluations with seed {seed} and a draw variable of type {ty}', case, b, a, where=where)
        return
    cands = first[:1] if case['via'] == 'get_value_c' else first
    exps = [[math.fsum(py_eval(tree, case['betas'], case['rows'][n], {v: float(T[n][r]), o: float(oth[n][r])}) for r in range(R)) / R for n in range(N)] for T in cands]
    if not any(all(core.close(x, y, rel=1e-11, abs_=1e-11) for x, y in zip(a, e)) for e in exps):
        res.violate(f'the series of a draw variable of type {ty} is what the registered generator produces under the seed '
                    f'({"the first table" if case["via"] == "get_value_c" else "one of the first three tables"} generated from np.random.seed({seed}))', case, a, exps[0], where=where)


# ----------------------------------------------------------------------------- I. numerical integration next to other elements


def gen_integrate2_case(rng):
    N = rng.randint(1, 4)
    rvs = rng.sample(RV_POOL, 2)
    if rng.random() < 0.6:
        rvs.sort(reverse=True)  # first appearance in the formula: not the alphabetical order
    names = rng.sample(NAME_POOL, rng.choice([1, 2]))
    if len(names) == 2 and rng.random() < 0.6:
        names.sort(reverse=True)
    tree = gen_tree(rng, rng.randint(1, 2), names)
    for n in names:
        if n not in tree_draws(tree):
            tree = {'k': 'add', 'a': tree, 'b': {'k': 'mul', 'a': {'k': 'draw', 'n': n}, 'b': lit(rng, [(5, 1), (25, 2), (-15, 1)])}}
    return {'N': N, 'R': rng.choice([1, 2, 7]), 'rows': [[rng.randint(-8, 8) / 4.0, rng.randint(-4, 4) / 2.0] for _ in range(N)],
            'betas': [rng.randint(-8, 8) / 8.0, rng.randint(-8, 8) / 16.0], 'form': rng.choice(['sum', 'product', 'two-rv', 'two-rv', 'nested']), 'rvs': rvs,
            'types': {n: rng.choice(DET_TYPES) for n in names}, 'tree': tree,
            'specs': [{'c': [rng.randint(-4, 4) / 2.0 for _ in range(3)], 'bi': rng.randrange(2), 'vj': rng.randrange(2)} for _ in range(2)],
            'nested_type': rng.choice(['UNIFORM_HALTON2', 'UNIFORM_HALTON3', 'UNIFORMSYM_HALTON5', 'UNIFORMSYM_HALTON2']), 'via': rng.choice(['get_value_c', 'get_value_c', 'biogeme'])}


def check_integrate2(ctx, res, case):
    """`Integrate` combined with parameters, variables, a Monte-Carlo term, a second random variable, or inside `MonteCarlo`"""
    import biogeme.biogeme as bio
    from biogeme.expressions import Beta, Variable, exp, Integrate, RandomVariable, Numeric, MonteCarlo, bioDraws

    where = 'Integrate'
    N, R, rows, betas, form, rvs, types, tree, specs, nested_type = (case[k] for k in ('N', 'R', 'rows', 'betas', 'form', 'rvs', 'types', 'tree', 'specs', 'nested_type'))
    names = list(types)
    iso_f.note(case, where)
    bdict = beta_vector(betas)

    def beta(i):
        return Beta(BETA_NAMES[i], 0.0, None, None, 0)

    def phi(om):
        return exp(-(om * om) / 2) / Numeric(math.sqrt(2 * math.pi))

    def integ(k):
        sp, om = specs[k], RandomVariable(rvs[k])
        g = (Numeric(sp['c'][0]) + Numeric(sp['c'][1]) * om + Numeric(sp['c'][2]) * om * om) * phi(om) * exp(beta(sp['bi']) * Variable(COLS[sp['vj']]) * om)
        return Integrate(g, rvs[k])

    def closed(k, row):
        sp = specs[k]
        a = betas[sp['bi']] * row[sp['vj']]
        return math.exp(a * a / 2) * (sp['c'][0] + sp['c'][1] * a + sp['c'][2] * (1 + a * a))  # C10.integral_poly_phi_exp

    mc = MonteCarlo(build(tree, types))
    ser = {n: series_of(types[n], N, R) for n in names}

    def mc_val(n):
        return math.fsum(py_eval(tree, betas, rows[n], {nm: ser[nm][n][r] for nm in names}) for r in range(R)) / R

    if form == 'sum':
        F = integ(0) + mc + beta(1) * Variable('Y')
        expected = [closed(0, rows[n]) + mc_val(n) + betas[1] * rows[n][1] for n in range(N)]
    elif form == 'product':
        F = integ(0) * mc - Variable('X')
        expected = [closed(0, rows[n]) * mc_val(n) - rows[n][0] for n in range(N)]
    elif form == 'two-rv':
        F = integ(0) * beta(0) + integ(1) + mc
        expected = [closed(0, rows[n]) * betas[0] + closed(1, rows[n]) + mc_val(n) for n in range(N)]
    else:
        # MonteCarlo(int phi(om) exp(b xi om) d om) = mean over the draws of exp((b xi_r)^2 / 2)   (C10.integral_phi_exp)
        om = RandomVariable(rvs[0])
        F = MonteCarlo(Integrate(phi(om) * exp(beta(0) * bioDraws('Zeta', nested_type) * om), rvs[0])) + beta(1)
        xs = series_of(nested_type, N, R)
        expected = [math.fsum(math.exp((betas[0] * xs[n][r]) ** 2 / 2) for r in range(R)) / R + betas[1] for n in range(N)]
    F = with_betas(F)
    try:
        d = make_db(N, rows)
        d.set_random_number_generators(user_generators())
        if case['via'] == 'get_value_c':
            vals = [float(v) for v in F.get_value_c(database=d, betas=bdict, number_of_draws=R, prepare_ids=True)]
        else:
            with core.scratch(TOML):
                B = bio.BIOGEME(d, {'v': F}, number_of_draws=R)
                vals = [float(v) for v in B.simulate({n: bdict[n] for n in B.free_beta_names})['v'].values]
    except Exception as e:  # noqa: BLE001
        res.violate(f'Integrate next to other elements raises {type(e).__name__}: {str(e)[:150]}', case, core.exc_kind(e), 'values', where=where)
        if isinstance(e, RuntimeError):
            raise
        return
    res.count({'integrate2': case}, nontrivial=True)
    res.tally('integrate2:' + form + ':' + case['via'])
    scale = [max(1.0, abs(e), abs(mc_val(n)) if form != 'nested' else 1.0) for n, e in enumerate(expected)]
    if len(vals) != N or not all(abs(x - y) <= 1e-6 * sc for x, y, sc in zip(vals, expected, scale)):
        res.violate('Integrate = integral over the real line of its argument in the named variable, next to other elements of the formula '
                    '(Gaussian closed forms; Monte-Carlo terms = mean over the own series)', case, vals, expected, where=where)


# ----------------------------------------------------------------------------- J. estimation of a simulated likelihood


def gen_estimate_case(rng):
    u, w = rng.sample(NAME_POOL, 2)
    if rng.random() < 0.7 and u < w:
        u, w = w, u  # u appears first and sorts last
    tu, tw = rng.sample(['G0', 'G1', 'UNIFORM_HALTON2', 'UNIFORM_HALTON3', 'UNIFORM_HALTON5', 'NORMAL_HALTON3'], 2)
    return {'estimate': True, 'N': rng.randint(1, 4), 'R': rng.choice([2, 4, 8]), 'u': [u, tu], 'w': [w, tw], 'start': rng.randint(-4, 4) / 4.0}


def check_estimate(ctx, res, case):
    """`BIOGEME.estimate` on log likelihood MonteCarlo(-(b u - w)^2): the final log likelihood is the mean over the own series
    of u and w at the estimate"""
    import logging
    import biogeme.biogeme as bio
    from biogeme.expressions import Beta, MonteCarlo, bioDraws

    where = 'MonteCarlo'
    N, R, (u, tu), (w, tw) = case['N'], case['R'], case['u'], case['w']
    iso_f.note(case, where)
    logging.getLogger('biogeme').setLevel(logging.ERROR)
    b = Beta('b2', case['start'], None, None, 0)
    resid = b * bioDraws(u, tu) - bioDraws(w, tw)
    ll = MonteCarlo(-(resid * resid))
    try:
        with core.scratch(TOML):
            d = make_db(N, [[0.0, 0.0]] * N)
            d.set_random_number_generators(user_generators())
            B = bio.BIOGEME(d, ll, number_of_draws=R)
            B.modelName = 'c10est'
            B.generate_html = B.generate_pickle = B.save_iterations = False
            results = B.estimate()
            bhat = float(results.get_beta_values()['b2'])
            final = float(results.data.logLike)
    except Exception as e:  # noqa: BLE001
        res.violate(f'estimate raises {type(e).__name__}: {str(e)[:150]}', case, core.exc_kind(e), 'results', where=where)
        if isinstance(e, RuntimeError):
            raise
        return
    res.count({'estimate': case}, nontrivial=True)
    res.tally('estimate')
    U, W = np.asarray(series_of(tu, N, R), dtype=float), np.asarray(series_of(tw, N, R), dtype=float)
    # (whether the optimiser reached the maximiser sum(u w) / sum(u u) is not this property's subject: only the value it reports)
    L = -float(((bhat * U - W) ** 2).sum()) / R
    Lswap = -float(((bhat * W - U) ** 2).sum()) / R
    res.tally('estimate:discriminates-u-from-w' if not core.close(L, Lswap, rel=1e-6, abs_=1e-9) else 'estimate:symmetric')
    if not core.close(final, L, rel=1e-9, abs_=1e-9):
        res.violate('the final log likelihood of estimate is the sum over the observations of the mean over the draws of the integrand at the estimate, every draw variable reading its own series',
                    case, final, L, where=where)


# ----------------------------------------------------------------------------- the check

CORPUS_MC = [
    # three variables of three different kinds in one formula; names sort differently from their order of appearance
    {'N': 3, 'R': 7, 'types': {'xi_b': 'G0', 'xi10': 'G1', 'a': 'UNIFORM_HALTON3'},
     'tree': {'k': 'add', 'a': {'k': 'mul', 'a': {'k': 'draw', 'n': 'xi_b'}, 'b': {'k': 'beta', 'i': 0}},
              'b': {'k': 'sub', 'a': {'k': 'draw', 'n': 'xi10'}, 'b': {'k': 'mul', 'a': {'k': 'draw', 'n': 'a'}, 'b': {'k': 'var', 'j': 0}}}},
     'betas': [0.5, -0.25], 'rows': [[1.0, 0.5], [2.0, -1.0], [-0.5, 0.0]], 'via': 'get_value_c'},
    {'N': 2, 'R': 2, 'types': {'xi2': 'G2', 'xi10': 'NORMAL'},
     'tree': {'k': 'mul', 'a': {'k': 'draw', 'n': 'xi2'}, 'b': {'k': 'exp', 'a': {'k': 'mul', 'a': {'k': 'num', 'm': 1, 'neg': False, 'e': 3}, 'b': {'k': 'draw', 'n': 'xi10'}}}},
     'betas': [0.5, -0.25], 'rows': [[1.0, 0.5], [2.0, -1.0]], 'via': 'biogeme'},
    {'N': 1, 'R': 1, 'types': {'h': 'G0'}, 'tree': {'k': 'draw', 'n': 'h'}, 'betas': [0.0, 0.0], 'rows': [[0.0, 0.0]], 'via': 'biogeme'},
]


CORPUS_SEED = [
    # pure simulation, the Monte-Carlo formula next to a closed-form log likelihood, the usual case
    {'N': 3, 'R': 8, 'seed': 4242, 'types': {'xi2': 'NORMAL', 'a': 'UNIFORMSYM'},
     'tree': {'k': 'add', 'a': {'k': 'mul', 'a': {'k': 'draw', 'n': 'xi2'}, 'b': {'k': 'var', 'j': 0}}, 'b': {'k': 'mul', 'a': {'k': 'draw', 'n': 'a'}, 'b': {'k': 'beta', 'i': 1}}},
     'betas': [0.5, -0.25], 'rows': [[1.0, 0.5], [2.0, -1.0], [-0.5, 0.0]], 'via': 'biogeme', 'seed_via': 'kwarg', 'layout': layout, 'll_key': 'log_like', 'between': 17}
    for layout in ('only', 'next-to-ll', 'is-ll')
]

_D2_TREE = {'k': 'add', 'a': {'k': 'mul', 'a': {'k': 'mul', 'a': {'k': 'beta', 'i': 0}, 'b': {'k': 'draw', 'n': 'xi2'}}, 'b': {'k': 'var', 'j': 0}},
            'b': {'k': 'mul', 'a': {'k': 'var', 'j': 1}, 'b': {'k': 'mul', 'a': {'k': 'var', 'j': 1}, 'b': {'k': 'beta', 'i': 1}}}}
CORPUS_DERIVE2 = [
    # every group of the numbering non-empty and of a different size: 1 free, 1 fixed, 1 random variable, 2 draws, 3 columns
    {'N': 2, 'R': 7, 'dbcols': ['Z', 'Y', 'X'], 'vnames': ['X', 'Y'], 'bnames': ['b2', 'c_fix'], 'bstatus': [0, 1], 'bvals': [0.5, -0.25],
     'types': {'xi2': 'G1', 'a': 'UNIFORM_HALTON3'}, 'rv': {'name': 'omega', 'bi': 0, 'vj': 0, 'c0': 1.0},
     'tree': {'k': 'sub', 'a': _D2_TREE, 'b': {'k': 'mul', 'a': {'k': 'draw', 'n': 'a'}, 'b': {'k': 'var', 'j': 1}}},
     'rows': [[3.0, 0.5, 1.0], [4.0, -1.0, 2.0]], 'wrt': wrt, 'idx': idx, 'form': form}
    for wrt, idx, form in (('var', 0, 'derive-of-mc'), ('var', 1, 'mc-of-derive'), ('beta', 1, 'derive-of-mc'), ('beta', 0, 'mc-of-derive'), ('rv', 0, 'derive-of-mc'))
]


_S_TREE = {'k': 'add', 'a': {'k': 'sub', 'a': {'k': 'mul', 'a': {'k': 'draw', 'n': 'zeta'}, 'b': {'k': 'beta', 'i': 0}}, 'b': {'k': 'mul', 'a': {'k': 'draw', 'n': 'alpha'}, 'b': {'k': 'var', 'j': 0}}},
           'b': {'k': 'mul', 'a': {'k': 'draw', 'n': 'zeta'}, 'b': {'k': 'draw', 'n': 'alpha'}}}
CORPUS_SESSION = [
    # `zeta` is used before `alpha`; two objects with the same seed on one database, an expression evaluated on it in between,
    # numbers taken from the generator, number_of_draws assigned; every entry point
    {'N': 3, 'seed0': 99, 'betas': [0.5, -0.25], 'rows': [[1.0, 0.5], [2.0, -1.0], [-0.5, 0.0]], 'ops': [
        {'k': 'new', 'seed': 4242, 'decl': [['zeta', tz], ['alpha', ta]], 'R': 4, 'tree': _S_TREE, 'layout': 'is-ll', 'll_key': 'log_like'},
        {'k': 'evalB', 'i': 0, 'via': 'simulate'}, {'k': 'evalB', 'i': 0, 'via': 'calculate_likelihood'}, {'k': 'consume', 'n': 17},
        {'k': 'evalE', 'decl': [['zeta', tz], ['alpha', ta]], 'R': 2, 'tree': _S_TREE, 'via': 'gvad'},
        {'k': 'evalE', 'decl': [['xi2', 'G2']], 'R': 3, 'tree': {'k': 'mul', 'a': {'k': 'draw', 'n': 'xi2'}, 'b': {'k': 'beta', 'i': 1}}, 'via': 'create_function'},
        {'k': 'createF', 'decl': [['zeta', tz], ['alpha', ta]], 'R': 2, 'tree': _S_TREE}, {'k': 'callF', 'shift': 0.5}, {'k': 'consume', 'n': 1}, {'k': 'callF', 'shift': 0.0},
        {'k': 'setR', 'i': 0, 'R': 100, 'alias': True}, {'k': 'evalB', 'i': 0, 'via': 'cl_and_derivatives'}, {'k': 'evalB', 'i': 0, 'via': 'calculate_init_likelihood'},
        {'k': 'new', 'seed': 4242, 'decl': [['zeta', tz], ['alpha', ta]], 'R': 4, 'tree': _S_TREE, 'layout': 'is-ll', 'll_key': 'log_like'},
        {'k': 'evalB', 'i': 1, 'via': 'calculate_likelihood_scaled'}, {'k': 'evalB', 'i': 0, 'via': 'simulate'}, {'k': 'evalB', 'i': 1, 'via': 'simulate'}]}
    for tz, ta in (('G0', 'UNIFORM_HALTON3'), ('NORMAL', 'UNIFORMSYM_MLHS_ANTI'), ('NORMAL_MLHS_ANTI', 'NORMAL_MLHS_ANTI'))
] + [
    # a formula is prepared / made a function; other formulas are REFUSED inside the generation of their draws (unknown type, wrong
    # shape - after a first variable was served); the prepared formula is evaluated again.  User types that are case variants of
    # native names and of each other.
    {'N': 3, 'seed0': 7, 'betas': [0.5, -0.25], 'rows': [[1.0, 0.5], [2.0, -1.0], [-0.5, 0.0]], 'ops': [
        {'k': 'createF', 'decl': [['zeta', tz], ['alpha', ta]], 'R': 4, 'tree': _S_TREE, 'how': how}, {'k': 'callF', 'shift': 0.0},
        {'k': 'evalE', 'decl': [['a', 'G0'], ['b', bad]], 'R': 4, 'tree': {'k': 'mul', 'a': {'k': 'draw', 'n': 'a'}, 'b': {'k': 'draw', 'n': 'b'}}, 'via': 'get_value_c', 'refused': True},
        {'k': 'callF', 'shift': 0.5},
        {'k': 'new', 'seed': 3, 'decl': [['a', 'g1'], ['b', bad]], 'R': 4, 'tree': {'k': 'mul', 'a': {'k': 'draw', 'n': 'a'}, 'b': {'k': 'draw', 'n': 'b'}}, 'layout': 'only', 'll_key': 'log_like', 'refused': True},
        {'k': 'callF', 'shift': 0.0}]}
    for tz, ta, how, bad in (('Uniform', 'normal_anti', 'prepare', 'GBAD'), ('g1', 'G1', 'create_function', 'NORMALL'), ('Normal_MLHS', 'UNIFORM_HALTON', 'prepare', 'uniform'))
] + [
    # the same NAME declared with another type in a later operation, same number of draws; the same expression object evaluated
    # again with another number of draws
    {'N': 2, 'seed0': 5, 'betas': [0.5, -0.25], 'rows': [[1.0, 0.5], [2.0, -1.0]], 'ops': [
        {'k': 'evalE', 'decl': [['zeta', 'G1']], 'R': 4, 'tree': {'k': 'mul', 'a': {'k': 'draw', 'n': 'zeta'}, 'b': {'k': 'beta', 'i': 0}}, 'via': 'get_value_c'},
        {'k': 'evalE', 'decl': [['zeta', 'UNIFORM_HALTON2']], 'R': 4, 'tree': {'k': 'mul', 'a': {'k': 'draw', 'n': 'zeta'}, 'b': {'k': 'beta', 'i': 0}}, 'via': 'get_value_c'},
        {'k': 'evalE', 'decl': [['zeta', 'UNIFORM_HALTON2']], 'R': 2, 'tree': {'k': 'mul', 'a': {'k': 'draw', 'n': 'zeta'}, 'b': {'k': 'beta', 'i': 0}}, 'via': 'gvad', 'reuse_of': 1},
        {'k': 'new', 'seed': 0, 'decl': [['zeta', 'UNIFORMSYM']], 'R': 2, 'tree': {'k': 'mul', 'a': {'k': 'draw', 'n': 'zeta'}, 'b': {'k': 'beta', 'i': 0}}, 'layout': 'only', 'll_key': 'log_like'},
        {'k': 'evalB', 'i': 0, 'via': 'simulate'}]},
]


class EnginePoisoned(Exception):
    pass


def guard(res, stream, fn, *args):
    """an exception escaping a stream on valid inputs is a failure of the entry points; an engine error
    additionally poisons the process (the engine keeps a stale exception), so the run stops there"""
    try:
        fn(*args)
    except Exception as e:  # noqa: BLE001
        res.violate(f'{stream}: the real code raises {type(e).__name__}: {str(e)[:200]} on valid inputs', {'stream': stream}, core.exc_kind(e), 'no exception', where=stream)
        if isinstance(e, RuntimeError):
            raise EnginePoisoned() from e


def check_impl(ctx) -> Result:
    res = Result(rule=RULE, tolerance='draw table, refusals, seeds: exact; Monte-Carlo and Derive: rel 1e-11; Integrate vs closed forms: 1e-6; Derive vs finite differences: 1e-5; Derive in context vs forward-mode derivative: 1e-11 x forward error bound (+ 1e-6 for an Integrate term), vs finite differences 1e-5 + 1e-7 x magnitude bound')
    rng = ctx.rng
    try:
        for _ in range(ctx.n(150, 5000)):
            guard(res, 'Database.generate_draws', check_table, ctx, res, rng)
            if len(res.violations) > 5:
                break
        for _ in range(ctx.n(60, 1000)):
            guard(res, 'Database.set_random_number_generators / generate_draws', check_refusals, ctx, res, rng)
            if len(res.violations) > 8:
                break
        if res.violations:
            # with a wrong draw table or dispatch the engine reads undefined memory: report what was found
            res.notes.append('engine streams skipped: the draw table / dispatch streams already failed')
            ctx.batch.flush()
            return res
        for c in CORPUS_MC:
            guard(res, 'MonteCarlo', check_mc, ctx, res, c)
            res.tally('corpus')
        for _ in range(ctx.n(300, 10000)):
            guard(res, 'MonteCarlo', check_mc, ctx, res, gen_mc_case(rng))
            if len(res.violations) > 10:
                break
        for c in CORPUS_SEED:
            guard(res, 'BIOGEME seed', check_seed, ctx, res, c)
            res.tally('corpus')
        base = len(res.violations)
        for _ in range(ctx.n(50, 600)):
            guard(res, 'BIOGEME seed', check_seed, ctx, res, gen_seed_case(rng))
            if len(res.violations) - base > 10:
                break
        for _ in range(ctx.n(12, 200)):
            guard(res, 'BIOGEME seed (state)', check_seed_state, ctx, res, rng)
        for _ in range(ctx.n(80, 2000)):
            guard(res, 'Integrate', check_integrate, ctx, res, rng)
        for _ in range(ctx.n(120, 4000)):
            guard(res, 'Derive', check_derive, ctx, res, rng)
        for c in CORPUS_DERIVE2:
            guard(res, 'Derive (in context)', check_derive2, ctx, res, c)
            res.tally('corpus')
        base = len(res.violations)
        for _ in range(ctx.n(300, 5000)):
            guard(res, 'Derive (in context)', check_derive2, ctx, res, gen_derive2_case(rng))
            if len(res.violations) - base > 10:
                break
        for c in CORPUS_SESSION:
            guard(res, 'session', check_session, ctx, res, c)
            res.tally('corpus')
        base = len(res.violations)
        for _ in range(ctx.n(70, 1000)):
            guard(res, 'session', check_session, ctx, res, gen_session(rng))
            if len(res.violations) - base > 10:
                break
        base = len(res.violations)
        for _ in range(ctx.n(2, 20)):
            for ty in native_names():
                guard(res, 'BIOGEME seed', check_native_seed, ctx, res, gen_native_case(rng, ty))
            if len(res.violations) - base > 10:
                break
        for _ in range(ctx.n(60, 1000)):
            guard(res, 'Integrate', check_integrate2, ctx, res, gen_integrate2_case(rng))
        for _ in range(ctx.n(12, 150)):
            guard(res, 'MonteCarlo', check_estimate, ctx, res, gen_estimate_case(rng))
    except EnginePoisoned:
        res.notes.append('run stopped after an engine exception (the engine keeps it for the rest of the process)')
    ctx.batch.flush()
    ctx.batch.flush()  # the session stream asks the model twice (tables described, then values on the resolved tables)
    return res


class _NoBatch:
    def add_many(self, reqs, cb):
        pass


class _Ctx2:
    def __init__(self, rng):
        self.rng = rng
        self.batch = _NoBatch()


def search(ctx, res, broken):
    rng = core.rng_for('C10-search', ctx.seed)
    c2 = _Ctx2(rng)
    for i in range(400):
        r2 = Result()
        check_mc(c2, r2, gen_mc_case(rng))
        check_table(c2, r2, rng)
        check_derive2(c2, r2, gen_derive2_case(rng))
        check_session(c2, r2, gen_session(rng))
        check_native_seed(c2, r2, gen_native_case(rng))
        if i % 4 == 0:
            check_integrate(c2, r2, rng)
            check_integrate2(c2, r2, gen_integrate2_case(rng))
            check_derive(c2, r2, rng)
            check_seed(c2, r2, gen_seed_case(rng))
        if r2.violations:
            res.violations.extend(r2.violations[:1])
            return


def replay_impl(ctx, obj):
    case = obj.get('case') or {}
    out = {'replayed': obj.get('what')}
    c2 = _Ctx2(core.rng_for('C10-replay', 0))
    r = Result()
    if 'ops' in case:
        check_session(c2, r, case)
    elif 'native' in case:
        check_native_seed(c2, r, case)
    elif 'rvs' in case and 'specs' in case:
        check_integrate2(c2, r, case)
    elif case.get('estimate'):
        check_estimate(c2, r, case)
    elif 'dbcols' in case and 'tree' in case:
        check_derive2(c2, r, case)
    elif 'between' in case and 'tree' in case:
        check_seed(c2, r, case)
    elif 'tree' in case and 'types' in case:
        check_mc(c2, r, case)
    else:
        # the other streams draw their inputs from the generator: re-run a stretch of them
        for _ in range(60):
            check_table(c2, r, c2.rng)
            check_refusals(c2, r, c2.rng)
            check_integrate(c2, r, c2.rng)
            check_derive(c2, r, c2.rng)
        for _ in range(6):
            check_seed(c2, r, gen_seed_case(c2.rng))
    out.update({'property_fails': bool(r.violations), 'violations': r.violations[:3]})
    return out


# ----------------------------------------------------------------------------- entry points (isolated)


def check(ctx) -> Result:
    """the streams run in a fresh interpreter: an engine that dies is reported with the case being evaluated"""
    return iso_f.run_check_isolated('props.c10', ctx, 'MonteCarlo')


def replay(ctx, obj):
    return iso_f.run_replay_isolated('props.c10', ctx, obj)
