"""C11 — every named draw type delivers the distribution and structure it advertises.

Tie: translator (T) + correspondence (C).
* `translate` reads the ast of the live `native_draws.py` (call pattern and keyword arguments of
  the helper function behind each catalogue entry, resolved with the real signatures of
  `draws.*`) and its description strings, and rewrites `lean/Generated/DrawCatalogue.lean`; the
  kernel then re-checks `C11.catalogue_matches_description` / `catalogue_distinct_bases` on it.
* `check` runs all catalogued generators for generated sizes with `np.random.uniform/shuffle`
  replaced *in the harness* by recorded streams that are handed to the Lean driver as well,
  compares the arrays (bit-exact for uniform/Halton/MLHS types), applies the oracles of the
  statement to the real arrays (shape, support, radical inverse in exact rational arithmetic, one
  point per stratum, mirror halves, 2u-1, quantiles), and compares
  `get_normal_wichura_draws(uniform_numbers=u)` on a grid dense in the tails with the code model
  and with the reference AS241.
* `check_user_generators` drives `Database.generate_draws` with user-defined generators that deliver
  arrays of every layout (right shape, right number of elements in the wrong shape, wrong number of
  elements) next to native types: anything but (sample size, number of draws) must be refused by the
  library error, and an accepted table must hold exactly what each generator delivered
  (oracle in Python, and compared with `Draws.generateDraws`).
* `check_session` (round 3) drives HISTORIES within one process: catalogue entries, the generators of draws.py called
  directly with every option (`shuffled`, `symmetric`, `base`, `skip`, given `uniform_numbers`, `antithetic`) and through
  their deprecated aliases, `get_antithetic` of each kind of generator, repeated `Database.generate_draws` calls on one object
  (same type for several variables, other numbers of draws, after `remove` / `panel` changed the sample size), mixed with a
  caller working in place on arrays it received (`a *= c`, `a[:] = c`, rows reversed).  Every call must return what the
  statement says whatever happened before (oracles on the real arrays; exact radical inverse), an array nobody touched
  must keep its value, and the whole history is compared with `Draws.run` (what each call returned = the stateless function
  of the call; the arrays as the caller holds them at the end).  The check itself is one long history: a violation is
  confirmed in a fresh interpreter (`confirm_violations`) so that the stored case is the complete failing input.
* `check_registry` drives histories of `set_random_number_generators` (accepted / refused tables, plain tuples, alias) and
  then requests by name: a catalogue name always delivers the catalogue's draws (`Draws.resolve`, `registryAfter`).
"""

from __future__ import annotations

import ast
import contextlib
import inspect
import math
import re
from fractions import Fraction
from pathlib import Path

import numpy as np

from lib import core
from lib.core import Result, f2b, b2f

READY = True
EXTRA_MODULES = ['Generated.DrawCatalogue']
MANIFEST = dict(
    text='Proof (Lean 4): the array-doubling loops of get_halton_draws produce the radical-inverse sequence of base b after the skip, for every '
    'b >= 2, length and skip (C11.halton_is_radical_inverse, induction over the loop), values in [0,1); Latin hypercube places exactly one point in each '
    'stratum for any uniforms in [0,1) and any permutation (lhs_one_per_stratum), also after 2u-1; antithetic arrays are a first half and its mirror; '
    'symmetric = 2u-1; shapes n x R (even R for antithetic types) as Database.generate_draws demands; generate_draws accepts exactly the shape (n, R) from any '
    'generator - the same number of elements in another layout is refused (same_count_wrong_layout_refused, generate_draws_refuses_wrong_shape) - and the table '
    'holds element [i][j] of each accepted array at [i][j][v] (generate_draws_table); the reference AS241 is odd and each branch receives '
    'an argument in the fitted range; the function as coded agrees with AS241 where the branch tests coincide (wichura_agrees_partial) and provably takes the '
    'wrong branch on (0,0.075) and (0.45,0.925] (known finding F02); the catalogue regenerated from the source matches its descriptions and entries '
    'advertising different bases start with different numbers. Round 3 - histories within one process (Model/DrawsSession.lean): for every list of calls '
    '(catalogue entries, get_halton_draws with shuffled / symmetric / base / skip, get_latin_hypercube_draws and get_normal_wichura_draws with given uniform numbers '
    'and their error branches) mixed with in-place operations of the caller on arrays it received, every call returns the stateless function of the call '
    '(session_every_call_is_stateless, session_call_after_any_history), a caller writes only the array it names (session_caller_writes_only_its_array, '
    'session_untouched_array_keeps_value), a Halton entry / direct call after ANY history is the radical-inverse sequence (halton_entry_after_any_history, '
    'halton_call_after_any_history), shuffled=True is a permutation of it (halton_shuffled_is_permutation), refused requests (direct_calls_refuse); the registry of '
    'user-defined generators never holds a catalogue name and a catalogue name always resolves to the catalogue entry after any history of registrations '
    '(catalogue_name_never_hijacked, registration_replaces_or_refuses, resolve_unknown_or_user). Tie: translator (ast of native_draws.py) + correspondence with '
    'recorded random streams, on single calls AND on generated histories run in one process (real arrays vs Draws.run, bit for bit).',
    design='DESIGN.md §5 C11',
    technique='Lean 4 theorems over an executable model + catalogue translator + differential correspondence with recorded random streams',
    note='Partial: accuracy of AS241 itself w.r.t. the normal quantile is taken from the literature (scipy.stats.norm.ppf is a second opinion in the search); '
    'normal draws for u in (0,0.075) and (0.45,0.925] are a KNOWN FINDING (F02: wrong branch test, error up to 3.8), reported and not repaired because the '
    'repair changes seeded draws pinned by two baseline tests. The docstring of get_halton_draws says "each series is shuffled"; the code shuffles the flat array as a '
    'whole (modelled as coded; the statement of C11 does not speak about it). set_random_number_generators replaces the registry (modelled); a merge would only be noted.',
)

TRUSTED = [
    'numpy array primitives (slicing, concatenate, reshape) and the replaced np.random.uniform / np.random.shuffle (recorded streams, harness side)',
    'the translator (ast of native_draws.py, signatures of draws.*) reports the source faithfully; every entry is also run and compared',
    'accuracy of the published AS241 coefficients (Wichura 1988); scipy.stats.norm.ppf only as a second opinion in the search',
    'R vs IEEE double for the LHS / AS241 statements; Halton numbers are compared in exact rational arithmetic',
    'sessions: the caller reaches the arrays only through the objects the calls returned (not through .base of a view); numpy in-place arithmetic on them',
    'pandas / Database.remove / Database.panel used by the sessions to change the sample size between two calls of generate_draws',
]
ASSUMPTIONS = [
    'base >= 2 (Halton theorem)',
    'uniform inputs in [0,1) and a permutation of range(N) (Latin hypercube theorem)',
    '0 < u < 1 (AS241 theorems)',
    'sessions: the two random calls deliver to each call the recorded numbers / permutation (they are parameters of the call in the model)',
    'shuffled Halton theorem: the permutation delivered by np.random.shuffle is a permutation of range(length)',
]
RULE = (
    'all 21 native types x sample sizes 1..7 x even draw counts 2..24 (plus odd counts as malformed stream) with recorded random streams; '
    'get_normal_wichura_draws on a grid dense in both tails (1e-300 .. 1-1e-16) and random u; Database.generate_draws (also through the deprecated alias, '
    'cross-section and panel data) with 1..3 variables whose user-defined generators deliver every layout of array (exact in C / Fortran order, transposed, '
    'one-dimensional, column, row, extra axis of length 1, another factorisation of n*R, other numbers of elements, empty, 0-d) mixed with native types; '
    'histories within one process: 7 fixed + generated sessions of 4..10 operations (catalogue entries biased to one base, direct generators with all options and '
    'deprecated aliases, get_antithetic of uniform / MLHS / Halton, generate_draws on one Database with repeated types and after remove / panel, caller scale / fill / '
    'reverse on earlier arrays), each run from its first operation; histories of 1..4 registrations of user-defined generators (with attempts on catalogue names) followed '
    'by requests by name; non-trivial = array with >= 4 elements, a quantile input outside [0.4, 0.6], a session of >= 2 operations, any registry history'
)

W_F02 = 'draws.get_normal_wichura_draws: np.abs(uniform_numbers) <= 0.45'


def in_defect_region(u: float) -> bool:
    """where the branch test of the code and the published one disagree"""
    return (0.0 < u < 0.075) or (0.45 < u <= 0.925)


MATCHERS = {
    'u_in_defect_region': lambda case: isinstance(case, dict) and bool(case.get('u')) and all(in_defect_region(float(u)) for u in case['u']),
}

# --------------------------------------------------------------------------- translator

FAMILY_OF = {'get_uniform': 'uniform', 'get_latin_hypercube_draws': 'mlhs', 'get_halton_draws': 'halton'}


class Opaque(Exception):
    pass


def _const(node):
    if isinstance(node, ast.Constant):
        return node.value
    if isinstance(node, ast.UnaryOp) and isinstance(node.op, ast.USub) and isinstance(node.operand, ast.Constant):
        return -node.operand.value
    raise Opaque(f'not a literal: {ast.dump(node)[:60]}')


def _is_draws_attr(node):
    return isinstance(node, ast.Attribute) and isinstance(node.value, ast.Name) and node.value.id == 'draws'


def _bind(func_name, call, env, draws_mod):
    """arguments of a call to draws.<func_name>, resolved with the real signature and defaults"""
    sig = inspect.signature(getattr(draws_mod, func_name))
    names = list(sig.parameters)
    bound = {}
    for i, a in enumerate(call.args):
        bound[names[i]] = a
    for kw in call.keywords:
        if kw.arg is None or kw.arg not in names:
            raise Opaque('unknown keyword')
        bound[kw.arg] = kw.value
    out = {}
    for n in names:
        if n in bound:
            out[n] = bound[n]
        else:
            d = sig.parameters[n].default
            out[n] = None if d is inspect.Parameter.empty else ('default', d)
    return out


def _val(x):
    if isinstance(x, tuple) and x[0] == 'default':
        return x[1]
    return _const(x)


def _size(node, env):
    """symbolic number of draws: 'R' or 'R2' (= int(R / 2))"""
    if isinstance(node, ast.Name):
        v = env.get(node.id)
        if v in ('R', 'R2'):
            return v
        raise Opaque('size')
    if isinstance(node, ast.Call) and isinstance(node.func, ast.Name) and node.func.id == 'int' and len(node.args) == 1:
        a = node.args[0]
        if (isinstance(a, ast.BinOp) and isinstance(a.op, ast.Div) and isinstance(a.left, ast.Name)
                and env.get(a.left.id) == 'R' and _const(a.right) in (2, 2.0)):
            return 'R2'
    raise Opaque('size')


def _expect_n(node, env):
    if not (isinstance(node, ast.Name) and env.get(node.id) == 'n'):
        raise Opaque('sample size argument')


def _direct(attr, draws_mod):
    """a generator of draws.py used directly with its defaults"""
    sig = inspect.signature(getattr(draws_mod, attr))
    d = {k: v.default for k, v in sig.parameters.items()}
    if attr == 'get_uniform':
        return dict(family='uniform', symmetric=bool(d['symmetric']), antithetic=False, normal=False, r='R')
    if attr == 'get_latin_hypercube_draws':
        return dict(family='mlhs', symmetric=bool(d['symmetric']), antithetic=False, normal=False, r='R')
    if attr == 'get_halton_draws':
        if d['shuffled']:
            raise Opaque('shuffled')
        return dict(family='halton', base=int(d['base']), skip=int(d['skip']), symmetric=bool(d['symmetric']), antithetic=False, normal=False, r='R')
    if attr == 'get_normal_wichura_draws':
        return dict(family='uniform', symmetric=False, antithetic=bool(d['antithetic']), normal=True, r='R')
    raise Opaque(attr)


def _eval(node, env, funcs, draws_mod, depth=0):
    """abstract value of an expression: an array descriptor"""
    if depth > 4:
        raise Opaque('depth')
    if isinstance(node, ast.Name):
        v = env.get(node.id)
        if isinstance(v, dict):
            return v
        raise Opaque('name')
    if not isinstance(node, ast.Call):
        raise Opaque('expression')
    f = node.func
    if _is_draws_attr(f):
        attr = f.attr
        if attr in FAMILY_OF:
            b = _bind(attr, node, env, draws_mod)
            _expect_n(b['sample_size'], env)
            r = _size(b['number_of_draws'], env)
            sym = bool(_val(b['symmetric']))
            if attr == 'get_halton_draws':
                if _val(b['shuffled']):
                    raise Opaque('shuffled')
                return dict(family='halton', base=int(_val(b['base'])), skip=int(_val(b['skip'])), symmetric=sym, antithetic=False, normal=False, r=r)
            if attr == 'get_latin_hypercube_draws' and not (isinstance(b['uniform_numbers'], tuple) and b['uniform_numbers'][1] is None):
                raise Opaque('uniform_numbers')
            return dict(family=FAMILY_OF[attr], symmetric=sym, antithetic=False, normal=False, r=r)
        if attr == 'get_antithetic':
            b = _bind(attr, node, env, draws_mod)
            g = b['uniform_draws']
            if not _is_draws_attr(g):
                raise Opaque('antithetic generator')
            base = _direct(g.attr, draws_mod)
            if base['normal'] or base['symmetric']:
                raise Opaque('antithetic of a non-unit generator')
            _expect_n(b['sample_size'], env)
            if _size(b['number_of_draws'], env) != 'R':
                raise Opaque('size')
            return {**base, 'antithetic': True, 'r': 'R'}
        if attr == 'get_normal_wichura_draws':
            b = _bind(attr, node, env, draws_mod)
            _expect_n(b['sample_size'], env)
            if _size(b['number_of_draws'], env) != 'R':
                raise Opaque('size')
            anti = bool(_val(b['antithetic']))
            un = b['uniform_numbers']
            if isinstance(un, tuple):
                if un[1] is not None:
                    raise Opaque('uniform default')
                return dict(family='uniform', symmetric=False, antithetic=anti, normal=True, r='R')
            u = _eval(un, env, funcs, draws_mod, depth + 1)
            if u['symmetric'] or u['antithetic'] or u['normal']:
                raise Opaque('normal of a non-unit array')
            if u['r'] != ('R2' if anti else 'R'):
                raise Opaque('size of the uniform numbers')
            return {**u, 'antithetic': anti, 'normal': True, 'r': 'R'}
        raise Opaque(attr)
    if isinstance(f, ast.Name) and f.id in funcs:
        if len(node.args) != 2 or node.keywords:
            raise Opaque('call')
        _expect_n(node.args[0], env)
        r = _size(node.args[1], env)
        inner = _analyse(funcs[f.id], funcs, draws_mod, depth + 1)
        if inner['r'] != 'R':
            raise Opaque('inner size')
        return {**inner, 'r': r}
    if (isinstance(f, ast.Attribute) and f.attr == 'concatenate' and isinstance(f.value, ast.Name) and f.value.id == 'np'
            and len(node.args) == 1 and isinstance(node.args[0], ast.Tuple) and len(node.args[0].elts) == 2):
        axis = [kw for kw in node.keywords if kw.arg == 'axis']
        if len(axis) != 1 or _const(axis[0].value) != 1 or len(node.keywords) != 1:
            raise Opaque('axis')
        a, m = node.args[0].elts
        if not (isinstance(a, ast.Name) and isinstance(m, ast.UnaryOp) and isinstance(m.op, ast.USub)
                and isinstance(m.operand, ast.Name) and m.operand.id == a.id):
            raise Opaque('mirror')
        x = _eval(a, env, funcs, draws_mod, depth + 1)
        if x['r'] != 'R2' or x['antithetic'] or not (x['symmetric'] or x['normal']):
            raise Opaque('negated half of a non-symmetric array')
        return {**x, 'antithetic': True, 'r': 'R'}
    raise Opaque('call')


def _analyse(fn: ast.FunctionDef, funcs, draws_mod, depth=0):
    params = [a.arg for a in fn.args.args]
    if len(params) != 2:
        raise Opaque('parameters')
    env = {params[0]: 'n', params[1]: 'R'}
    body = [s for s in fn.body if not (isinstance(s, ast.Expr) and isinstance(s.value, ast.Constant))]
    for s in body[:-1]:
        if not (isinstance(s, ast.Assign) and len(s.targets) == 1 and isinstance(s.targets[0], ast.Name)):
            raise Opaque('statement')
        try:
            env[s.targets[0].id] = _size(s.value, env)
        except Opaque:
            env[s.targets[0].id] = _eval(s.value, env, funcs, draws_mod, depth)
    if not body or not isinstance(body[-1], ast.Return):
        raise Opaque('return')
    out = _eval(body[-1].value, env, funcs, draws_mod, depth)
    if out['r'] != 'R':
        raise Opaque('returned size')
    return out


def parse_description(d: str):
    low = d.lower()
    kind = 1 if 'halton' in low else (2 if ('latin hypercube' in low or 'mlhs' in low) else 0)
    m = re.search(r'base (\d+)', low)
    base = int(m.group(1)) if m else None
    m = re.search(r'skipping the first (\d+)', low)
    skip = int(m.group(1)) if m else None
    normal = 'normal' in low
    if '[-1, 1]' in d:
        interval = 'sym'
    elif '[0, 1]' in d:
        interval = 'unit'
    else:
        interval = 'real' if normal else 'unit'
    return dict(kind=kind, base=base, skip=skip, interval=interval, antithetic='antithetic' in low, normal=normal)


def extract_catalogue():
    """[(name, gen-dict or None (opaque), description, advertised-dict)] from the live source"""
    import biogeme.draws as draws_mod
    import biogeme.native_draws as nd

    tree = ast.parse(Path(nd.__file__).read_text())
    funcs = {s.name: s for s in tree.body if isinstance(s, ast.FunctionDef)}
    table = None
    for s in tree.body:
        if isinstance(s, ast.Assign) and any(isinstance(t, ast.Name) and t.id == 'native_random_number_generators' for t in s.targets):
            table = s.value
    out = []
    if not isinstance(table, ast.Dict):
        return out
    for k, v in zip(table.keys, table.values):
        name = _const(k)
        gen = None
        desc = ''
        try:
            if not isinstance(v, ast.Call):
                raise Opaque('entry')
            args = {kw.arg: kw.value for kw in v.keywords}
            if v.args:
                args.setdefault('generator', v.args[0])
                if len(v.args) > 1:
                    args.setdefault('description', v.args[1])
            desc = _const(args['description'])
            g = args['generator']
            if _is_draws_attr(g):
                gen = _direct(g.attr, draws_mod)
            elif isinstance(g, ast.Name) and g.id in funcs:
                gen = _analyse(funcs[g.id], funcs, draws_mod)
            else:
                raise Opaque('generator')
        except (Opaque, KeyError, IndexError, TypeError, ValueError):
            gen = None
        out.append((name, gen, desc, parse_description(desc if isinstance(desc, str) else '')))
    return out


def _lean_bool(b):
    return 'true' if b else 'false'


def _lean_opt(x):
    return 'none' if x is None else f'some {int(x)}'


def render_catalogue(cat) -> str:
    lines = [
        '/- GENERATED by harness/props/c11.py (translate) from the ast of biogeme/native_draws.py and its',
        '   description strings.  Rewritten on every run; do not edit. -/',
        'import Model.Draws',
        'open Draws',
        '',
        'namespace Generated',
        '',
        'def drawCatalogue : List CatEntry := [',
    ]
    rows = []
    for name, gen, desc, adv in cat:
        if gen is None:
            fam, sym, anti, normal = '.unknown', False, False, False
        else:
            fam = {'uniform': '.uniform', 'mlhs': '.mlhs'}.get(gen['family']) or f'.halton {gen["base"]} {gen["skip"]}'
            sym, anti, normal = gen['symmetric'], gen['antithetic'], gen['normal']
        rows.append(
            f'  -- {desc}\n'
            f'  {{ name := {json_str(name)},\n'
            f'    gen := {{ family := {fam}, symmetric := {_lean_bool(sym)}, antithetic := {_lean_bool(anti)}, normal := {_lean_bool(normal)} }},\n'
            f'    adv := {{ kind := {adv["kind"]}, base := {_lean_opt(adv["base"])}, skip := {_lean_opt(adv["skip"])}, interval := .{adv["interval"]}, '
            f'antithetic := {_lean_bool(adv["antithetic"])}, normal := {_lean_bool(adv["normal"])} }} }}'
        )
    lines.append(',\n'.join(rows))
    lines += [']', '', 'end Generated', '']
    return '\n'.join(lines)


def json_str(s):
    import json

    return json.dumps(str(s), ensure_ascii=True)


def entry_ok(gen, adv):
    """the Python twin of CatEntry.ok (only used to word the broken obligation)"""
    if gen is None:
        return False, 'source shape not recognised (opaque)'
    kind = {'uniform': 0, 'halton': 1, 'mlhs': 2}[gen['family']]
    interval = 'real' if gen['normal'] else ('sym' if gen['symmetric'] else 'unit')
    problems = []
    if kind != adv['kind']:
        problems.append(f'family {gen["family"]} vs advertised kind {adv["kind"]}')
    if gen['family'] == 'halton':
        if adv['base'] != gen['base']:
            problems.append(f'base {gen["base"]} vs advertised {adv["base"]}')
        if adv['skip'] is not None and adv['skip'] != gen['skip']:
            problems.append(f'skip {gen["skip"]} vs advertised {adv["skip"]}')
    elif adv['base'] is not None or adv['skip'] is not None:
        problems.append('base/skip advertised for a non-Halton generator')
    if interval != adv['interval']:
        problems.append(f'interval {interval} vs advertised {adv["interval"]}')
    if gen['antithetic'] != adv['antithetic']:
        problems.append(f'antithetic {gen["antithetic"]} vs advertised {adv["antithetic"]}')
    if gen['normal'] != adv['normal']:
        problems.append(f'normal {gen["normal"]} vs advertised {adv["normal"]}')
    return (not problems), '; '.join(problems)


_CAT_CACHE = {}


def translate(ctx):
    cat = extract_catalogue()
    _CAT_CACHE['cat'] = cat
    text = render_catalogue(cat)
    p = core.LEAN / 'Generated' / 'DrawCatalogue.lean'
    if not p.exists() or p.read_text() != text:
        p.write_text(text)
    obl = []
    if not cat:
        obl.append({'name': 'Generated.drawCatalogue: table found in native_draws.py', 'ok': False, 'why': 'native_random_number_generators is not a dict literal any more'})
    for name, gen, desc, adv in cat:
        ok, why = entry_ok(gen, adv)
        if gen is None:
            obl.append({'name': f'Generated.drawCatalogue[{name}] recognised', 'ok': False, 'why': why})
        elif not ok:
            # the kernel obligation C11.catalogue_matches_description fails as well; this line names the entry
            obl.append({'name': f'Generated.drawCatalogue[{name}] matches its description {desc!r}', 'ok': False, 'why': why})
    return obl


# --------------------------------------------------------------------------- recorded random streams


class Stream:
    """replacement of np.random.uniform / np.random.shuffle: values come from the harness PRNG (or from
    a recording) and are recorded so that the Lean driver receives the same numbers"""

    EDGE = [0.5, 0.25, 0.075, 0.45, 0.925, 0.0749999, 0.9250001, 1e-6, 1e-12, 1 - 1e-9, 0.4500001, 2.0**-40]

    def __init__(self, rng=None, us=None, perms=None, edges=True):
        self.rng = rng
        self.us: list[float] = []
        self.perms: list[list[int]] = []
        self._us = list(us) if us is not None else None
        self._perms = [list(p) for p in perms] if perms is not None else None
        self.edges = edges

    def _one(self):
        if self._us is not None:
            return self._us.pop(0)
        if self.edges and self.rng.random() < 0.08:
            return self.rng.choice(self.EDGE)
        v = self.rng.random()
        return v if v > 0.0 else 0.5

    def uniform(self, low=0.0, high=1.0, size=None):
        k = 1 if size is None else int(np.prod(size))
        vals = [self._one() for _ in range(k)]
        self.us += vals
        return np.array(vals, dtype=float).reshape(size) if size is not None else vals[0]

    def shuffle(self, arr):
        n = len(arr)
        if self._perms is not None:
            perm = self._perms.pop(0)
        else:
            perm = list(range(n))
            self.rng.shuffle(perm)
        self.perms.append(list(perm))
        arr[:] = arr[np.array(perm, dtype=int)] if n else arr


@contextlib.contextmanager
def patched(stream: Stream):
    old_u, old_s = np.random.uniform, np.random.shuffle
    np.random.uniform, np.random.shuffle = stream.uniform, stream.shuffle
    try:
        yield stream
    finally:
        np.random.uniform, np.random.shuffle = old_u, old_s


def native():
    from biogeme.native_draws import native_random_number_generators

    return native_random_number_generators


def run_type(name, n, R, stream, keep=None):
    """real generator of a catalogued type; returns rows (list of lists) or {'err': kind}.
    `keep` (a list) receives the very object the generator returned (sessions work on it in place later)"""
    with patched(stream):
        try:
            a = native()[name].generator(n, R)
        except Exception as e:  # noqa: BLE001
            return {'err': core.exc_kind(e)}
    if keep is not None:
        keep.append(a)
    a = np.asarray(a, dtype=float)
    return {'rows': a.tolist(), 'shape': list(a.shape)}


# --------------------------------------------------------------------------- oracles (from the statement)


def radical_inverse(b: int, k: int) -> Fraction:
    x, f = Fraction(0), Fraction(1, b)
    while k > 0:
        x += (k % b) * f
        k //= b
        f /= b
    return x


def unit_of(x, interval):
    return (x + 1.0) / 2.0 if interval == 'sym' else x


def strata_ok(points, N):
    """exactly one point in each [s/N, (s+1)/N).  The statement is about real numbers: a point that
    rounding left within 1e-12/N of a stratum boundary is attributed to the stratum above the boundary"""
    seen = [0] * N
    for p in points:
        s = math.floor(p * N + 1e-12)
        if not (0 <= s < N):
            return False, f'point {p} outside [0,1)'
        seen[s] += 1
    bad = [s for s, c in enumerate(seen) if c != 1]
    return (not bad), (f'strata with != 1 point: {bad[:5]}' if bad else '')


UNDERLYING = {  # normal / symmetric type -> the unit type it is a transform of
    'UNIFORMSYM': 'UNIFORM', 'UNIFORMSYM_ANTI': 'UNIFORM_ANTI', 'UNIFORMSYM_HALTON2': 'UNIFORM_HALTON2',
    'UNIFORMSYM_HALTON3': 'UNIFORM_HALTON3', 'UNIFORMSYM_HALTON5': 'UNIFORM_HALTON5', 'UNIFORMSYM_MLHS': 'UNIFORM_MLHS',
    'UNIFORMSYM_MLHS_ANTI': 'UNIFORM_MLHS_ANTI',
    'NORMAL': 'UNIFORM', 'NORMAL_ANTI': 'UNIFORM_ANTI', 'NORMAL_HALTON2': 'UNIFORM_HALTON2', 'NORMAL_HALTON3': 'UNIFORM_HALTON3',
    'NORMAL_HALTON5': 'UNIFORM_HALTON5', 'NORMAL_MLHS': 'UNIFORM_MLHS', 'NORMAL_MLHS_ANTI': 'UNIFORM_MLHS_ANTI',
}

QTOL = 1e-13  # "near machine precision" for the normal quantile (relative, absolute floor 1e-15)


def qclose(a, b):
    return core.close(a, b, rel=QTOL, abs_=1e-15)


def check_type(ctx, res, name, n, R, rng, use_model=True, stream=None, keep=None):
    adv = parse_description(native()[name].description)
    st = stream or Stream(rng, edges=adv['normal'] and adv['kind'] == 0)
    real = run_type(name, n, R, st, keep=keep)
    case = {'kind': 'catalogue', 'name': name, 'n': n, 'R': R, 'us': list(st.us), 'perms': [list(p) for p in st.perms]}
    res.count({'type': name, 'n': n, 'R': R, 'h': core.canon_hash(st.us)}, nontrivial=n * R >= 4)
    res.tally(f'type:{name}')
    where = f'native_draws.native_random_number_generators[{name}]'
    if 'err' in real:
        res.violate(f'{name} raises {real["err"]} for n={n}, R={R} (even)', case, real['err'], f'array {n} x {R}', where=where)
        return
    rows = real['rows']
    # ---- shape
    if real['shape'] != [n, R]:
        res.violate(f'{name} returns an array of shape {real["shape"]}', case, real['shape'], [n, R], where=where)
        return
    flat = [x for r in rows for x in r]
    half = R // 2
    # ---- support
    if adv['interval'] == 'unit' and not all(0.0 <= x < 1.0 or (adv['antithetic'] and 0.0 < x <= 1.0) for x in flat):
        res.violate(f'{name}: entries outside the advertised support [0, 1]', case, [x for x in flat if not 0 <= x <= 1][:3], '[0,1]', where=where)
    if adv['interval'] == 'sym' and not all(-1.0 <= x <= 1.0 for x in flat):
        res.violate(f'{name}: entries outside the advertised support [-1, 1]', case, [x for x in flat if not -1 <= x <= 1][:3], '[-1,1]', where=where)
    if adv['normal'] and not all(math.isfinite(x) for x in flat):
        res.violate(f'{name}: non-finite normal draws', case, 'non-finite', 'finite', where=where)
    # ---- antithetic: first half and its mirror image
    if adv['antithetic']:
        for r in rows:
            a, b = r[:half], r[half:]
            mirror = [1.0 - x for x in a] if adv['interval'] == 'unit' else [-x for x in a]
            if b != mirror:
                res.violate(f'{name}: second half is not the mirror image of the first half', case, b[:4], mirror[:4], where=where)
                break
    gen_part = [x for r in rows for x in (r[:half] if adv['antithetic'] else r)]
    # ---- Halton: radical inverse of the advertised base after the advertised skip (exact rationals)
    if adv['kind'] == 1 and not adv['normal']:
        skip = adv['skip'] if adv['skip'] is not None else 10
        for k, x in enumerate(gen_part):
            ri = radical_inverse(adv['base'], k + skip + 1)
            exp = ri if adv['interval'] == 'unit' else 2 * ri - 1
            ok = (Fraction(x) == exp) if adv['base'] == 2 else abs(Fraction(x) - exp) <= Fraction(1, 10**12)
            if not ok:
                res.violate(f'{name}: element {k} is not the radical inverse of {k + skip + 1} in base {adv["base"]}', case, x, float(exp), where=where)
                break
    # ---- Latin hypercube: one point per stratum of the generated part
    if adv['kind'] == 2 and not adv['normal']:
        ok, why = strata_ok([unit_of(x, adv['interval']) for x in gen_part], len(gen_part))
        if not ok:
            res.violate(f'{name}: Latin hypercube strata: {why}', case, why, 'one point per stratum', where=where)
    # ---- symmetric / normal: transform of the unit type on the same random numbers
    base_rows = None
    if name in UNDERLYING:
        st2 = Stream(us=st.us, perms=st.perms)
        base = run_type(UNDERLYING[name], n, R, st2)
        if 'rows' in base and np.asarray(base['rows']).shape == (n, R):
            base_rows = base['rows']
            if adv['interval'] == 'sym':
                exp = [[2.0 * u - 1.0 for u in r] for r in base_rows]
                if adv['antithetic']:
                    exp = [r[:half] for r in exp]
                    got = [r[:half] for r in rows]
                else:
                    got = rows
                if got != exp:
                    res.violate(f'{name} is not 2u-1 of {UNDERLYING[name]} on the same random numbers', case, got[0][:4], exp[0][:4], where=where)
        else:
            # the unit type of the same family, requested for the same size right after this call (same random numbers),
            # does not deliver an array observations x draws: a call that is wrong because of the call before it
            res.violate(f'{UNDERLYING[name]} requested for the same size ({n} x {R}) right after {name} (same random numbers) does not return an array {n} x {R}',
                        case, base.get('err', base.get('shape')), [n, R], where=f'native_draws.native_random_number_generators[{UNDERLYING[name]}]')

    if not use_model:
        if adv['normal'] and base_rows is not None:
            from scipy.stats import norm

            us = [u for r in base_rows for u in (r[:half] if adv['antithetic'] else r)]
            zs = gen_part
            bad = [u for u, z in zip(us, zs) if not core.close(z, float(norm.ppf(u)), rel=1e-12, abs_=1e-14)]
            if bad:
                res.violate(f'{name}: draws are not the normal quantiles of the underlying uniform numbers (scipy second opinion)',
                            {**case, 'u': bad[:20]}, [z for u, z in zip(us, zs) if u in bad][:3], 'norm.ppf(u)', where=W_F02)
        return

    reqs = [{'op': 'generate', 'name': name, 'n': n, 'R': R, 'us': [f2b(u) for u in st.us],
             'perm': st.perms[0] if st.perms else []}]
    if adv['normal'] and base_rows is not None:
        us = [u for r in base_rows for u in (r[:half] if adv['antithetic'] else r)]
        reqs.append({'op': 'wichura', 'us': [f2b(u) for u in us]})
    else:
        us = None
    if len(st.perms) > 1:
        res.diverge(f'{name} shuffles {len(st.perms)} times (the model expects at most one)', case, 1, len(st.perms))

    def cb(ans):
        a = ans[0]
        if 'err' in a:
            res.diverge(f'{name}: the model refuses the request', case, a['err'], real['shape'])
            return
        m = [[b2f(v) for v in r] for r in a['rows']]
        if a['needs'] != len(st.us):
            res.diverge(f'{name}: number of uniform numbers requested', case, a['needs'], len(st.us))
        same = (len(m) == len(rows)) and all(len(x) == len(y) for x, y in zip(m, rows))
        if same:
            if adv['normal']:
                same = all(qclose(x, y) for r1, r2 in zip(m, rows) for x, y in zip(r1, r2))
            else:
                same = all(f2b(x) == f2b(y) for r1, r2 in zip(m, rows) for x, y in zip(r1, r2))
        if not same:
            res.diverge(f'{name}: array vs Draws.generate (catalogue entry regenerated from the source)', case, m[0][:4], rows[0][:4])
        if not a['shape_ok']:
            res.diverge(f'{name}: shape accepted by generate_draws', case, False, True)
        if us is not None:
            ref = [b2f(v) for v in ans[1]['ref']]
            bad = [(u, z, q) for u, z, q in zip(us, gen_part, ref) if not qclose(z, q)]
            if bad:
                res.violate(f'{name}: draws are not the normal quantiles of the underlying uniform numbers',
                            {**case, 'u': [b[0] for b in bad][:40]}, [b[1] for b in bad][:3], [b[2] for b in bad][:3], where=W_F02)

    ctx.batch.add_many(reqs, cb)


# --------------------------------------------------------------------------- the quantile transform


def wichura_grid(rng, n_random):
    us = []
    for k in range(1, 301, 3):
        us.append(10.0**-k)
    for k in range(1, 54):
        us.append(1.0 - 2.0**-k)
        us.append(2.0**-k)
    for c in (0.075, 0.45, 0.5, 0.925, 0.425, 0.575):
        x = c
        for _ in range(3):
            us.append(x)
            x = math.nextafter(x, 2.0)
        x = c
        for _ in range(3):
            x = math.nextafter(x, -1.0)
            us.append(x)
    # the switch between the two tail formulas: sqrt(-log r) = 5  <=>  r = exp(-25)
    e25 = math.exp(-25.0)
    us += [e25, math.nextafter(e25, 1), math.nextafter(e25, 0), 1 - e25 * 1.0000001, 1.4e-11, 1.3e-11]
    for _ in range(n_random):
        kind = rng.random()
        if kind < 0.4:
            us.append(rng.random() or 0.5)
        elif kind < 0.7:
            us.append(10.0 ** rng.uniform(-300, -1))
        else:
            us.append(1.0 - 10.0 ** rng.uniform(-16, -1))
    return [u for u in us if 0.0 < u < 1.0]


def real_wichura(us, antithetic=False, n=1):
    import biogeme.draws as dr

    a = dr.get_normal_wichura_draws(n, len(us) // n * (2 if antithetic else 1), uniform_numbers=np.array(us, dtype=float), antithetic=antithetic)
    return np.asarray(a, dtype=float)


def check_wichura(ctx, res, us, use_model=True, label='grid'):
    z = real_wichura(us).reshape(-1).tolist()
    for u in us:
        res.count({'wichura': u}, nontrivial=not (0.4 <= u <= 0.6))
    res.tally(f'wichura:{label}', len(us))
    res.tally('wichura:defect_region', sum(1 for u in us if in_defect_region(u)))
    if not use_model:
        from scipy.stats import norm

        bad = [(u, v, float(norm.ppf(u))) for u, v in zip(us, z) if not core.close(v, float(norm.ppf(u)), rel=1e-12, abs_=1e-14)]
        known = [b for b in bad if in_defect_region(b[0])]
        new = [b for b in bad if not in_defect_region(b[0])]
        for grp in (new, known):
            if grp:
                res.violate('get_normal_wichura_draws is not the standard normal quantile to near machine precision (scipy second opinion)',
                            {'kind': 'wichura', 'u': [g[0] for g in grp][:40]}, [g[1] for g in grp][:3], [g[2] for g in grp][:3], where=W_F02)
        return

    def cb(a):
        code = [b2f(v) for v in a['code']]
        ref = [b2f(v) for v in a['ref']]
        for u, v, c in zip(us, z, code):
            if not qclose(v, c):
                res.diverge('get_normal_wichura_draws vs Draws.wichuraCode (the code as it stands)', {'kind': 'wichura', 'u': [u]}, c, v)
                break
        bad = [(u, v, r) for u, v, r in zip(us, z, ref) if not qclose(v, r)]
        known = [b for b in bad if in_defect_region(b[0])]
        new = [b for b in bad if not in_defect_region(b[0])]
        for grp in (new, known):
            if grp:
                res.violate('get_normal_wichura_draws is not the standard normal quantile to near machine precision (reference: AS241 as published)',
                            {'kind': 'wichura', 'u': [g[0] for g in grp][:40]}, [g[1] for g in grp][:3], [g[2] for g in grp][:3], where=W_F02)
        # the branch structure claimed by the theorems, on the real inputs
        for u, bc, br in zip(us, a['branch_code'], a['branch_ref']):
            if in_defect_region(u) == (bc == br) and not (bc != 'central' and br != 'central'):
                res.diverge('branch taken by the code / by AS241 vs the defect region of the theorems', {'kind': 'wichura', 'u': [u]}, [bc, br], in_defect_region(u))
                break

    ctx.batch.add({'op': 'wichura', 'us': [f2b(u) for u in us]}, cb)


# --------------------------------------------------------------------------- direct generators


def check_halton_direct(ctx, res, rng, use_model=True):
    import biogeme.draws as dr

    b = rng.choice([2, 3, 5, 7, 11, 13, 4, 10])
    skip = rng.choice([0, 1, 10, rng.randint(0, 60)])
    n, R = rng.randint(1, 6), rng.randint(1, 30)
    if rng.random() < 0.03:
        n, R = rng.randint(20, 60), rng.randint(50, 120)   # deep into the doubling loops
    sym = rng.random() < 0.4
    a = np.asarray(dr.get_halton_draws(n, R, symmetric=sym, base=b, skip=skip), dtype=float)
    case = {'kind': 'halton', 'base': b, 'skip': skip, 'n': n, 'R': R, 'symmetric': sym}
    res.count(case, nontrivial=n * R >= 4)
    res.tally(f'halton:base={b}')
    where = 'draws.get_halton_draws'
    if a.shape != (n, R):
        res.violate('get_halton_draws: wrong shape', case, list(a.shape), [n, R], where=where)
        return
    flat = a.reshape(-1).tolist()
    dyadic = b in (2, 4)
    for k, x in enumerate(flat):
        ri = radical_inverse(b, k + skip + 1)
        exp = 2 * ri - 1 if sym else ri
        ok = (Fraction(x) == exp) if dyadic else abs(Fraction(x) - exp) <= Fraction(1, 10**12)
        if not ok:
            res.violate(f'get_halton_draws: element {k} is not the radical inverse of {k + skip + 1} in base {b}', case, x, float(exp), where=where)
            break
    if use_model:

        def cb(ans):
            m = [b2f(v) for v in ans['draws']]
            if [f2b(v) for v in m] != [f2b(v) for v in flat]:
                res.diverge('get_halton_draws vs Draws.haltonDraws (bit for bit)', case, m[:5], flat[:5])
            # the model's loop against the model's radical inverse (the theorem, on Float) and the exact fraction
            for k, (x, q) in enumerate(zip(ans['radinv'], ans['q'])):
                if abs(Fraction(b2f(x)) - Fraction(q[0], q[1])) > Fraction(1, 10**14) or Fraction(q[0], q[1]) != radical_inverse(b, k + skip + 1):
                    res.diverge('Draws.radInv / radInvQ vs the exact radical inverse', case, [b2f(x), q], float(radical_inverse(b, k + skip + 1)))
                    break

        ctx.batch.add({'op': 'halton', 'base': b, 'skip': skip, 'len': n * R, 'symmetric': sym}, cb)


def check_lhs_direct(ctx, res, rng, use_model=True):
    import biogeme.draws as dr

    n, R = rng.randint(1, 5), rng.randint(1, 12)
    sym = rng.random() < 0.4
    given = rng.random() < 0.5
    st = Stream(rng, edges=False)
    with patched(st):
        if given:
            us = [rng.choice([rng.random(), 0.0, 0.5, 0.999]) for _ in range(n * R)]
            a = dr.get_latin_hypercube_draws(n, R, symmetric=sym, uniform_numbers=np.array(us, dtype=float))
        else:
            a = dr.get_latin_hypercube_draws(n, R, symmetric=sym)
            us = list(st.us)
    a = np.asarray(a, dtype=float)
    case = {'kind': 'lhs', 'n': n, 'R': R, 'symmetric': sym, 'us': us, 'perms': st.perms}
    res.count(case, nontrivial=n * R >= 4)
    res.tally('lhs')
    where = 'draws.get_latin_hypercube_draws'
    if a.shape != (n, R):
        res.violate('get_latin_hypercube_draws: wrong shape', case, list(a.shape), [n, R], where=where)
        return
    flat = a.reshape(-1).tolist()
    ok, why = strata_ok([unit_of(x, 'sym' if sym else 'unit') for x in flat], n * R)
    if not ok:
        res.violate(f'get_latin_hypercube_draws: {why}', case, why, 'one point per stratum', where=where)
    if use_model:

        def cb(ans):
            m = [b2f(v) for v in ans['draws']]
            if [f2b(v) for v in m] != [f2b(v) for v in flat]:
                res.diverge('get_latin_hypercube_draws vs Draws.lhsDraws (bit for bit)', case, m[:5], flat[:5])

        ctx.batch.add({'op': 'lhs', 'us': [f2b(u) for u in us], 'perm': st.perms[0] if st.perms else [], 'symmetric': sym}, cb)


def check_antithetic_direct(ctx, res, rng):
    import biogeme.draws as dr

    n, R = rng.randint(1, 5), 2 * rng.randint(1, 8)
    vals = [[rng.random() for _ in range(R // 2)] for _ in range(n)]
    a = np.asarray(dr.get_antithetic(lambda s, r: np.array(vals)[:s, :r], n, R), dtype=float)
    case = {'kind': 'antithetic', 'n': n, 'R': R, 'vals': vals}
    res.count(case, nontrivial=True)
    res.tally('antithetic')
    exp = [r + [1.0 - x for x in r] for r in vals]
    if a.tolist() != exp:
        res.violate('get_antithetic is not the first half followed by its mirror image', case, a.tolist()[0][:4], exp[0][:4], where='draws.get_antithetic')


def check_generate_draws(ctx, res, rng, odd=False):
    """Database.generate_draws: shape enforcement and placement of each variable's array"""
    import pandas as pd
    import biogeme.database as db
    from biogeme.exceptions import BiogemeError

    names_all = list(native())
    n = rng.randint(1, 6)
    R = 2 * rng.randint(1, 8) + (1 if odd else 0)
    k = rng.randint(1, 3)
    types = rng.sample(names_all, k)
    if odd and not any(parse_description(native()[t].description)['antithetic'] for t in types):
        types[0] = rng.choice([t for t in names_all if parse_description(native()[t].description)['antithetic']])
    d = db.Database('c11', pd.DataFrame({'x': [float(i) for i in range(n)]}))
    var = [f'xi{i}' for i in range(k)]
    st = Stream(rng)
    case = {'kind': 'generate_draws', 'n': n, 'R': R, 'types': types}
    res.count(case, nontrivial=True)
    res.tally('generate_draws:odd' if odd else 'generate_draws')
    where = 'database.Database.generate_draws'
    with patched(st):
        try:
            out = d.generate_draws(dict(zip(var, types)), var, R)
            err = None
        except BiogemeError as e:
            out, err = None, 'BiogemeError'
        except Exception as e:  # noqa: BLE001
            out, err = None, core.exc_kind(e)
    if odd:
        if err != 'BiogemeError':
            res.violate('an odd number of draws with an antithetic type is not refused by the library error', case,
                        err or list(np.shape(out)), 'BiogemeError', where=where)
        return
    if err is not None:
        res.violate(f'generate_draws raises {err} for an even number of draws', case, err, f'array {n} x {R} x {k}', where=where)
        return
    if out.shape != (n, R, k):
        res.violate('generate_draws: wrong shape', case, list(out.shape), [n, R, k], where=where)
        return
    # each variable's slice is its generator's array on the same stream (consumed in the order of the names)
    st2 = Stream(us=st.us, perms=st.perms)
    for i, t in enumerate(types):
        r = run_type(t, n, R, st2)
        if 'rows' not in r or out[:, :, i].tolist() != r['rows']:
            res.violate(f'generate_draws: the draws of variable {i} are not the array of its type {t}', case, out[:, :, i].tolist()[0][:3],
                        r.get('rows', [r])[0], where=where)
            return


# --------------------------------------------------------------------------- generate_draws with ANY generator

W_GD = 'database.Database.generate_draws'

# layouts of what a user-defined generator delivers; N = sample size, R = number of draws
LAYOUTS_GOOD = ['exact', 'exact_f']
LAYOUTS_SAME_COUNT = ['transposed', 'transposed_f', 'flat', 'column', 'row', 'lead1', 'trail1', 'refactor']
LAYOUTS_OTHER_COUNT = ['double', 'more_rows', 'fewer_rows', 'more_cols', 'fewer_cols', 'empty', 'zero_d', 'swapped_plus']


def _factor_pairs(m):
    return [(a, m // a) for a in range(1, m + 1) if m % a == 0]


def layout_dims(layout, N, R, rng):
    """(numpy shape, memory order) of the array a generator with that layout delivers"""
    order = 'F' if layout.endswith('_f') else 'C'
    base = layout[:-2] if layout.endswith('_f') else layout
    if base == 'exact':
        return [N, R], order
    if base == 'transposed':
        return [R, N], order
    if base == 'flat':
        return [N * R], order
    if base == 'column':
        return [N * R, 1], order
    if base == 'row':
        return [1, N * R], order
    if base == 'lead1':
        return [1, N, R], order
    if base == 'trail1':
        return [N, R, 1], order
    if base == 'refactor':
        pairs = [p for p in _factor_pairs(N * R) if p != (N, R)]
        return list(rng.choice(pairs)) if pairs else [N * R], order
    if base == 'double':
        return [2 * N, 2 * R], order
    if base == 'more_rows':
        return [N + 1, R], order
    if base == 'fewer_rows':
        return [N - 1, R], order
    if base == 'more_cols':
        return [N, R + 1], order
    if base == 'fewer_cols':
        return [N, R - 1], order
    if base == 'empty':
        return [0, R], order
    if base == 'zero_d':
        return [], order
    if base == 'swapped_plus':
        return [R, N + 1], order
    raise ValueError(layout)


def _count(dims):
    k = 1
    for d in dims:
        k *= d
    return k


def gen_user_case(rng, forced=None):
    """abstract case of Database.generate_draws with user-defined (and native) generators"""
    N = rng.choice([1, 2, 3, 4, 5, 6])
    R = rng.choice([1, 2, 3, 4, 5, 6, 8, 10])
    if rng.random() < 0.15:
        R = N                                   # transposed == exact: must be accepted
    k = rng.randint(1, 3)
    panel = rng.random() < 0.3
    some_bad = rng.random() < 0.6
    bad_at = rng.randrange(k) if some_bad else -1
    kinds = []
    for i in range(k):
        if i == bad_at or (some_bad and rng.random() < 0.15):
            kinds.append(rng.choice(LAYOUTS_SAME_COUNT if rng.random() < 0.65 else LAYOUTS_OTHER_COUNT))
        elif rng.random() < 0.25:
            kinds.append('native')
        else:
            kinds.append(rng.choice(LAYOUTS_GOOD))
    if forced is not None:
        kinds = list(forced)
        k = len(kinds)
    if 'native' in kinds and R % 2 == 1:
        R += 1                                   # antithetic native types need an even number of draws
    names = rng.sample(['xi', 'b10', 'b2', 'eps', 'Zeta', 'a_draw'], k)
    vars_ = []
    for i, kind in enumerate(kinds):
        if kind == 'native':
            vars_.append({'name': names[i], 'type': rng.choice(list(native())), 'layout': 'native'})
            continue
        dims, order = layout_dims(kind, N, R, rng)
        values = [rng.randrange(0, 1024) / 1024.0 for _ in range(_count(dims))]
        vars_.append({'name': names[i], 'type': f'USER_{i}_{kind.upper()}', 'layout': kind, 'dims': dims, 'order': order, 'values': values})
    dict_order = list(range(k))
    rng.shuffle(dict_order)
    return {'kind': 'user_generators', 'N': N, 'R': R, 'panel': panel, 'obs_per_individual': [rng.randint(1, 3) for _ in range(N)] if panel else None,
            'vars': vars_, 'dict_order': dict_order, 'entry': rng.choice(['generate_draws', 'generate_draws', 'generateDraws'])}


def run_user_case(case, stream):
    """drive the real Database.generate_draws; returns (outcome, calls, delivered) where outcome is
    {'err': kind} or {'table': ndarray}, calls[i] the (sample_size, number_of_draws) pairs generator i was
    asked for, delivered[i] the array user generator i handed over"""
    import warnings
    import pandas as pd
    import biogeme.database as db
    import biogeme.deprecated as dep
    from biogeme.exceptions import BiogemeError
    from biogeme.native_draws import RandomNumberGeneratorTuple

    N, R = case['N'], case['R']
    if case['panel']:
        ids = [i + 1 for i, c in enumerate(case['obs_per_individual']) for _ in range(c)]
        frame = pd.DataFrame({'id': [float(i) for i in ids], 'x': [float(j) for j in range(len(ids))]})
    else:
        frame = pd.DataFrame({'x': [float(i) for i in range(N)], 'y': [1.0] * N})
    d = db.Database('c11user', frame)
    if case['panel']:
        d.panel('id')
    calls = {i: [] for i in range(len(case['vars']))}
    delivered = {}
    user = {}
    for i, v in enumerate(case['vars']):
        if v['layout'] == 'native':
            continue
        a = np.array(v['values'], dtype=float).reshape(tuple(v['dims']))
        if v['order'] == 'F' and a.ndim >= 2:
            a = np.asfortranarray(a)
        delivered[i] = a

        def g(sample_size, number_of_draws, i=i, a=a):
            calls[i].append([int(sample_size), int(number_of_draws)])
            return a

        user[v['type']] = RandomNumberGeneratorTuple(g, f'user generator delivering shape {v["dims"]}')
    if user:
        d.set_random_number_generators(user)
    names = [v['name'] for v in case['vars']]
    types = {case['vars'][i]['name']: case['vars'][i]['type'] for i in case['dict_order']}
    entry = case['entry']
    if entry == 'generateDraws' and getattr(dep, 'RAISE_EXCEPTION', False):
        entry = 'generate_draws'
    with patched(stream), warnings.catch_warnings():
        warnings.simplefilter('ignore')
        try:
            out = getattr(d, entry)(types, names, R)
            outcome = {'table': np.asarray(out)}
        except BiogemeError:
            outcome = {'err': 'BiogemeError'}
        except Exception as e:  # noqa: BLE001
            outcome = {'err': core.exc_kind(e)}
    return outcome, calls, delivered


def user_case_verdict(case, outcome, calls, delivered, stream):
    """the oracle of the statement for Database.generate_draws with any generator: an array that is not of
    shape (sample size, number of draws) is refused by the library error; otherwise the table is
    observations x draws x variables and holds, for each variable, exactly what its generator delivered.
    Returns ([(what, observed, expected)], arrays) — arrays[i] = the (N, R) array of variable i (or None)"""
    N, R = case['N'], case['R']
    vs = case['vars']
    k = len(vs)
    bad = [i for i, v in enumerate(vs) if v['layout'] != 'native' and list(v['dims']) != [N, R]]
    out = []
    if bad:
        v = vs[bad[0]]
        if outcome.get('err') != 'BiogemeError':
            obs = outcome['err'] if 'err' in outcome else f'accepted, table of shape {list(outcome["table"].shape)}'
            same = _count(v['dims']) == N * R
            out.append((f'a generator delivering an array of shape {tuple(v["dims"])} instead of ({N}, {R})'
                        f'{" (same number of elements, other layout)" if same else ""} is not refused by the library error', obs, 'BiogemeError'))
        return out, None
    if 'err' in outcome:
        out.append((f'generate_draws raises {outcome["err"]} although every generator delivers shape ({N}, {R})', outcome['err'], f'table {N} x {R} x {k}'))
        return out, None
    t = outcome['table']
    if list(t.shape) != [N, R, k]:
        out.append(('generate_draws: wrong shape of the table', list(t.shape), [N, R, k]))
        return out, None
    # every generator asked exactly once for (sample size, number of draws)
    for i, v in enumerate(vs):
        if v['layout'] != 'native' and calls[i] != [[N, R]]:
            out.append((f'the generator of variable {i} is not asked once for (sample size, number of draws)', calls[i], [[N, R]]))
    # contents: natives replayed on the recorded stream in the order of the names
    st2 = Stream(us=stream.us, perms=stream.perms)
    arrays = []
    for i, v in enumerate(vs):
        if v['layout'] == 'native':
            r = run_type(v['type'], N, R, st2)
            exp = np.asarray(r['rows'], dtype=float) if 'rows' in r and r['shape'] == [N, R] else None
            if exp is None:
                out.append((f'variable {i}: native type {v["type"]} could not be regenerated', r.get('err', r.get('shape')), [N, R]))
                arrays.append(None)
                continue
        else:
            exp = np.array(v['values'], dtype=float).reshape(N, R)
        arrays.append(exp)
        got = np.asarray(t[:, :, i], dtype=float)
        if got.shape != exp.shape or [f2b(x) for x in got.reshape(-1).tolist()] != [f2b(x) for x in exp.reshape(-1).tolist()]:
            ij = next(((a, b) for a in range(N) for b in range(R) if f2b(float(got[a, b])) != f2b(float(exp[a, b]))), (0, 0))
            out.append((f'table[:, :, {i}] is not the array the generator of variable {i} ({v["type"]}) delivered: first difference at [{ij[0]}][{ij[1]}]',
                        got.tolist()[ij[0]][:4], exp.tolist()[ij[0]][:4]))
    return out, arrays


def check_user_generators(ctx, res, rng, use_model=True, case=None):
    case = case or gen_user_case(rng)
    N, R = case['N'], case['R']
    if case.get('us') is not None:
        st = Stream(us=case['us'], perms=case.get('perms') or [])
    else:
        st = Stream(rng, edges=False)
    outcome, calls, delivered = run_user_case(case, st)
    case = {**case, 'us': list(st.us), 'perms': [list(p) for p in st.perms]}
    layouts = [v['layout'] for v in case['vars']]
    res.count({k: case[k] for k in ('N', 'R', 'panel', 'vars', 'dict_order', 'entry')}, nontrivial=N * R >= 4)
    for lay in layouts:
        res.tally(f'user_generators:{lay}')
    res.tally('user_generators:panel' if case['panel'] else 'user_generators:cross-section')
    problems, arrays = user_case_verdict(case, outcome, calls, delivered, st)
    for what, obs, exp in problems:
        res.violate(what, case, obs, exp, where=W_GD)
    if not use_model:
        return
    req_vars = []
    for i, v in enumerate(case['vars']):
        if v['layout'] == 'native':
            a = arrays[i] if arrays is not None and arrays[i] is not None else None
            req_vars.append({'dims': [N, R], 'flat': [f2b(x) for x in a.reshape(-1).tolist()] if a is not None else []})
        else:
            req_vars.append({'dims': list(v['dims']), 'flat': [f2b(x) for x in v['values']]})
    native_unknown = arrays is None and any(v['layout'] == 'native' for v in case['vars'])

    def cb(a):
        if 'refused' in a:
            if outcome.get('err') != 'BiogemeError':
                res.diverge(f'generate_draws: the model refuses variable {a["refused"]} (Draws.generateDraws), the code does not', case, a,
                            outcome.get('err') or list(outcome['table'].shape))
            return
        if 'err' in outcome:
            res.diverge('generate_draws: the model accepts (Draws.generateDraws), the code raises', case, 'table', outcome['err'])
            return
        if native_unknown:
            return
        m = a['table']
        t = outcome['table']
        got = [[[f2b(float(x)) for x in cell] for cell in row] for row in t.tolist()] if t.ndim == 3 else None
        if got != m:
            res.diverge('generate_draws: table vs Draws.drawsTable (bit for bit)', case, str(m)[:120], str(got)[:120])

    ctx.batch.add({'op': 'generate_draws', 'n': N, 'R': R, 'vars': req_vars}, cb)


def _user_corpus():
    """fixed cases that run first: each ill-shaped layout on its own (5 observations x 8 draws, the layout
    class a past mutant accepted), well-shaped arrays in both memory orders, a mix"""
    rng = core.rng_for('C11-user-corpus', 0)
    out = []
    for lay in LAYOUTS_SAME_COUNT + LAYOUTS_OTHER_COUNT + LAYOUTS_GOOD:
        c = gen_user_case(rng, forced=[lay])
        c.update({'N': 5, 'R': 8, 'panel': False, 'obs_per_individual': None, 'entry': 'generate_draws', 'dict_order': [0]})
        v = c['vars'][0]
        v['dims'], v['order'] = layout_dims(lay, 5, 8, rng)
        v['values'] = [rng.randrange(0, 1024) / 1024.0 for _ in range(_count(v['dims']))]
        out.append(c)
    out.append(gen_user_case(rng, forced=['exact', 'native', 'transposed']))
    out.append(gen_user_case(rng, forced=['exact_f', 'exact', 'native']))
    return out


def check_malformed(ctx, res, rng):
    """sizes that must be refused, compared with the model's error cases"""
    for name in rng.sample(list(native()), 6):
        for n, R in ((0, 4), (2, 0), (3, 1), (2, 3)):
            st = Stream(rng)
            real = run_type(name, n, R, st)
            case = {'kind': 'malformed', 'name': name, 'n': n, 'R': R}
            res.count(case, nontrivial=False)
            res.tally('malformed')
            got = 'err' if 'err' in real else ('shape_bad' if real['shape'] != [n, R] else 'ok')

            def cb(a, got=got, case=case, real=real):
                if 'err' in a:
                    m = 'err'
                else:
                    m = 'ok' if a['shape_ok'] else 'shape_bad'
                if m != got:
                    res.diverge('refused sizes: code vs Draws.generate', case, a.get('err', m), real.get('err', real.get('shape')))

            ctx.batch.add({'op': 'generate', 'name': name, 'n': n, 'R': R, 'us': [f2b(u) for u in st.us] or [f2b(0.5)] * (n * max(R, 1)),
                           'perm': st.perms[0] if st.perms else list(range(n * max(R, 1)))}, cb)


# --------------------------------------------------------------------------- sessions: histories within one process
#
# The generators are functions of their arguments (and of what the two random calls deliver while they run):
# whatever was called before in the same process - shuffled or not, same base or not, through a catalogue entry,
# a generator of draws.py, a deprecated alias or Database.generate_draws - and whatever the caller did in place to
# the arrays it received, a call returns what the statement says.  A session case is self-contained: the list of
# operations with the recorded random streams; it is run from its first operation in the current process.

_PROCESS_SESSIONS = []   # (operations, number of calls) of every session run in this process so far, in order

W_LATER = 'draws / native_draws: an array handed over by an earlier call changes without the caller touching it'
SESSION_MUT = ('scale', 'fill', 'reverse')


class SessionRes:
    """what check_type reports about one call of a session, filed under the history up to that call"""

    def __init__(self, res, case, upto):
        self.res, self.case, self.upto = res, case, upto

    def _case(self, c):
        out = {'kind': 'session', 'n_db': self.case.get('n_db'), 'session_no': self.case.get('session_no'), 'ops': self.case['ops'][: self.upto + 1]}
        if isinstance(c, dict) and c.get('u'):
            out['u'] = c['u']
        return out

    def count(self, case, nontrivial=True):
        self.res.count(case, nontrivial=nontrivial)

    def tally(self, key, n=1):
        self.res.tally('session:' + key.split(':')[0], n)

    def violate(self, what, case, observed, expected, where=''):
        self.res.violate(f'operation {self.upto} of a session in one process: {what}', self._case(case), observed, expected, where=where)

    def diverge(self, what, case, model, impl, where=''):
        self.res.diverge(f'operation {self.upto} of a session in one process: {what}', self._case(case), model, impl, where=where)

    @property
    def notes(self):
        return self.res.notes


def _dr(fn, alias):
    """a generator of draws.py, or its deprecated alias (secondary entry point)"""
    import biogeme.draws as dr
    import biogeme.deprecated as dep

    old = {'get_uniform': 'getUniform', 'get_latin_hypercube_draws': 'getLatinHypercubeDraws', 'get_halton_draws': 'getHaltonDraws',
           'get_antithetic': 'getAntithetic', 'get_normal_wichura_draws': 'getNormalWichuraDraws'}
    if alias and not getattr(dep, 'RAISE_EXCEPTION', False) and hasattr(dr, old[fn]):
        return getattr(dr, old[fn]), True
    return getattr(dr, fn), False


def gen_session(rng):
    names = list(native())
    advs = {k: parse_description(t.description) for k, t in native().items()}
    focus = rng.choice([2, 3, 5])
    same = [k for k in names if advs[k]['base'] == focus] or names
    seen = []

    def size():
        if seen and rng.random() < 0.55:
            return rng.choice(seen)
        sz = (rng.choice([1, 2, 3, 5]), rng.choice([2, 4, 6, 8, 10]))
        seen.append(sz)
        return sz

    def base():
        return focus if rng.random() < 0.75 else rng.choice([2, 3, 5, 7, 4])

    ops, targets, n_calls = [], [], 0
    n_db = rng.choice([1, 2, 3, 5, 6])
    for _ in range(rng.randint(4, 10)):
        x = rng.random()
        if x < 0.24 and targets:
            kind = rng.choice(SESSION_MUT)
            op = {'t': kind, 'k': rng.choice(targets[-4:])}
            if kind == 'scale':
                op['c'] = rng.choice([100.0, -1.0, 0.5, 0.0, 3.0])
            elif kind == 'fill':
                op['c'] = rng.choice([7.0, 0.25, -2.0])
            ops.append(op)
            continue
        n, R = size()
        alias = rng.random() < 0.25
        if x < 0.56:
            ops.append({'t': 'cat', 'name': rng.choice(same) if rng.random() < 0.65 else rng.choice(names), 'n': n, 'R': R})
        elif x < 0.74:
            ops.append({'t': 'halton', 'base': base(), 'skip': rng.choice([10, 10, 0, rng.randint(0, 40)]), 'n': n, 'R': rng.choice([R, R + 1]),
                        'symmetric': rng.random() < 0.3, 'shuffled': rng.random() < 0.6, 'alias': alias})
        elif x < 0.79:
            given = rng.random() < 0.5
            bad = given and rng.random() < 0.15
            ops.append({'t': 'lhs', 'n': n, 'R': R, 'symmetric': rng.random() < 0.4, 'alias': alias,
                        'given': [rng.choice([rng.random(), 0.0, 0.5, 0.999]) for _ in range(n * R + (1 if bad else 0))] if given else None})
        elif x < 0.85:
            anti = rng.random() < 0.4
            Rw = R + 1 if (anti and rng.random() < 0.15) else R
            given = rng.random() < 0.6
            cnt = n * (Rw // 2 if anti else Rw) + (1 if given and rng.random() < 0.1 else 0)
            ops.append({'t': 'wichura', 'n': n, 'R': Rw, 'antithetic': anti, 'alias': alias,
                        'given': [rng.choice([rng.random() or 0.5, rng.choice(Stream.EDGE)]) for _ in range(cnt)] if given else None})
        elif x < 0.89:
            ops.append({'t': 'uniform', 'n': n, 'R': R, 'symmetric': rng.random() < 0.5, 'alias': alias})
        elif x < 0.93:
            inner = rng.choice(['uniform', 'mlhs', 'halton'])
            op = {'t': 'antithetic', 'inner': inner, 'n': n, 'R': R, 'alias': alias}
            if inner == 'halton':
                op.update({'base': base(), 'skip': rng.choice([10, 0, 3])})
            ops.append(op)
        elif x < 0.95:
            # an edit of the session's Database between two calls of generate_draws: the sample size changes
            ops.append({'t': 'panel', 'N': n_db} if rng.random() < 0.5 else {'t': 'remove', 'N': n_db, 'keep': rng.randint(1, n_db)})
            continue
        else:
            k = rng.randint(1, 3)
            vs = [rng.choice(same) if rng.random() < 0.6 else rng.choice(names) for _ in range(k)]
            order = list(range(k))
            rng.shuffle(order)
            ops.append({'t': 'gd', 'N': n_db, 'types': vs, 'names': rng.sample(['xi', 'b10', 'b2', 'eps', 'Zeta', 'a_draw'], k), 'dict_order': order, 'R': R,
                        'entry': rng.choice(['generate_draws', 'generate_draws', 'generateDraws'])})
            n_calls += k
            continue
        targets.append(n_calls)
        n_calls += 1
    return {'kind': 'session', 'n_db': n_db, 'ops': ops}


def _halton_expected(b, skip, count, sym):
    out = [radical_inverse(b, k + skip + 1) for k in range(count)]
    return [2 * x - 1 for x in out] if sym else out


def _frac_close(x, exp, exact):
    return Fraction(x) == exp if exact else abs(Fraction(x) - exp) <= Fraction(1, 10**12)


def _uniforms_of(adv, n, R):
    """how many uniform numbers / shuffles a catalogued type consumes (from its description)"""
    if adv['kind'] == 1:
        return 0, 0
    cnt = n * (R // 2 if adv['antithetic'] else R)
    return cnt, (1 if adv['kind'] == 2 else 0)


def _rows2d(arr):
    """the elements of an array as a list of rows; an array that is not two-dimensional (which the oracles report
    by its shape) is filed as one row of its elements"""
    return arr.tolist() if arr.ndim == 2 else [arr.reshape(-1).tolist()]


def run_session(ctx, res, case, use_model=True, rng=None):
    """run the operations of a session in this process; oracles of the statement on every call; the whole
    history against Draws.run (what each call returned, and the arrays as the caller holds them at the end)"""
    import warnings
    import pandas as pd
    import biogeme.database as db
    import biogeme.deprecated as dep
    from biogeme.exceptions import BiogemeError

    ops = case['ops']
    rng = rng or ctx.rng
    held = []        # per model call: the object the call returned (None: error / slice of a table)
    snap = []        # per model call: {'rows': [[..]]} | {'err': kind} at the moment the call returned
    normal = []      # per model call: values compared with a tolerance (normal quantiles)
    touched = set()  # model calls whose array the caller modified
    mops = []        # the history for the Lean model
    databases = {}
    case['session_no'] = len(_PROCESS_SESSIONS)
    res.count({'session': core.canon_hash([{k: v for k, v in o.items() if k not in ('us', 'perms')} for o in ops])}, nontrivial=len(ops) >= 2)
    res.tally('session')
    res.tally('session:ops', len(ops))

    def sub(i, extra=None):
        c = {'kind': 'session', 'n_db': case.get('n_db'), 'session_no': case.get('session_no'), 'ops': ops[: i + 1]}
        if extra:
            c.update(extra)
        return c

    def the_db(op):
        """the Database of the session (one per initial number of rows), used again by every later operation on it"""
        n0 = op.get('N') or case['n_db']
        if n0 not in databases:
            frame = pd.DataFrame({'id': [float(j // 2) for j in range(n0)], 'x': [float(j) for j in range(n0)], 'y': [1.0] * n0})
            databases[n0] = (db.Database('c11session', frame), {'rows': n0, 'panel': False})
        return databases[n0]

    def stream_of(op):
        if op.get('us') is not None or op.get('perms') is not None:
            return Stream(us=op.get('us') or [], perms=op.get('perms') or [])
        return Stream(rng, edges=False)

    def record(op, st):
        op['us'], op['perms'] = list(st.us), [list(p) for p in st.perms]

    def call(i, op, fn, args, kwargs, st):
        """one direct call of draws.py; files the outcome; returns the array or None"""
        f, used_alias = _dr(fn, op.get('alias'))
        res.tally(f'session:{fn}' + (':alias' if used_alias else ''))
        if used_alias and 'uniform_numbers' in kwargs:
            kwargs = {**kwargs, 'uniformNumbers': kwargs['uniform_numbers']}
            del kwargs['uniform_numbers']
        with patched(st), warnings.catch_warnings():
            warnings.simplefilter('ignore')
            try:
                a = f(*args, **kwargs)
            except Exception as e:  # noqa: BLE001
                record(op, st)
                held.append(None)
                snap.append({'err': core.exc_kind(e)})
                return None
        record(op, st)
        held.append(a)
        arr = np.array(a, dtype=float, copy=True)
        snap.append({'rows': _rows2d(arr), 'shape': list(arr.shape)})
        return arr

    for i, op in enumerate(ops):
        t = op['t']
        if t in SESSION_MUT:
            k = op['k']
            a = held[k] if k < len(held) else None
            if not isinstance(a, np.ndarray) or not a.flags.writeable or a.ndim != 2:
                continue
            if t == 'scale':
                a *= op['c']
                mops.append({'t': 'scale', 'k': k, 'c': f2b(op['c'])})
            elif t == 'fill':
                a[...] = op['c']
                mops.append({'t': 'fill', 'k': k, 'c': f2b(op['c'])})
            else:
                a[:] = a[::-1].copy()
                mops.append({'t': 'reverse', 'k': k})
            touched.add(k)
            res.tally(f'session:caller:{t}')
            continue
        st = stream_of(op)
        if t == 'cat':
            keep = []
            name, n, R = op['name'], op['n'], op['R']
            adv = parse_description(native()[name].description)
            sres = SessionRes(res, case, i)
            check_type(ctx, sres, name, n, R, None, use_model=use_model, stream=st, keep=keep)
            record(op, st)
            a = keep[0] if keep else None
            held.append(a if isinstance(a, np.ndarray) else None)
            if a is None:
                snap.append({'err': 'raised'})
            else:
                arr = np.array(a, dtype=float, copy=True)
                snap.append({'rows': _rows2d(arr), 'shape': list(arr.shape)})
            normal.append(adv['normal'])
            mops.append({'t': 'cat', 'name': name, 'n': n, 'R': R, 'us': [f2b(u) for u in st.us], 'perm': st.perms[0] if st.perms else []})
            continue
        if t == 'halton':
            b, skip, n, R, sym, sh = op['base'], op['skip'], op['n'], op['R'], op['symmetric'], op['shuffled']
            arr = call(i, op, 'get_halton_draws', (n, R), dict(symmetric=sym, base=b, skip=skip, shuffled=sh), st)
            normal.append(False)
            mops.append({'t': 'halton', 'base': b, 'skip': skip, 'n': n, 'R': R, 'symmetric': sym, 'shuffled': sh, 'perm': st.perms[0] if st.perms else []})
            where = 'draws.get_halton_draws'
            if arr is None:
                res.violate(f'operation {i} of a session: get_halton_draws raises {snap[-1]["err"]}', sub(i), snap[-1]['err'], f'array {n} x {R}', where=where)
                continue
            if list(arr.shape) != [n, R]:
                res.violate(f'operation {i} of a session: get_halton_draws returns shape {list(arr.shape)}', sub(i), list(arr.shape), [n, R], where=where)
                continue
            exp = _halton_expected(b, skip, n * R, sym)
            flat = arr.reshape(-1).tolist()
            exact = b in (2, 4)
            if sh:
                # "shuffled": the same numbers in another order
                got = sorted(flat)
                ok = all(_frac_close(x, e, exact) for x, e in zip(got, sorted(exp)))
                what = 'the shuffled Halton draws are not a permutation of the radical-inverse sequence'
            else:
                ok = all(_frac_close(x, e, exact) for x, e in zip(flat, exp))
                what = 'get_halton_draws is not the radical-inverse sequence'
            if not ok:
                res.violate(f'operation {i} of a session in one process: {what} of base {b} after skipping {skip}', sub(i), flat[:4], [float(e) for e in exp[:4]], where=where)
            continue
        if t == 'uniform':
            n, R, sym = op['n'], op['R'], op['symmetric']
            arr = call(i, op, 'get_uniform', (n, R), dict(symmetric=sym), st)
            normal.append(False)
            mops.append({'t': 'cat', 'family': 'uniform', 'symmetric': sym, 'antithetic': False, 'normal': False, 'n': n, 'R': R,
                         'us': [f2b(u) for u in st.us], 'perm': []})
            where = 'draws.get_uniform'
            if arr is None or list(arr.shape) != [n, R]:
                res.violate(f'operation {i} of a session: get_uniform does not return an array {n} x {R}', sub(i), snap[-1].get('err', snap[-1].get('shape')), [n, R], where=where)
                continue
            exp = [2.0 * u - 1.0 for u in st.us] if sym else list(st.us)
            if arr.reshape(-1).tolist() != exp:
                res.violate(f'operation {i} of a session in one process: get_uniform is not {"2u-1 of " if sym else ""}the uniform numbers drawn', sub(i),
                            arr.reshape(-1).tolist()[:4], exp[:4], where=where)
            continue
        if t == 'lhs':
            n, R, sym = op['n'], op['R'], op['symmetric']
            kw = dict(symmetric=sym)
            if op['given'] is not None:
                kw['uniform_numbers'] = np.array(op['given'], dtype=float)
            arr = call(i, op, 'get_latin_hypercube_draws', (n, R), kw, st)
            us = list(op['given']) if op['given'] is not None else list(st.us)
            normal.append(False)
            mops.append({'t': 'lhs', 'n': n, 'R': R, 'symmetric': sym, 'us': [f2b(u) for u in us], 'perm': st.perms[0] if st.perms else []})
            where = 'draws.get_latin_hypercube_draws'
            if len(us) != n * R:
                if snap[-1].get('err') != 'BiogemeError':
                    res.violate(f'operation {i} of a session: {len(us)} uniform numbers for {n} x {R} draws are not refused by the library error', sub(i),
                                snap[-1].get('err', snap[-1].get('shape')), 'BiogemeError', where=where)
                continue
            if arr is None or list(arr.shape) != [n, R]:
                res.violate(f'operation {i} of a session: get_latin_hypercube_draws does not return an array {n} x {R}', sub(i),
                            snap[-1].get('err', snap[-1].get('shape')), [n, R], where=where)
                continue
            ok, why = strata_ok([unit_of(x, 'sym' if sym else 'unit') for x in arr.reshape(-1).tolist()], n * R)
            if not ok:
                res.violate(f'operation {i} of a session in one process: get_latin_hypercube_draws: {why}', sub(i), why, 'one point per stratum', where=where)
            continue
        if t == 'wichura':
            n, R, anti = op['n'], op['R'], op['antithetic']
            kw = dict(antithetic=anti)
            if op['given'] is not None:
                kw['uniform_numbers'] = np.array(op['given'], dtype=float)
            arr = call(i, op, 'get_normal_wichura_draws', (n, R), kw, st)
            us = list(op['given']) if op['given'] is not None else list(st.us)
            normal.append(True)
            mops.append({'t': 'wichura', 'n': n, 'R': R, 'antithetic': anti, 'us': [f2b(u) for u in us]})
            where = 'draws.get_normal_wichura_draws'
            r = R // 2 if anti else R
            if (anti and R % 2 == 1) or len(us) != n * r:
                if snap[-1].get('err') != 'BiogemeError':
                    res.violate(f'operation {i} of a session: an odd number of antithetic draws / a wrong number of uniform numbers is not refused by the library error',
                                sub(i), snap[-1].get('err', snap[-1].get('shape')), 'BiogemeError', where=where)
                continue
            if arr is None or list(arr.shape) != [n, R]:
                res.violate(f'operation {i} of a session: get_normal_wichura_draws does not return an array {n} x {R}', sub(i),
                            snap[-1].get('err', snap[-1].get('shape')), [n, R], where=where)
                continue
            rows = arr.tolist()
            if anti and any(row[r:] != [-x for x in row[:r]] for row in rows):
                res.violate(f'operation {i} of a session: antithetic normal draws: the second half is not the mirror image of the first', sub(i),
                            rows[0][r:][:4], [-x for x in rows[0][:r]][:4], where=where)
            zs = [x for row in rows for x in row[:r]]
            _quantile_oracle(ctx, res, us, zs, lambda extra, i=i: sub(i, extra), f'operation {i} of a session in one process: get_normal_wichura_draws', use_model)
            continue
        if t == 'antithetic':
            import biogeme.draws as dr

            n, R, inner = op['n'], op['R'], op['inner']
            if inner == 'uniform':
                g, fam = dr.get_uniform, {'family': 'uniform'}
            elif inner == 'mlhs':
                g, fam = dr.get_latin_hypercube_draws, {'family': 'mlhs'}
            else:
                b, skip = op['base'], op['skip']
                g, fam = (lambda s_, r_, b=b, skip=skip: dr.get_halton_draws(s_, r_, base=b, skip=skip)), {'family': 'halton', 'base': b, 'skip': skip}
            arr = call(i, op, 'get_antithetic', (g, n, R), {}, st)
            normal.append(False)
            mops.append({'t': 'cat', **fam, 'symmetric': False, 'antithetic': True, 'normal': False, 'n': n, 'R': R,
                         'us': [f2b(u) for u in st.us], 'perm': st.perms[0] if st.perms else []})
            where = 'draws.get_antithetic'
            if arr is None or list(arr.shape) != [n, R]:
                res.violate(f'operation {i} of a session: get_antithetic does not return an array {n} x {R}', sub(i), snap[-1].get('err', snap[-1].get('shape')), [n, R], where=where)
                continue
            r = R // 2
            rows = arr.tolist()
            if any(row[r:] != [1.0 - x for x in row[:r]] for row in rows):
                res.violate(f'operation {i} of a session: get_antithetic: the second half is not the mirror image of the first', sub(i),
                            rows[0][r:][:4], [1.0 - x for x in rows[0][:r]][:4], where=where)
            first = [x for row in rows for x in row[:r]]
            if inner == 'uniform' and first != list(st.us):
                res.violate(f'operation {i} of a session: get_antithetic(get_uniform): the first half is not the uniform numbers drawn', sub(i), first[:4], st.us[:4], where=where)
            if inner == 'mlhs':
                ok, why = strata_ok(first, n * r)
                if not ok:
                    res.violate(f'operation {i} of a session: get_antithetic(get_latin_hypercube_draws): {why}', sub(i), why, 'one point per stratum', where=where)
            if inner == 'halton':
                exp = _halton_expected(op['base'], op['skip'], n * r, False)
                if not all(_frac_close(x, e, op['base'] in (2, 4)) for x, e in zip(first, exp)):
                    res.violate(f'operation {i} of a session in one process: get_antithetic(Halton base {op["base"]}): the first half is not the radical-inverse sequence', sub(i),
                                first[:4], [float(e) for e in exp[:4]], where=where)
            continue
        if t in ('panel', 'remove'):
            database, dstate = the_db(op)
            if t == 'panel':
                database.panel('id')
                dstate['panel'] = True
            elif op['keep'] < dstate['rows']:
                from biogeme.expressions import Variable

                database.remove(Variable('x') >= float(op['keep']))
                dstate['rows'] = op['keep']
            res.tally(f'session:database:{t}')
            continue
        if t == 'gd':
            R, types, names_ = op['R'], op['types'], op['names']
            database, dstate = the_db(op)
            # sample size = rows of the table as it is now, or the individuals (runs of equal ids) of a panel
            N = (dstate['rows'] + 1) // 2 if dstate['panel'] else dstate['rows']
            entry = op['entry'] if not getattr(dep, 'RAISE_EXCEPTION', False) else 'generate_draws'
            res.tally(f'session:{entry}')
            dt = {names_[j]: types[j] for j in op['dict_order']}
            with patched(st), warnings.catch_warnings():
                warnings.simplefilter('ignore')
                try:
                    table = np.asarray(getattr(database, entry)(dt, names_, R))
                    err = None
                except Exception as e:  # noqa: BLE001
                    table, err = None, core.exc_kind(e)
            record(op, st)
            ok_shape = table is not None and list(table.shape) == [N, R, len(types)]
            if not ok_shape:
                res.violate(f'operation {i} of a session: generate_draws does not return a table {N} x {R} x {len(types)}', sub(i),
                            err or list(table.shape), [N, R, len(types)], where=W_GD)
            us_left, perms_left = list(st.us), [list(p) for p in st.perms]
            for j, name in enumerate(types):
                adv = parse_description(native()[name].description)
                cnt, nperm = _uniforms_of(adv, N, R)
                us_j, us_left = us_left[:cnt], us_left[cnt:]
                perms_j, perms_left = perms_left[:nperm], perms_left[nperm:]
                held.append(None)
                normal.append(adv['normal'])
                mops.append({'t': 'cat', 'name': name, 'n': N, 'R': R, 'us': [f2b(u) for u in us_j], 'perm': perms_j[0] if perms_j else []})
                if not ok_shape:
                    snap.append({'err': err or 'shape'})
                    continue
                sl = np.array(table[:, :, j], dtype=float, copy=True)
                snap.append({'rows': sl.tolist(), 'shape': [N, R], 'final': (table, j)})
                half = R // 2
                gen_part = [x for row in sl.tolist() for x in (row[:half] if adv['antithetic'] else row)]
                if adv['kind'] == 1 and not adv['normal']:
                    exp = _halton_expected(adv['base'], adv['skip'] if adv['skip'] is not None else 10, len(gen_part), adv['interval'] == 'sym')
                    if not all(_frac_close(x, e, adv['base'] == 2) for x, e in zip(gen_part, exp)):
                        res.violate(f'operation {i} of a session in one process: the draws generate_draws stored for variable {j} ({name}) are not the radical-inverse '
                                    f'sequence of base {adv["base"]}', sub(i), gen_part[:4], [float(e) for e in exp[:4]], where=W_GD)
                elif adv['kind'] != 1:
                    rr = run_type(name, N, R, Stream(us=us_j, perms=perms_j))
                    if 'rows' not in rr or rr['rows'] != sl.tolist():
                        res.violate(f'operation {i} of a session in one process: the draws generate_draws stored for variable {j} are not the array of its type {name} '
                                    f'on the same random numbers', sub(i), sl.tolist()[0][:3], rr.get('rows', [[rr.get('err')]])[0][:3], where=W_GD)
            continue
        raise ValueError(f'unknown session operation {t}')

    # ---- the arrays the caller did not touch still hold what was returned (property side, no model)
    final = []
    for k, (a, s0) in enumerate(zip(held, snap)):
        cur, cur_shape = None, None
        if isinstance(a, np.ndarray):
            cur_shape = list(a.shape)
            cur = _rows2d(np.array(a, dtype=float, copy=True))
        elif 'final' in s0:
            tb, j = s0['final']
            cur_shape = list(tb[:, :, j].shape)
            cur = _rows2d(np.array(tb[:, :, j], dtype=float, copy=True))
        final.append(cur)
        if cur is not None and k not in touched and 'rows' in s0 and (
                cur_shape != s0['shape'] or [[f2b(x) for x in r] for r in cur] != [[f2b(x) for x in r] for r in s0['rows']]):
            res.violate(f'the array call {k} of a session returned (shape {s0["shape"]}) was changed by a later operation on something else', sub(len(ops) - 1),
                        [cur_shape, cur[0][:4] if cur else []], [s0['shape'], s0['rows'][0][:4] if s0['rows'] else []], where=W_LATER)
    _PROCESS_SESSIONS.append((ops, len(snap)))
    if not use_model or not mops:
        return

    def cb(ans):
        if ans.get('calls') != len(snap):
            res.diverge('session: number of calls', sub(len(ops) - 1), ans.get('calls'), len(snap))
            return

        def same(m, rows, tol):
            if len(m) != len(rows) or any(len(x) != len(y) for x, y in zip(m, rows)):
                return False
            if tol:
                return all(qclose(b2f(x), y) or (b2f(x) == y) for r1, r2 in zip(m, rows) for x, y in zip(r1, r2))
            return all(x == f2b(y) for r1, r2 in zip(m, rows) for x, y in zip(r1, r2))

        for k, (m, s0) in enumerate(zip(ans['returned'], snap)):
            if ('err' in m) != ('err' in s0):
                res.diverge(f'session: call {k}: refused by the model / by the code (Draws.callResult)', sub(len(ops) - 1), m.get('err', 'array'), s0.get('err', s0.get('shape')))
                return
            if 'rows' in m and not same(m['rows'], s0['rows'], normal[k]):
                res.diverge(f'session: what call {k} returned vs Draws.run (the stateless function of the call)', sub(len(ops) - 1),
                            [b2f(x) for x in m['rows'][0][:4]] if m['rows'] else [], s0['rows'][0][:4] if s0['rows'] else [])
                return
        for k, (m, cur) in enumerate(zip(ans['held'], final)):
            if cur is not None and 'rows' in m and not same(m['rows'], cur, normal[k]):
                res.diverge(f'session: the array of call {k} as the caller holds it at the end vs Draws.run (held)', sub(len(ops) - 1),
                            [b2f(x) for x in m['rows'][0][:4]] if m['rows'] else [], cur[0][:4] if cur else [])
                return

    ctx.batch.add({'op': 'session', 'ops': mops}, cb)


def _quantile_oracle(ctx, res, us, zs, mkcase, label, use_model):
    """normal draws = standard normal quantiles of the uniform numbers, near machine precision"""
    if use_model:

        def cb(a):
            ref = [b2f(v) for v in a['ref']]
            bad = [(u, z, q) for u, z, q in zip(us, zs, ref) if not qclose(z, q)]
            for grp in ([b for b in bad if not in_defect_region(b[0])], [b for b in bad if in_defect_region(b[0])]):
                if grp:
                    res.violate(f'{label} is not the standard normal quantile to near machine precision (reference: AS241 as published)',
                                mkcase({'u': [g[0] for g in grp][:40]}), [g[1] for g in grp][:3], [g[2] for g in grp][:3], where=W_F02)

        ctx.batch.add({'op': 'wichura', 'us': [f2b(u) for u in us]}, cb)
        return
    from scipy.stats import norm

    bad = [(u, z, float(norm.ppf(u))) for u, z in zip(us, zs) if 0.0 < u < 1.0 and not core.close(z, float(norm.ppf(u)), rel=1e-12, abs_=1e-14)]
    for grp in ([b for b in bad if not in_defect_region(b[0])], [b for b in bad if in_defect_region(b[0])]):
        if grp:
            res.violate(f'{label} is not the standard normal quantile to near machine precision (scipy second opinion)',
                        mkcase({'u': [g[0] for g in grp][:40]}), [g[1] for g in grp][:3], [g[2] for g in grp][:3], where=W_F02)


def _session_corpus():
    """fixed histories that run first: one per mechanism by which an earlier operation could reach a later call
    (shuffled call then catalogue entries of the same base; caller scribbling over an array then the same request
    again; a table of generate_draws between two direct calls; repeated identical requests)"""
    out = []
    for b in (2, 3, 5):
        out.append({'kind': 'session', 'n_db': 3, 'ops': [
            {'t': 'cat', 'name': f'UNIFORM_HALTON{b}', 'n': 3, 'R': 10},
            {'t': 'halton', 'base': b, 'skip': 10, 'n': 2, 'R': 15, 'symmetric': False, 'shuffled': True, 'alias': False},
            {'t': 'cat', 'name': f'UNIFORM_HALTON{b}', 'n': 3, 'R': 10},
            {'t': 'cat', 'name': f'UNIFORMSYM_HALTON{b}', 'n': 2, 'R': 6},
            {'t': 'halton', 'base': b, 'skip': 0, 'n': 1, 'R': 7, 'symmetric': True, 'shuffled': True, 'alias': True},
            {'t': 'cat', 'name': f'NORMAL_HALTON{b}', 'n': 2, 'R': 4},
            {'t': 'halton', 'base': b, 'skip': 10, 'n': 5, 'R': 8, 'symmetric': False, 'shuffled': False, 'alias': False},
        ]})
        out.append({'kind': 'session', 'n_db': 3, 'ops': [
            {'t': 'cat', 'name': f'NORMAL_HALTON{b}', 'n': 3, 'R': 4},
            {'t': 'cat', 'name': f'UNIFORMSYM_HALTON{b}', 'n': 3, 'R': 4},
            {'t': 'cat', 'name': f'UNIFORM_HALTON{b}', 'n': 3, 'R': 4},
            {'t': 'gd', 'N': 3, 'types': [f'NORMAL_HALTON{b}', f'UNIFORM_HALTON{b}', f'UNIFORMSYM_HALTON{b}'], 'names': ['b10', 'b2', 'a_draw'], 'dict_order': [1, 2, 0],
             'R': 6, 'entry': 'generate_draws'},
            {'t': 'cat', 'name': f'NORMAL_HALTON{b}', 'n': 3, 'R': 4},
        ]})
        out.append({'kind': 'session', 'n_db': 2, 'ops': [
            {'t': 'cat', 'name': f'UNIFORM_HALTON{b}', 'n': 5, 'R': 8},
            {'t': 'scale', 'k': 0, 'c': 100.0},
            {'t': 'cat', 'name': f'UNIFORM_HALTON{b}', 'n': 5, 'R': 8},
            {'t': 'fill', 'k': 1, 'c': 7.0},
            {'t': 'cat', 'name': f'UNIFORMSYM_HALTON{b}', 'n': 5, 'R': 8},
            {'t': 'gd', 'types': [f'UNIFORM_HALTON{b}', 'UNIFORM', f'UNIFORMSYM_HALTON{b}'], 'names': ['b10', 'b2', 'a_draw'], 'dict_order': [2, 0, 1], 'R': 4,
             'N': 2, 'entry': 'generate_draws'},
            {'t': 'halton', 'base': b, 'skip': 3, 'n': 2, 'R': 3, 'symmetric': False, 'shuffled': False, 'alias': False},
            {'t': 'reverse', 'k': 2},
            {'t': 'antithetic', 'inner': 'halton', 'base': b, 'skip': 10, 'n': 2, 'R': 6, 'alias': False},
        ]})
    out.append({'kind': 'session', 'n_db': 2, 'ops': [
        {'t': 'uniform', 'n': 2, 'R': 4, 'symmetric': False, 'alias': False},
        {'t': 'lhs', 'n': 2, 'R': 4, 'symmetric': True, 'alias': True, 'given': None},
        {'t': 'scale', 'k': 1, 'c': -1.0},
        {'t': 'cat', 'name': 'UNIFORM_MLHS_ANTI', 'n': 2, 'R': 4},
        {'t': 'wichura', 'n': 2, 'R': 4, 'antithetic': True, 'alias': False, 'given': [0.3, 0.25, 0.95, 0.4]},
        {'t': 'cat', 'name': 'NORMAL_MLHS_ANTI', 'n': 2, 'R': 4},
        {'t': 'fill', 'k': 0, 'c': 0.25},
        {'t': 'cat', 'name': 'UNIFORMSYM_ANTI', 'n': 2, 'R': 4},
        {'t': 'uniform', 'n': 2, 'R': 4, 'symmetric': True, 'alias': True},
    ]})
    out.append({'kind': 'session', 'n_db': 5, 'ops': [
        {'t': 'gd', 'N': 5, 'types': ['UNIFORM_HALTON3', 'UNIFORM_HALTON3'], 'names': ['b10', 'b2'], 'dict_order': [1, 0], 'R': 4, 'entry': 'generate_draws'},
        {'t': 'remove', 'N': 5, 'keep': 3},
        {'t': 'gd', 'N': 5, 'types': ['UNIFORMSYM_HALTON3', 'NORMAL'], 'names': ['eps', 'Zeta'], 'dict_order': [0, 1], 'R': 6, 'entry': 'generateDraws'},
        {'t': 'panel', 'N': 5},
        {'t': 'gd', 'N': 5, 'types': ['UNIFORM_MLHS', 'UNIFORM_HALTON3'], 'names': ['xi', 'a_draw'], 'dict_order': [1, 0], 'R': 6, 'entry': 'generate_draws'},
        {'t': 'remove', 'N': 5, 'keep': 2},
        {'t': 'gd', 'N': 5, 'types': ['UNIFORM_HALTON3'], 'names': ['xi'], 'dict_order': [0], 'R': 2, 'entry': 'generate_draws'},
    ]})
    live = set(native())
    return [c for c in out if all(nm in live for o in c['ops'] for nm in ([o['name']] if o['t'] == 'cat' else o.get('types', [])))]


def check_session(ctx, res, case=None, use_model=True, rng=None):
    import copy

    case = copy.deepcopy(case) if case is not None else gen_session(rng or ctx.rng)
    run_session(ctx, res, case, use_model=use_model, rng=rng)


# --------------------------------------------------------------------------- the registry of user-defined generators

W_REG = 'database.Database.set_random_number_generators / generate_draws: resolution of a type name'
USER_KEYS = ['MYGEN', 'LOGN', 'exp_draws', 'UNIFORM_X', 'HALTON7', 'normal']


def gen_registry_case(rng):
    names = list(native())
    sets = []
    for i in range(rng.randint(1, 4)):
        keys = rng.sample(USER_KEYS, rng.randint(1, 3))
        if rng.random() < 0.45:
            keys.insert(rng.randrange(len(keys) + 1), rng.choice(names))       # an attempt to take a catalogue name
        sets.append({'keys': keys, 'plain_tuples': rng.random() < 0.4, 'alias': rng.random() < 0.3})
    tried = [k for st in sets for k in st['keys']]
    queries = list(dict.fromkeys(rng.sample(tried, min(len(tried), 4)) + [rng.choice(names), 'NOPE']))
    return {'kind': 'registry', 'N': rng.choice([1, 2, 3, 5]), 'R': rng.choice([2, 4, 6]), 'sets': sets, 'queries': queries}


def check_registry(ctx, res, rng, use_model=True, case=None):
    """a history of registrations of user-defined generators on one Database, then requests by name"""
    import warnings
    import pandas as pd
    import biogeme.database as db
    import biogeme.deprecated as dep
    from biogeme.native_draws import RandomNumberGeneratorTuple

    case = case or gen_registry_case(rng)
    N, R = case['N'], case['R']
    res.count({k: case[k] for k in ('N', 'R', 'sets', 'queries')}, nontrivial=True)
    res.tally('registry')
    d = db.Database('c11registry', pd.DataFrame({'x': [float(i) for i in range(N)], 'y': [1.0] * N}))
    live = set(native())
    marker = {}       # (set number, key) -> the constant its generator delivers
    accepted = []
    last_ok = None
    for i, st in enumerate(case['sets']):
        table = {}
        for j, key in enumerate(st['keys']):
            m = 1000.0 + 16 * i + j
            marker[(i, key)] = m

            def g(sample_size, number_of_draws, m=m):
                return np.full((sample_size, number_of_draws), m)

            table[key] = (g, f'constant {m}') if st['plain_tuples'] else RandomNumberGeneratorTuple(g, f'constant {m}')
        entry = 'setRandomNumberGenerators' if st['alias'] and not getattr(dep, 'RAISE_EXCEPTION', False) else 'set_random_number_generators'
        res.tally(f'registry:{entry}')
        with warnings.catch_warnings():
            warnings.simplefilter('ignore')
            try:
                getattr(d, entry)(table)
                out = 'accepted'
            except Exception as e:  # noqa: BLE001
                out = core.exc_kind(e)
        accepted.append(out)
        reserved = [k for k in st['keys'] if k in live]
        if reserved and out != 'ValueError':
            res.violate(f'registration {i}: a table of user-defined generators with the catalogue name {reserved[0]} among its keys is not refused by ValueError',
                        case, out, 'ValueError', where=W_REG)
        if not reserved:
            if out != 'accepted':
                res.violate(f'registration {i}: a table of user-defined generators without catalogue names is refused', case, out, 'accepted', where=W_REG)
            else:
                last_ok = i
    # requests by name
    resolved = []
    for q in case['queries']:
        st = Stream(rng, edges=False)     # the oracles below do not depend on the random numbers drawn
        with patched(st), warnings.catch_warnings():
            warnings.simplefilter('ignore')
            try:
                t = np.asarray(d.generate_draws({'v': q}, ['v'], R), dtype=float)
                err = None
            except Exception as e:  # noqa: BLE001
                t, err = None, core.exc_kind(e)
        if err is not None:
            resolved.append('unknown' if err == 'BiogemeError' else f'raises {err}')
        elif t.shape == (N, R, 1) and len(set(t.reshape(-1).tolist())) == 1 and t.reshape(-1)[0] >= 1000.0:
            resolved.append(('user', float(t.reshape(-1)[0])))
        else:
            resolved.append('native')
        r = resolved[-1]
        if q in live:
            # a catalogue name delivers the catalogue's draws, whatever was registered
            if r != 'native' or t.shape != (N, R, 1):
                res.violate(f'the catalogue name {q} does not deliver the draws of the catalogue after a history of registrations', case, str(r), 'the catalogued generator', where=W_REG)
            else:
                adv = parse_description(native()[q].description)
                flat = t[:, :, 0].reshape(-1).tolist()
                if adv['kind'] == 1 and not adv['normal'] and not adv['antithetic']:
                    exp = _halton_expected(adv['base'], adv['skip'] if adv['skip'] is not None else 10, N * R, adv['interval'] == 'sym')
                    if not all(_frac_close(x, e, adv['base'] == 2) for x, e in zip(flat, exp)):
                        res.violate(f'the catalogue name {q} does not deliver the radical-inverse sequence of base {adv["base"]} after a history of registrations', case,
                                    flat[:4], [float(e) for e in exp[:4]], where=W_REG)
                lo, hi = {'unit': (0.0, 1.0), 'sym': (-1.0, 1.0), 'real': (-40.0, 40.0)}[adv['interval']]
                if not all(lo <= x <= hi for x in flat):
                    res.violate(f'the catalogue name {q}: entries outside the advertised support after a history of registrations', case, [x for x in flat if not lo <= x <= hi][:3],
                                [lo, hi], where=W_REG)
        elif last_ok is not None and q in case['sets'][last_ok]['keys']:
            # the latest registration serves the name
            if r != ('user', marker[(last_ok, q)]):
                res.violate(f'the user-defined type {q} is not served by the generator registered last', case, str(r), marker[(last_ok, q)], where=W_REG)
        elif not any(q in st_['keys'] for st_ in case['sets']):
            if r != 'unknown':
                res.violate(f'the type name {q} was never registered and is not catalogued, but is not refused by the library error', case, str(r), 'BiogemeError', where=W_REG)
    if not use_model:
        return

    def cb(a):
        if a['accepted'] != [x == 'accepted' for x in accepted]:
            res.diverge('registrations accepted / refused: Draws.setGenerators vs the code', case, a['accepted'], accepted)
            return
        for q, m, r in zip(case['queries'], a['resolved'], resolved):
            got = r if isinstance(r, str) else f'user:{q}'
            if m != got and q not in live and (last_ok is None or q not in case['sets'][last_ok]['keys']) and any(q in st_['keys'] for st_ in case['sets']):
                # a key of an earlier table only: the code replaces the registry (as modelled); merging the tables would not
                # contradict the statement - recorded, not an alarm
                res.notes.append(f'registry: {q} of an earlier table resolves to {r} (model: {m})')
                continue
            if m != got:
                res.diverge(f'resolution of the type name {q}: Draws.resolve vs the code', case, m, str(r))
                return

    ctx.batch.add({'op': 'registry', 'sets': [st['keys'] for st in case['sets']], 'names': case['queries']}, cb)


REGISTRY_CORPUS = [
    {'kind': 'registry', 'N': 3, 'R': 4, 'sets': [{'keys': ['MYGEN', 'LOGN'], 'plain_tuples': False, 'alias': False},
                                                  {'keys': ['UNIFORM_HALTON3', 'exp_draws'], 'plain_tuples': True, 'alias': False},
                                                  {'keys': ['exp_draws'], 'plain_tuples': True, 'alias': True}],
     'queries': ['UNIFORM_HALTON3', 'MYGEN', 'exp_draws', 'UNIFORMSYM_HALTON5', 'NOPE']},
    {'kind': 'registry', 'N': 2, 'R': 2, 'sets': [{'keys': ['UNIFORM'], 'plain_tuples': False, 'alias': False}], 'queries': ['UNIFORM', 'UNIFORM_HALTON2', 'NOPE']},
]


# --------------------------------------------------------------------------- the check

CORPUS_W = [1e-12, 0.6, 0.05, 0.46, 0.9, 0.074, 0.075, 0.45, 0.926, 0.5]


def distinct_bases(ctx, res):
    """catalogue entries that advertise different bases yield different sequences (real arrays)"""
    seqs = {}
    for name, t in native().items():
        adv = parse_description(t.description)
        if adv['kind'] == 1:
            seqs[name] = (adv, np.asarray(t.generator(3, 8), dtype=float).reshape(-1).tolist())
    names = sorted(seqs)
    for i, a in enumerate(names):
        for b in names[i + 1:]:
            if seqs[a][0]['base'] != seqs[b][0]['base'] and seqs[a][0]['interval'] == seqs[b][0]['interval'] and seqs[a][1] == seqs[b][1]:
                res.violate(f'{a} and {b} advertise different bases but yield the same sequence', {'kind': 'distinct', 'a': a, 'b': b},
                            seqs[a][1][:4], 'different sequences', where='native_draws.native_random_number_generators')
    res.count({'distinct_bases': names}, nontrivial=True)


def translator_vs_runtime(ctx, res):
    """the table the translator read from the source is the table that is live"""
    cat = _CAT_CACHE.get('cat') or extract_catalogue()
    live = {k: v.description for k, v in native().items()}
    got = {name: desc for name, _, desc, _ in cat}
    if got != live:
        res.diverge('catalogue keys / descriptions: translator vs live dictionary', {'kind': 'translator'}, sorted(got.items())[:3], sorted(live.items())[:3])
    import biogeme.native_draws as nd

    if hasattr(nd, 'description_of_native_draws'):
        pub = nd.description_of_native_draws()
        if dict(pub) != live:
            res.diverge('description_of_native_draws() vs the descriptions of the catalogue', {'kind': 'translator'},
                        sorted(set(dict(pub).items()) ^ set(live.items()))[:3], 'the same table')

    def cb(a):
        names = [e['name'] for e in a['entries']]
        if names != list(live):
            res.diverge('Generated.drawCatalogue vs live dictionary', {'kind': 'translator'}, names, list(live))
        bad = [e['name'] for e in a['entries'] if not e['ok']]
        if bad:
            res.notes.append(f'entries not matching their description: {bad}')

    ctx.batch.add({'op': 'catalogue'}, cb)


def sizes(rng, quick):
    ns = [1, 2, 3, 5, 7]
    rs = [2, 4, 6, 10, 16, 24]
    return rng.choice(ns), rng.choice(rs)


def check(ctx) -> Result:
    res = Result(rule=RULE, tolerance='uniform / Halton / MLHS arrays: bit for bit vs the model, exact rationals vs the oracle (1e-12 for bases other than 2); '
                 'normal quantile: 1e-13 relative (absolute floor 1e-15)')
    rng = ctx.rng
    with core.scratch():
        translator_vs_runtime(ctx, res)
        # corpus: the inputs of the known finding F02 and the pairs of F01 (fixed)
        check_wichura(ctx, res, CORPUS_W, label='corpus')
        distinct_bases(ctx, res)
        for name in ('NORMAL_HALTON3', 'NORMAL_HALTON5', 'NORMAL_HALTON2'):
            check_type(ctx, res, name, 2, 6, rng)
        for c in _user_corpus():
            check_user_generators(ctx, res, rng, case=c)
        import copy

        for c in REGISTRY_CORPUS:
            if all(q in native() or q in USER_KEYS or q == 'NOPE' for q in c['queries']):
                check_registry(ctx, res, rng, case=copy.deepcopy(c))
        for _ in range(ctx.n(60, 1000)):
            check_registry(ctx, res, rng)
        # histories within this process (every later stream of the check also runs after them)
        for c in _session_corpus():
            check_session(ctx, res, case=c)
        for _ in range(ctx.n(60, 800)):
            check_session(ctx, res)
        # all catalogued types
        names = list(native())
        for name in names:
            for _ in range(ctx.n(8, 150)):
                n, R = sizes(rng, ctx.quick)
                check_type(ctx, res, name, n, R, rng)
        check_wichura(ctx, res, wichura_grid(rng, ctx.n(3000, 150000)))
        for _ in range(ctx.n(80, 3000)):
            check_halton_direct(ctx, res, rng)
        for _ in range(ctx.n(80, 3000)):
            check_lhs_direct(ctx, res, rng)
        for _ in range(ctx.n(10, 300)):
            check_antithetic_direct(ctx, res, rng)
        for _ in range(ctx.n(15, 500)):
            check_generate_draws(ctx, res, rng)
        for _ in range(ctx.n(8, 200)):
            check_generate_draws(ctx, res, rng, odd=True)
        for _ in range(ctx.n(150, 4000)):
            check_user_generators(ctx, res, rng)
        check_malformed(ctx, res, rng)
        for _ in range(ctx.n(60, 800)):
            check_session(ctx, res)
        ctx.batch.flush()
        confirm_violations(ctx, res)
    return res


def _stub_ctx():
    import random
    import types

    class _NoBatch:
        items = []

        def add(self, *a, **k):
            pass

        def add_many(self, *a, **k):
            pass

        def flush(self):
            pass

    return types.SimpleNamespace(rng=random.Random(0), batch=_NoBatch(), seed=0, quick=True, tier='quick', findings=[], n=lambda q, t: q)


def replay_isolated(payload):
    """entry point of core.run_isolated: does this case fail on its own, in a fresh interpreter?"""
    return replay(_stub_ctx(), {'case': payload['case'], 'what': 'confirmation'})


def _process_history(upto_session, then_ops):
    """the operations of the sessions this process ran before session number `upto_session`, followed by `then_ops`"""
    ops, off = [], 0
    for sops, ncalls in _PROCESS_SESSIONS[:upto_session]:
        for o in sops:
            o2 = dict(o)
            if o2['t'] in SESSION_MUT:
                o2['k'] += off
            ops.append(o2)
        off += ncalls
    for o in then_ops:
        o2 = dict(o)
        if o2['t'] in SESSION_MUT:
            o2['k'] += off
        ops.append(o2)
    return {'kind': 'session', 'n_db': 1, 'ops': ops}


def confirm_violations(ctx, res):
    """The check is one long history in one process: when an earlier operation left state behind, a later case
    can fail although it does not fail on its own.  Put first a violation whose case fails in a fresh interpreter
    (its case is then the complete failing input); if none does, file the first one under the recorded history of
    this process that leads to it.  Nothing happens on a tree without violations."""
    cand = [v for v in res.violations if v.get('where') != W_F02 and isinstance(v.get('case'), dict)][:6]
    if not cand:
        return
    for v in cand:
        out = core.run_isolated('props.c11', 'replay_isolated', {'case': v['case']}, timeout=600)
        if out.get('property_fails'):
            res.violations = [v] + [x for x in res.violations if x is not v]
            return
    v = cand[0]
    c = v['case']
    if c.get('kind') == 'session':
        hist = _process_history(c.get('session_no') or 0, c['ops'])
    elif c.get('kind') == 'catalogue':
        hist = _process_history(len(_PROCESS_SESSIONS), [{'t': 'cat', 'name': c['name'], 'n': c['n'], 'R': c['R'], 'us': c.get('us') or [], 'perms': c.get('perms') or []}])
    else:
        return
    out = core.run_isolated('props.c11', 'replay_isolated', {'case': hist}, timeout=900)
    if out.get('property_fails'):
        v2 = {**v, 'case': hist, 'what': v['what'] + ' [after the recorded history of this process]'}
        res.violations = [v2] + list(res.violations)
    else:
        res.notes.append('violations were observed that do not fail again in a fresh interpreter, neither alone nor after the recorded history of sessions')


def _is_known(ctx, v):
    for f in ctx.findings:
        if f.get('kind') == 'known' and f.get('where') == v.get('where'):
            pred = MATCHERS.get(f.get('match', ''))
            if pred is None or pred(v.get('case')):
                return True
    return False


def search(ctx, res, broken):
    """an obligation / the translator / the correspondence broke: apply the oracles of the statement to
    the real code on a widened stream, without the model (scipy.stats.norm.ppf as second opinion)"""
    rng = core.rng_for('C11-search', ctx.seed)
    r2 = Result()
    with core.scratch():
        for c in _session_corpus():
            check_session(ctx, r2, case=c, use_model=False, rng=rng)
        for _ in range(150):
            check_session(ctx, r2, use_model=False, rng=rng)
        for _ in range(150):
            check_registry(ctx, r2, rng, use_model=False)
        distinct_bases(ctx, r2)
        for name in list(native()):
            for _ in range(12):
                n, R = sizes(rng, False)
                check_type(ctx, r2, name, n, R, rng, use_model=False)
        check_wichura(ctx, r2, wichura_grid(rng, 3000), use_model=False)
        for _ in range(200):
            check_halton_direct(ctx, r2, rng, use_model=False)
            check_lhs_direct(ctx, r2, rng, use_model=False)
        for _ in range(40):
            check_generate_draws(ctx, r2, rng)
            check_generate_draws(ctx, r2, rng, odd=True)
        for c in _user_corpus():
            check_user_generators(ctx, r2, rng, use_model=False, case=c)
        for _ in range(300):
            check_user_generators(ctx, r2, rng, use_model=False)
        # every catalogue entry against its description, dynamically (what the generated obligation states)
        for name, t in native().items():
            adv = parse_description(t.description)
            if adv['kind'] == 1 and adv['base'] is None:
                r2.violate(f'{name}: a Halton type that advertises no base', {'kind': 'catalogue', 'name': name, 'n': 1, 'R': 2, 'us': [], 'perms': []},
                           t.description, 'a base', where=f'native_draws.native_random_number_generators[{name}]')
    ctx.batch.items.clear()
    confirm_violations(ctx, r2)
    for v in r2.violations:
        if not _is_known(ctx, v):
            res.violations.append(v)
            return


def replay(ctx, obj):
    case = obj.get('case') or {}
    out = {'replayed': obj.get('what')}
    r = Result()
    k = case.get('kind')
    with core.scratch():
        if k == 'wichura':
            check_wichura(ctx, r, [float(u) for u in case['u']], use_model=False)
        elif k == 'catalogue':
            if case.get('us') or case.get('perms'):
                stream = Stream(us=case.get('us') or [], perms=case.get('perms') or [])
            else:
                stream = Stream(core.rng_for('C11-replay', 0))
            check_type(ctx, r, case['name'], case['n'], case['R'], None, use_model=False, stream=stream)
        elif k == 'halton':
            import biogeme.draws as dr

            a = np.asarray(dr.get_halton_draws(case['n'], case['R'], symmetric=case['symmetric'], base=case['base'], skip=case['skip'])).reshape(-1).tolist()
            for i, x in enumerate(a):
                ri = radical_inverse(case['base'], i + case['skip'] + 1)
                exp = 2 * ri - 1 if case['symmetric'] else ri
                if abs(Fraction(x) - exp) > Fraction(1, 10**12):
                    r.violate('halton', case, x, float(exp))
                    break
        elif k == 'generate_draws':
            rr = core.rng_for('C11-replay', 0)
            check_generate_draws(ctx, r, rr, odd=case['R'] % 2 == 1)
        elif k == 'user_generators':
            check_user_generators(ctx, r, core.rng_for('C11-replay', 0), use_model=False, case=case)
        elif k == 'distinct':
            distinct_bases(ctx, r)
        elif k == 'registry':
            check_registry(ctx, r, core.rng_for('C11-replay', 0), use_model=False, case=case)
        elif k == 'session':
            check_session(ctx, r, case=case, use_model=False, rng=core.rng_for('C11-replay', 0))
        else:
            out.update({'property_fails': False, 'note': 'nothing to replay (no concrete input in this file)'})
            return out
    ctx.batch.items.clear()
    viol = r.violations
    if k in ('session', 'catalogue') and not case.get('u'):
        # the stored input is not about the quantile transform: the listed finding F02, which every case with
        # normal draws meets on the way, does not make it a failing input
        viol = [v for v in viol if not (v.get('where') == W_F02 and MATCHERS['u_in_defect_region'](v.get('case')))]
    out['property_fails'] = bool(viol)
    out['violations'] = [{kk: v[kk] for kk in ('what', 'observed', 'expected')} for v in viol[:2]]
    return out
