"""C12 — invalid specifications are refused with a clear error wherever the fault sits.

Tie: translator (T) + correspondence (C).
* `translate`: every expression class of the live package is instantiated with probe children and
  each of its child slots is planted with a fault; which hooks (`audit`, `check_draws`, `check_rv`,
  `check_panel_trajectory`) reach the slot is written to `lean/Generated/Operators.lean`; theorem
  `C12.table_descends` (`decide`) is re-checked against that table.
* `check`: fault elements are planted in every (class, slot) context (and nested contexts) and the
  formula is submitted through both entry paths, `BIOGEME(...)` and
  `Expression.get_value_and_derivatives` (engine call intercepted, so that "before any number is
  produced" is observed exactly and the engine is never poisoned).  The Lean model
  (`Audit.topAuditBio/Expr`) says which faults must be reported; an independent oracle written from
  the property says whether the specification must be refused.  Data audit, nest audits, derivative
  flags and the missing-data code are exercised as relations on real runs (fresh processes).
* names stream: elementary expressions of every kind with coinciding names (one name for two kinds of
  element; a column absent from the data whose name is borne by a parameter / draw / integration
  variable), planted in every (class, slot) context, in side terms and in a second formula of the
  dictionary, through every entry path that assigns ids (`get_value_and_derivatives`, `get_value_c`,
  `Database.add_column / define_variable / remove / values_from_database`, `BIOGEME(...)` with and
  without audit, `BIOGEME(dict)`); model `Audit.stagedExpr / stagedBio` (ids, then audit, in the order of
  each path).
* data life cycle stream: operation sequences on a valid `Database` (a first `BIOGEME` object,
  `.panel()`, the user rebinding or editing `database.data`, `add_column`, `remove`, `scale_column`)
  after which NaN / non-numeric / empty data enters; the data must be refused where it is supplied
  again (`BIOGEME(...)`, `BIOGEME(dict)`, `Database(...)`); model `Audit.dataAuditNew / dataAuditBio`.
* rows stream (round 3): every data-dependent fault in every ROW position (first / middle / last / only row / several) and
  frame size 1, 2, 5: a choice that is no alternative, for logits built by `models.loglogit / logit / lognested` WITHOUT
  availability conditions, with constant ones, with availability columns, keys of the two dictionaries in another order
  or different, labels 10/20/30, planted in contexts, through `BIOGEME(...)`, `get_value_c`, `get_value_and_derivatives`,
  `Database.values_from_database` and the function of `create_function`; a NaN / string cell (`Database(...)`, `BIOGEME(...)`
  after an edit in place); the missing-data code.  Model `Audit.logitDataFaults` (the audit's `argwhere(...).any()` test and the
  lookup of the chosen alternative among the availabilities), `Audit.getValueRefuses` for `LogLogit.get_value`.
* session stream (round 3): histories on ONE formula object and ONE Database object - evaluations through five entry points
  interleaved with edits (a choice set in place, `scale_column`, `database.panel()`, another member of the catalog selected,
  columns dropped / added); every evaluation must be judged like a first evaluation of the current formula on the current
  data.  The engine really runs where the property says the specification is valid, and is intercepted elsewhere.  Model
  `Audit.run` (state machine over `SOp`), theorems `C12.reevaluation_like_first / reevaluation_refused / reevaluation_accepted /
  edited_choice_refused`.
* nest NAMES (follow-up): names are an input dimension of the nest audit - distinct, all unnamed (defaulted `nest_<position>`), the
  same name given twice / to all, a given name equal to the default name of another position, names inherited from an earlier
  specification through re-use of the nest objects, old tuple syntax - with an overlap injected between ANY pair; entry points
  `check_partition`, `models.lognested / nested / lognested_mev_mu / get_mev_for_nested`; the oracle looks at the alternatives only;
  model `Audit.nestAuditNamed` / `assignNames` (also the names borne after the constructor), theorems `C12.nest_names_irrelevant`,
  `named_overlap_refused`.
* nests: `Audit.nestAudit` (constructor + all ordered pairs of different nests) against `NestsForNestedLogit` /
  `models.lognested`; the same groups as cross-nested nests (`NestsForCrossNestedLogit`, `check_validity`, `models.logcnl`).
"""

from __future__ import annotations

import json
import os
import re
import tempfile
from pathlib import Path

import numpy as np

from lib import core
from lib.core import Result

READY = True
EXTRA_MODULES = ['Generated.Operators', 'Driver.Expr']
MANIFEST = dict(
    text='Proof (Lean 4): whatever the audit of a sub-formula reports is reported by the audit of every formula containing it, through any chain '
    'of operator kinds (C12.audit_complete, induction over paths; unknown_column_refused, logit_keys_refused); draws / integration variables / '
    'panel variables reachable without crossing their operator are reported on both entry paths (C12.draws_outside_refused, rv_outside_refused, '
    'panel_variable_refused) and only then (C12.collectors_sound); a formula without local fault passes (C12.audit_sound); the real operator '
    'classes descend into every child slot, also for the collectors of names and the assignment of ids (C12.table_descends, decide over the '
    'table REGENERATED from the live classes on every run); one name for two kinds of element and a column absent from the data are reported at '
    'id assignment wherever the elements sit, whatever else bears the name, on every entry path, audit skipped or not (C12.duplicate_name_refused, '
    'name_of_column_refused, absent_column_refused_at_ids, ids_sound, staged_reports_stage_faults); non-numeric, NaN or empty data held at the time '
    'of the call is refused by Database(...) and BIOGEME(...), valid data never (C12.data_fault_refused, data_valid_accepted). '
    'Round 3: a choice that is no alternative is refused whichever ROW holds it, with or without availability conditions, wherever the logit sits '
    '(C12.choice_row_refused, choice_row_refused_anywhere, choice_rows_sound; dedicated_test_misses_first_row shows that the audit\'s own '
    'argwhere(...).any() test is blind to row 0 and the refusal rests on the availability lookup); LogLogit.get_value refuses such a choice '
    '(get_value_choice_refused); nests sharing an alternative are refused wherever they sit in the tuple, alternatives outside the choice set too, '
    'disjoint nests never, and the verdict depends on the alternatives only, never on the names of the nests (C12.nests_refused, nests_sound, '
    'nest_names_irrelevant, named_overlap_refused); histories on the same objects: an evaluation leaves nothing behind and every later '
    'evaluation is judged like a first evaluation of the current formula on the current data (C12.evaluations_leave_no_trace, '
    'reevaluation_like_first, reevaluation_refused, reevaluation_accepted, edited_choice_refused - induction over List SOp). '
    'Tie: translator + exhaustive (class, slot) fault planting on both entry paths with the engine call intercepted; a names stream over nine entry '
    'paths; a data life-cycle stream (operation sequences, then a data fault, then the data is supplied again); a rows stream (fault in every row '
    'position x frame size x availability mode x model function x entry point); a session stream (evaluation/edit histories on one formula and one '
    'Database object, five entry points, engine really run on valid states); nests tied to Audit.nestAudit; flag/missing-data clauses are checked as '
    'relations on real runs (the missing-data code now also by row position).',
    design='DESIGN.md §5 C12',
    technique='Lean 4 theorems over a structural audit model + generated operator table (decide) + exhaustive fault-planting correspondence',
    note='Partial: the derivative-flag check and the missing-data clause at engine level are validated on real runs (oracle + engine model), not proved of '
    'the C++ engine; the session model has no memo by construction - that the code has none is what the session stream checks; the data audit is '
    'modelled on what the audit can see of a frame (numeric dtype, a null entry, number of rows); NaN / non-numeric data is judged where data is '
    'supplied (Database(...), BIOGEME(...)), not at formula-level evaluation of a Database edited after its construction; '
    'finding F-C12-empty (fixed in /repo); finding F-C12-stale-ids (found by this check, repaired in /repo by 03d2517): after an evaluation refused for an absent column the formula object keeps '
    'the half-assigned id manager and every later evaluation with prepare_ids=True is refused although the column is there now (model = repaired '
    'behaviour, proposed_fixes/F-C12-stale-ids.diff); LogLogit.get_value with DIFFERENT keys for utilities and availabilities raises KeyError (not an '
    'observation point of the property: not judged); '
    'after one engine exception the external engine keeps rethrowing it in the same process (known finding F-E2, engine outside /repo): '
    'missing-data cases run in fresh processes.',
)
TRUSTED = ['probe recipes of the translator (how each class is instantiated with given children)',
           'message keywords used to recognise which fault an error message names',
           'the abstract frame of a data life-cycle case (tracked by construction, cross-checked against the frame read with pandas)',
           'the small AST of the rows / session streams: real formula (models.* functions, catalogs) and abstract dag are built side by side from it',
           'the history shape under which the listed finding F-C12-stale-ids can show (stale_ids_pattern, computed from the operations alone)']
ASSUMPTIONS = []
RULE = ('fault elements (unknown column, draws/rv/panel variable outside their operator, logit key mismatch, MonteCarlo without draws / nested, '
        'Integrate without rv, trajectory on flat data, valid fillers) x every (expression class, child slot) context, nested to depth 1-3, x both '
        'entry paths; non-trivial = context depth >= 1 (the fault is not the root).  Names stream: 1-4 elementary expressions (free / fixed '
        'parameter, draws, integration variable, variable) with coinciding or distinct names, present or absent columns, in hole / side term / '
        'second formula x contexts of depth 0-3 x 9 entry paths; non-trivial = depth >= 1 or >= 2 elements.  Data life cycle: 0-4 preparation '
        'steps x 9 data faults or none x 2 neutral rebindings x 6 entry points; all non-trivial.  Rows: 10 row-position sets over frames of 1/2/5 rows '
        'x 4 invalid choice values x availabilities none/ones/columns/other keys x loglogit/logit/lognested x labels 1-3 / 10-30 x 0-2 contexts x 5 entry '
        'points; NaN / string cells by position x 2 columns x 2 entry points; missing-data code by row position.  Sessions: 5 formula shapes (logit, '
        'MonteCarlo, MonteCarlo over a catalog, catalog of plain terms, MonteCarlo over a trajectory) x histories of 1-4 rounds of 1-2 edits and 1-2 '
        'evaluations (5 entry points); all non-trivial')

GEN = core.LEAN / 'Generated' / 'Operators.lean'


# ----------------------------------------------------------------------------- class recipes


def recipes():
    """class name -> (kind, n_slots, builder(children) -> instance, slot_types) ; slot type 'any' can hold any
    expression, 'beta' / 'var' only that elementary type"""
    import biogeme.expressions as ex
    import biogeme.expressions.comparison_expressions as cmp
    import biogeme.expressions.binary_expressions as bn
    import biogeme.expressions.unary_expressions as un
    import biogeme.expressions.nary_expressions as na
    import biogeme.expressions.logit_expressions as lg
    from biogeme.catalog import Catalog

    R = {}
    for name in ['Plus', 'Minus', 'Times', 'Divide', 'Power', 'bioMin', 'bioMax', 'And', 'Or']:
        R[name] = ('op', 2, (lambda c, cls=getattr(bn, name): cls(c[0], c[1])), ['any', 'any'])
    for name in ['Equal', 'NotEqual', 'LessOrEqual', 'GreaterOrEqual', 'Less', 'Greater']:
        R[name] = ('op', 2, (lambda c, cls=getattr(cmp, name): cls(c[0], c[1])), ['any', 'any'])
    for name in ['UnaryMinus', 'bioNormalCdf', 'exp', 'sin', 'cos', 'log', 'logzero']:
        R[name] = ('op', 1, (lambda c, cls=getattr(un, name): cls(c[0])), ['any'])
    R['PowerConstant'] = ('op', 1, lambda c: un.PowerConstant(c[0], 2.0), ['any'])
    R['BelongsTo'] = ('op', 1, lambda c: un.BelongsTo(c[0], {1, 2}), ['any'])
    R['Derive'] = ('op', 1, lambda c: un.Derive(c[0], 'x'), ['any'])
    R['MonteCarlo'] = ('monteCarlo', 1, lambda c: un.MonteCarlo(c[0]), ['any'])
    R['Integrate'] = ('integrate', 1, lambda c: un.Integrate(c[0], 'om'), ['any'])
    R['PanelLikelihoodTrajectory'] = ('panelTraj', 1, lambda c: un.PanelLikelihoodTrajectory(c[0]), ['any'])
    R['ConditionalSum'] = ('op', 4, lambda c: na.ConditionalSum([na.ConditionalTermTuple(condition=c[0], term=c[1]),
                                                                  na.ConditionalTermTuple(condition=c[2], term=c[3])]), ['any'] * 4)
    R['bioMultSum'] = ('op', 3, lambda c: na.bioMultSum(list(c)), ['any'] * 3)
    R['Elem'] = ('op', 3, lambda c: na.Elem({1: c[1], 2: c[2]}, c[0]), ['any'] * 3)
    R['bioLinearUtility'] = ('op', 4, lambda c: na.bioLinearUtility([na.LinearTermTuple(beta=c[0], x=c[2]), na.LinearTermTuple(beta=c[1], x=c[3])]),
                             ['beta', 'beta', 'var', 'var'])
    for name in ['LogLogit', '_bioLogLogit']:
        R[name] = ('logLogit', 5, (lambda c, cls=getattr(lg, name): cls({1: c[1], 2: c[2]}, {1: c[3], 2: c[4]}, c[0])), ['one', 'any', 'any', 'one', 'one'])
    R['_bioLogLogitFullChoiceSet'] = ('logLogit', 3, lambda c: lg._bioLogLogitFullChoiceSet({1: c[1], 2: c[2]}, c[0]), ['one', 'any', 'any'])
    R['Catalog'] = ('catalog', 1, lambda c: Catalog.from_dict('cat', {'sel': c[0], 'other': ex.Numeric(1)}), ['any'])
    return R


LEAVES = {'Numeric', 'Beta', 'Variable', 'bioDraws', 'RandomVariable', 'DefineVariable', 'Elementary'}
ABSTRACT = {'UnaryOperator', 'BinaryOperator', 'ComparisonOperator', 'MultipleExpression', 'Expression'}


def live_classes():
    import biogeme.expressions as ex  # noqa: F401
    import biogeme.expressions.comparison_expressions  # noqa: F401
    import biogeme.catalog  # noqa: F401
    import biogeme.segmentation  # noqa: F401
    from biogeme.expressions import Expression

    out = []

    def subs(c):
        for s in c.__subclasses__():
            if s not in out:
                out.append(s)
                subs(s)

    subs(Expression)
    return [c for c in out if c.__module__.startswith('biogeme')]


def probe_db():
    import pandas as pd
    import biogeme.database as db

    return db.Database('probe', pd.DataFrame({'x': [1.5, 1.5], 'ID': [1, 2]}))


def names_reach(build, types, n, i, filler, notes, cname):
    """do the hooks of id assignment reach an elementary expression planted in slot i?  Every type of
    elementary expression the slot can hold is planted: `dict_of_elementary_expression` /
    `set_of_elementary_expression` of its type must list it, `embed_expression` must see its class and
    `set_id_manager` must hand it the id manager"""
    from biogeme.expressions import Variable, Beta, bioDraws, RandomVariable, TypeOfElementaryExpression as T

    t = types[i]
    probes = []
    if t in ('beta', 'any', 'one'):
        probes += [(Beta('zzq', 1.0, None, None, 0), T.FREE_BETA), (Beta('zzq', 1.0, None, None, 1), T.FIXED_BETA)]
    if t in ('var', 'any', 'one'):
        probes += [(Variable('x'), T.VARIABLE)]
    if t in ('any', 'one'):
        probes += [(bioDraws('zzq', 'NORMAL'), T.DRAWS), (RandomVariable('zzq'), T.RANDOM_VARIABLE)]
    ok = True
    for probe, typ in probes:
        ch = [filler(types[j], j) for j in range(n)]
        if typ == T.VARIABLE:
            # a variable no filler uses: column ID of the probe database
            probe = Variable('ID')
        ch[i] = probe
        try:
            obj = build(ch)
            good = (probe.name in obj.dict_of_elementary_expression(typ) and probe.name in obj.set_of_elementary_expression(typ)
                    and obj.embed_expression(type(probe).__name__))
            marker = object()
            obj.set_id_manager(None)
            probe.id_manager = marker
            obj.set_id_manager(None)
            good = good and probe.id_manager is None
        except Exception as e:  # noqa: BLE001
            good = False
            notes.append(f'{cname} slot {i} hook names: {type(e).__name__}: {e}'[:200])
        ok = ok and bool(good)
    return ok


def translate(ctx):
    """regenerate Generated/Operators.lean from the live classes"""
    from biogeme.expressions import Variable, Beta, bioDraws, RandomVariable

    R = recipes()
    db = probe_db()
    rows = []
    notes = []
    for cls in live_classes():
        name = cls.__name__
        if name in LEAVES or name in ABSTRACT:
            continue
        if name not in R:
            rows.append((name, 'op', 0, None))  # unknown class: opaque entry, cannot conform
            notes.append(f'no probe recipe for class {name}')
            continue
        kind, n, build, types = R[name]

        def filler(t, i):
            from biogeme.expressions import Numeric

            if t == 'one':
                return Numeric(1)
            return Beta(f'b{i}', 1.0, None, None, 0) if t == 'beta' else Variable('x')

        reach = {'audit': [], 'draws': [], 'rv': [], 'panel': [], 'names': []}
        for i in range(n):
            for hook in reach:
                t = types[i]
                if hook == 'names':
                    reach[hook].append(names_reach(build, types, n, i, filler, notes, name))
                    continue
                probe = {'audit': Variable('zzz'), 'draws': bioDraws('dd', 'NORMAL'), 'rv': RandomVariable('om'), 'panel': Variable('pv')}[hook]
                if t == 'beta' or (t == 'var' and hook in ('draws', 'rv')):
                    reach[hook].append(None)  # the slot cannot hold this element at all
                    continue
                ch = [filler(types[j], j) for j in range(n)]
                ch[i] = probe
                try:
                    obj = build(ch)
                    if hook == 'audit':
                        try:
                            errs, _ = obj.audit(db)
                        except Exception as e:  # noqa: BLE001
                            # an audit that raises the library error naming the fault also reports it
                            errs = [str(e)] if core.exc_kind(e) == 'BiogemeError' else []
                        ok = any('zzz' in e for e in errs)
                    elif hook == 'draws':
                        ok = 'dd' in obj.check_draws()
                    elif hook == 'rv':
                        ok = 'om' in obj.check_rv()
                    else:
                        ok = 'pv' in obj.check_panel_trajectory()
                except Exception as e:  # noqa: BLE001
                    ok = False
                    notes.append(f'{name} slot {i} hook {hook}: {type(e).__name__}: {e}'[:200])
                reach[hook].append(ok)
        rows.append((name, kind, n, reach))

    def blist(l, kind, hook):
        # a slot that cannot hold the element counts as the model's expectation (vacuous)
        stop = {'draws': 'monteCarlo', 'rv': 'integrate', 'panel': 'panelTraj'}.get(hook)
        exp = not (stop is not None and kind == stop)
        return '[' + ', '.join(('true' if (exp if v is None else v) else 'false') for v in l) + ']'

    lines = ['/- GENERATED on every run by harness/props/c12.py (translate) from the live expression classes of',
             '   biogeme: for each class and child slot, does the hook reach a fault planted in that slot? -/',
             'import Model.Audit', 'open Audit', '', 'namespace Generated.Operators', '', 'def table : List OpInfo := [']
    ents = []
    for name, kind, n, reach in sorted(rows):
        if reach is None:
            ents.append(f'  {{ cls := "{name}", kind := .{kind}, slots := 1, auditReaches := [], drawsReaches := [], rvReaches := [], panelReaches := [], namesReaches := [] }}')
        else:
            ents.append(f'  {{ cls := "{name}", kind := .{kind}, slots := {n}, auditReaches := {blist(reach["audit"], kind, "audit")}, '
                        f'drawsReaches := {blist(reach["draws"], kind, "draws")}, rvReaches := {blist(reach["rv"], kind, "rv")}, '
                        f'panelReaches := {blist(reach["panel"], kind, "panel")}, namesReaches := {blist(reach["names"], kind, "names")} }}')
    lines.append(',\n'.join(ents))
    lines += [']', '', 'end Generated.Operators', '']
    text = '\n'.join(lines)
    if not GEN.exists() or GEN.read_text() != text:
        GEN.write_text(text)
    ctx.table_rows = rows
    ctx.table_notes = notes
    return []


# ----------------------------------------------------------------------------- fault planting

FAULTS = ['valid_var', 'valid_num', 'unknown_column', 'draws', 'rv', 'logit_keys', 'mc_nodraws', 'mc_nested', 'int_norv', 'traj', 'mc_ok', 'int_ok']


def element(fault):
    """(real object, abstract nodes appended, root index) of a hole element"""
    import biogeme.expressions as ex
    from biogeme.expressions import Variable, Numeric, Beta, bioDraws, RandomVariable, MonteCarlo, Integrate, PanelLikelihoodTrajectory
    from biogeme.expressions.logit_expressions import _bioLogLogit

    x = Variable('x')
    if fault == 'valid_var':
        return x, [{'kind': 'var', 'name': 'x'}]
    if fault == 'valid_num':
        return Numeric(1.5), [{'kind': 'leaf'}]
    if fault == 'unknown_column':
        return Variable('zzz'), [{'kind': 'var', 'name': 'zzz'}]
    if fault == 'draws':
        return bioDraws('dd', 'NORMAL'), [{'kind': 'draws', 'name': 'dd'}]
    if fault == 'rv':
        return RandomVariable('om'), [{'kind': 'rv', 'name': 'om'}]
    if fault == 'logit_keys':
        o = _bioLogLogit({1: x, 2: Numeric(0)}, {1: Numeric(1), 3: Numeric(1)}, Numeric(1))
        return o, [{'kind': 'leaf'}, {'kind': 'var', 'name': 'x'}, {'kind': 'leaf'}, {'kind': 'leaf'}, {'kind': 'leaf'},
                   {'kind': 'logLogit', 'c': [0, 1, 2, 3, 4], 'mismatch': True}]
    if fault == 'mc_nodraws':
        return MonteCarlo(x), [{'kind': 'var', 'name': 'x'}, {'kind': 'monteCarlo', 'c': [0]}]
    if fault == 'mc_ok':
        return MonteCarlo(bioDraws('dd', 'NORMAL') * x), [{'kind': 'draws', 'name': 'dd'}, {'kind': 'var', 'name': 'x'}, {'kind': 'op', 'c': [0, 1]}, {'kind': 'monteCarlo', 'c': [2]}]
    if fault == 'mc_nested':
        return (MonteCarlo(MonteCarlo(bioDraws('dd', 'NORMAL'))),
                [{'kind': 'draws', 'name': 'dd'}, {'kind': 'monteCarlo', 'c': [0]}, {'kind': 'monteCarlo', 'c': [1]}])
    if fault == 'int_norv':
        return Integrate(x, 'om'), [{'kind': 'var', 'name': 'x'}, {'kind': 'integrate', 'c': [0]}]
    if fault == 'int_ok':
        return Integrate(RandomVariable('om') * x, 'om'), [{'kind': 'rv', 'name': 'om'}, {'kind': 'var', 'name': 'x'}, {'kind': 'op', 'c': [0, 1]}, {'kind': 'integrate', 'c': [2]}]
    if fault == 'traj':
        return PanelLikelihoodTrajectory(x), [{'kind': 'var', 'name': 'x'}, {'kind': 'panelTraj', 'c': [0]}]
    raise ValueError(fault)


def plant(fault, chain):
    """wrap the hole element in the chain of (class name, slot) contexts, innermost first; returns (real object, abstract dag)"""
    from biogeme.expressions import Variable, Beta

    R = recipes()
    obj, nodes = element(fault)
    nodes = [dict(n) for n in nodes]
    root = len(nodes) - 1
    for cname, slot in chain:
        kind, n, build, types = R[cname]
        ch, ids = [], []
        for j in range(n):
            if j == slot:
                ch.append(obj)
                ids.append(root)
            elif types[j] == 'beta':
                ch.append(Beta(f'b{j}', 1.0, None, None, 0))
                nodes.append({'kind': 'leaf'})
                ids.append(len(nodes) - 1)
            elif types[j] == 'one':
                from biogeme.expressions import Numeric

                ch.append(Numeric(1))
                nodes.append({'kind': 'leaf'})
                ids.append(len(nodes) - 1)
            else:
                ch.append(Variable('x'))
                nodes.append({'kind': 'var', 'name': 'x'})
                ids.append(len(nodes) - 1)
        obj = build(ch)
        if kind == 'catalog':
            ids = [ids[0]]  # the model's catalog node has the selected member as only child
        node = {'kind': kind, 'c': ids}
        if kind == 'logLogit' and slot == 0:
            node['choiceInvalid'] = True  # none of the hole elements evaluates to an alternative id
        nodes.append(node)
        root = len(nodes) - 1
    return obj, nodes, root


def oracle_must_refuse(fault, chain, panel):
    """independent of the Lean model: from the property statement, must this specification be refused?
    returns (True/False/None, keyword); None = the oracle does not decide (the model does)"""
    kinds = [c for c, _ in chain]
    if any(c in ('_bioLogLogit', '_bioLogLogitFullChoiceSet') and sl == 0 for c, sl in chain):
        return True, 'alternative'  # choices inconsistent with the utilities
    if fault == 'unknown_column':
        return True, 'zzz'
    if fault == 'draws':
        return ('MonteCarlo' not in kinds), 'MonteCarlo'
    if fault == 'rv':
        return ('Integrate' not in kinds), 'Integrate'
    if fault == 'logit_keys':
        return True, 'alternatives'
    if fault == 'mc_nodraws':
        return True, 'MonteCarlo'
    if fault == 'mc_nested':
        return True, 'MonteCarlo'
    if fault == 'int_norv':
        return True, 'RandomVariable'
    if fault == 'traj' and not panel:
        return True, 'panel'
    return None, ''


KEYWORDS = {
    'unknownColumn': ['not found in the database'], 'drawsOutside': ['outside the MonteCarlo'], 'rvOutside': ['outside the Integrate'],
    'varOutsideTraj': ['not inside PanelLikelihoodTrajectory'], 'mcNoDraws': ['must contain a bioDraws'], 'mcNested': ['MonteCarlo statement in another'],
    'mcPanelNoTraj': ['PanelLikelihoodTrajectory'], 'intNoRv': ['must contain a RandomVariable'], 'trajNonPanel': ['only be used with panel data'],
    'logitKeys': ['Incompatible list of alternatives'], 'logitChoice': ['Chosen alternative', 'choice variable', 'chosen alternative'],
    'duplicateName': ['defined more than once'],
}


class ReachedEngine(Exception):
    pass


def submit(obj, panel):
    """both entry paths on the real code; the expression path's engine call is intercepted"""
    import pandas as pd
    import biogeme.biogeme as bio
    import biogeme.database as dbm
    import biogeme.expressions.base_expressions as be

    out = {}
    df = pd.DataFrame({'x': [1.5, 1.5, 1.5], 'ID': [1, 1, 2]})
    db = dbm.Database('t', df)
    if panel:
        db.panel('ID')
    # expression path
    orig = be.calculate_function_and_derivatives

    def stub(*a, **k):
        target = k.get('the_expression', a[0] if a else None)
        if target is obj:
            raise ReachedEngine()
        return orig(*a, **k)

    be.calculate_function_and_derivatives = stub
    try:
        try:
            obj.get_value_and_derivatives(database=db, gradient=False, hessian=False, bhhh=False, aggregation=False, prepare_ids=True, number_of_draws=3)
            out['expr'] = ['ok', '']
        except ReachedEngine:
            out['expr'] = ['ok', '']
        except Exception as e:  # noqa: BLE001
            out['expr'] = [core.exc_kind(e), str(e)[:600]]
    finally:
        be.calculate_function_and_derivatives = orig
    try:
        obj.set_id_manager(None)
    except Exception:  # noqa: BLE001
        pass
    # BIOGEME path (constructor only: audit, ids, draws, signature; no evaluation)
    with core.scratch('[MonteCarlo]\nnumber_of_draws = 3\n'):
        try:
            bio.BIOGEME(db, obj)
            out['bio'] = ['ok', '']
        except Exception as e:  # noqa: BLE001
            out['bio'] = [core.exc_kind(e), str(e)[:600]]
    return out


def plant_worker(payload):
    """fresh process: plant and submit a list of items; stops after the first non-library exception (the
    engine may be poisoned from then on)"""
    import warnings
    import logging

    warnings.simplefilter('ignore')
    logging.disable(logging.WARNING)
    out = []
    for fault, chain, panel in payload['items']:
        chain = [tuple(c) for c in chain]
        try:
            obj, nodes, root = plant(fault, chain)
        except Exception as e:  # noqa: BLE001
            out.append({'unbuildable': f'{type(e).__name__}: {e}'[:200]})
            _progress(payload, out[-1])
            continue
        obs = submit(obj, panel)
        out.append({'nodes': nodes, 'root': root, 'obs': obs})
        _progress(payload, out[-1])
        if any(obs[p][0] not in ('ok', 'BiogemeError') for p in ('bio', 'expr')):
            break
    return {'results': out}


def _progress(payload, r):
    """a worker records each finished item at once: if a later item kills the interpreter, the finished ones are kept"""
    path = payload.get('progress')
    if path:
        with open(path, 'a') as f:
            f.write(json.dumps(r, default=str) + '\n')


def _run_chunk(chunk, worker='plant_worker'):
    """one chunk through fresh workers, restarting after a foreign exception (a worker stops there: the engine may be
    poisoned) and after the death of the interpreter (the item that killed it gets a 'worker_error')"""
    results = []
    pos = 0
    while pos < len(chunk):
        fd, prog = tempfile.mkstemp(prefix='vc12_')
        os.close(fd)
        try:
            r = core.run_isolated('props.c12', worker, {'items': chunk[pos:], 'progress': prog}, timeout=1200)
            got = r.get('results') if isinstance(r, dict) else None
            died = got is None
            if died:
                got = []
                for line in Path(prog).read_text().splitlines():
                    try:
                        got.append(json.loads(line))
                    except ValueError:
                        break
        finally:
            try:
                os.unlink(prog)
            except OSError:
                pass
        results.extend(got)
        pos += len(got)
        if (died or not got) and pos < len(chunk):
            results.append({'worker_error': str(r)[:400]})
            pos += 1
    return results


def run_plantings(items, workers=12, worker='plant_worker', min_chunk=10):
    """all items through fresh worker processes, in parallel, order preserved"""
    from concurrent.futures import ThreadPoolExecutor

    if not items:
        return []
    size = max(min_chunk, (len(items) + workers - 1) // workers)
    chunks = [items[i : i + size] for i in range(0, len(items), size)]
    with ThreadPoolExecutor(max_workers=workers) as ex:
        parts = list(ex.map(lambda c: _run_chunk(c, worker), chunks))
    return [r for p in parts for r in p]


def judge_planting(ctx, res, item, r):
    fault, chain, panel = item
    case = {'fault': fault, 'chain': [list(c) for c in chain], 'panel': panel}
    if 'unbuildable' in r or 'worker_error' in r:
        res.tally('unbuildable')
        if 'worker_error' in r:
            res.notes.append(f'worker error on {case}: {r["worker_error"]}')
        return
    nodes, root, obs = r['nodes'], r['root'], r['obs']
    res.count(case, nontrivial=len(chain) >= 1)
    res.tally('fault:' + fault)
    res.tally(f'depth:{len(chain)}')
    must, kw = oracle_must_refuse(fault, chain, panel)
    for path in ('bio', 'expr'):
        kind, msg = obs[path]
        if must is True:
            if kind == 'ok':
                res.violate(f'faulty specification ({fault}) accepted on the {path} path', case, obs[path], 'BiogemeError', where=f'audit:{path}')
            elif kind != 'BiogemeError':
                res.violate(f'faulty specification ({fault}) refused with {kind} instead of the library error on the {path} path', case, obs[path], 'BiogemeError', where=f'audit:{path}')
        if must is not True and kind not in ('ok', 'BiogemeError'):
            res.violate(f'planting ({fault}): the {path} path raises {kind}, not the library error', case, obs[path], 'accepted or BiogemeError', where=f'audit:{path}')
        if fault in ('valid_var', 'valid_num') and not panel and kind != 'ok' and all(slot_type(c) == 'any' and c[0] not in ('MonteCarlo', 'Integrate', 'PanelLikelihoodTrajectory') for c in chain):
            res.violate(f'valid specification refused on the {path} path', case, obs[path], 'accepted', where=f'audit:{path}')
    # on panel data a data variable that is not inside the trajectory operator must be refused by BIOGEME(...)
    if panel and fault == 'valid_var' and not any(c[0] == 'PanelLikelihoodTrajectory' for c in chain):
        kind, msg = obs['bio']
        if kind == 'ok':
            res.violate('panel data: a variable outside PanelLikelihoodTrajectory is accepted on the bio path', case, obs['bio'], 'BiogemeError', where='audit:bio')
        elif kind != 'BiogemeError':
            res.violate(f'panel data: a variable outside PanelLikelihoodTrajectory is refused with {kind}', case, obs['bio'], 'BiogemeError', where='audit:bio')
    req = {'op': 'audit', 'dag': nodes, 'root': root, 'cols': ['x', 'ID'], 'panel': panel}

    def cb(ans, obs=obs, case=case):
        for path in ('bio', 'expr'):
            faults = ans.get(path, [])
            kind, msg = obs[path]
            if faults and kind == 'ok':
                res.diverge(f'model reports {faults}, library accepts ({path} path)', case, faults, obs[path], where=f'audit:{path}')
            elif not faults and kind != 'ok':
                res.diverge(f'model accepts, library refuses ({path} path)', case, faults, obs[path], where=f'audit:{path}')
            elif faults and kind == 'BiogemeError':
                # the message must name at least one of the faults the model reports (explanatory message)
                if not any(k in msg for f in faults for k in KEYWORDS.get(f.split(':')[0], [f])):
                    res.diverge(f'message names none of the faults {faults} ({path} path)', case, faults, msg[:200], where=f'audit:{path}')
            elif faults and kind != 'BiogemeError':
                res.diverge(f'refused with {kind}, not the library error ({path} path)', case, faults, obs[path], where=f'audit:{path}')

    ctx.batch.add(req, cb)


def slot_type(c):
    return recipes()[c[0]][3][c[1]]


def all_contexts():
    R = recipes()
    out = []
    for cname, (kind, n, build, types) in sorted(R.items()):
        if cname == 'LogLogit':
            continue  # base class unknown to the engine; users get _bioLogLogit from models.loglogit (its hooks are probed in the table)
        for i in range(n):
            if types[i] in ('any', 'one'):
                out.append((cname, i))
    return out



# ----------------------------------------------------------------------------- names stream: one name for two kinds of
# element / a column absent from the data whose name is borne by another element, on every entry path that assigns ids

NAME_COLS = ['x', 'ID', 'COST', 'tt']           # columns of the data of this stream
NAMES_PRESENT = ['COST', 'tt']                   # names that are columns (and used by no filler of a context)
NAMES_ABSENT = ['cost', 'p10', 'p2', 'Tt']       # names that are no column (case variants, p10 / p2 order)
ELEM_KINDS = ['beta', 'betaFixed', 'draws', 'rv', 'var']
NAME_ENTRIES = ['expr', 'gvc', 'addcol', 'defvar', 'remove', 'vfd', 'bio', 'bio_skip', 'bio_dict']
ENTRY_MODEL = {'expr': 'expr', 'gvc': 'expr', 'addcol': 'expr', 'defvar': 'expr', 'remove': 'expr', 'vfd': 'expr', 'bio': 'bio',
               'bio_skip': 'bio_skip', 'bio_dict': 'bio'}


class Dag:
    """abstract formula handed to the Lean model, built side by side with the real object"""

    def __init__(self):
        self.nodes = []

    def add(self, kind, c=None, name=None, **kw):
        n = {'kind': kind}
        if c is not None:
            n['c'] = list(c)
        if name is not None:
            n['name'] = name
        n.update(kw)
        self.nodes.append(n)
        return len(self.nodes) - 1


def mk_elementary(kind, name):
    from biogeme.expressions import Variable, Beta, bioDraws, RandomVariable

    if kind == 'beta':
        return Beta(name, 0.5, None, None, 0)
    if kind == 'betaFixed':
        return Beta(name, 0.5, None, None, 1)
    if kind == 'draws':
        return bioDraws(name, 'NORMAL')
    if kind == 'rv':
        return RandomVariable(name)
    if kind == 'var':
        return Variable(name)
    raise ValueError(kind)


def unit(dag, elems):
    """a self-contained sub-formula using the given elementary expressions: their product, inside one Integrate per
    integration variable and one MonteCarlo if it has draws (so that no placement rule is violated)"""
    from biogeme.expressions import MonteCarlo, Integrate

    obj, idx = None, None
    for kind, name in elems:
        o = mk_elementary(kind, name)
        i = dag.add(kind, name=name)
        if obj is None:
            obj, idx = o, i
        else:
            obj = obj * o
            idx = dag.add('op', [idx, i])
    done = []
    for kind, name in elems:
        if kind == 'rv' and name not in done:
            done.append(name)
            obj = Integrate(obj, name)
            idx = dag.add('integrate', [idx])
    if any(k == 'draws' for k, _ in elems):
        obj = MonteCarlo(obj)
        idx = dag.add('monteCarlo', [idx])
    return obj, idx


def wrap(dag, obj, idx, chain):
    """plant (obj, idx) in the chain of (class, slot) contexts, innermost first; fillers carry their names"""
    from biogeme.expressions import Variable, Beta, Numeric

    R = recipes()
    for cname, slot in chain:
        kind, n, build, types = R[cname]
        ch, ids = [], []
        for j in range(n):
            if j == slot:
                ch.append(obj)
                ids.append(idx)
            elif types[j] == 'beta':
                ch.append(Beta(f'b{j}', 1.0, None, None, 0))
                ids.append(dag.add('beta', name=f'b{j}'))
            elif types[j] == 'one':
                ch.append(Numeric(1))
                ids.append(dag.add('leaf'))
            else:
                ch.append(Variable('x'))
                ids.append(dag.add('var', name='x'))
        obj = build(ch)
        if kind == 'catalog':
            ids = [ids[0]]
        idx = dag.add(kind, ids)
    return obj, idx


def build_names_case(case, entry):
    """real formula(s) + abstract dag of a names case, for one entry path.  Returns (formulas, dag nodes, root):
    `formulas` is the single formula, or for entry 'bio_dict' the dict of two formulas (the side term is the log
    likelihood, the planted term a second formula: the two elements may sit in different formulas)"""
    from biogeme.expressions import Variable, Beta

    dag = Dag()
    hole = [tuple(e[:2]) for e in case['elems'] if e[2] == 'hole']
    side = [tuple(e[:2]) for e in case['elems'] if e[2] == 'side']
    obj, idx = unit(dag, hole)
    obj, idx = wrap(dag, obj, idx, [tuple(c) for c in case['chain']])
    if entry == 'bio_dict':
        if side:
            sobj, sidx = unit(dag, side)
        else:
            sobj = Beta('bll', 0.5, None, None, 0) * Variable('x')
            sidx = dag.add('op', [dag.add('beta', name='bll'), dag.add('var', name='x')])
        root = dag.add('op', [sidx, idx])  # the formulas of the dict are audited and numbered together
        return {'log_like': sobj, 'sim': obj}, dag.nodes, root
    if side:
        sobj, sidx = unit(dag, side)
        obj = sobj + obj
        idx = dag.add('op', [sidx, idx])
    return obj, dag.nodes, idx


def names_frame():
    import pandas as pd

    return pd.DataFrame({'x': [1.5, 1.5, 1.5], 'ID': [1, 1, 2], 'COST': [1.0, 4.0, 2.0], 'tt': [0.5, 0.25, 2.0]})


def names_submit(case, entry):
    """one entry path on a names case, everything built afresh; the engine call on the submitted formula is
    intercepted (a formula that gets that far has been accepted)"""
    import biogeme.biogeme as bio
    import biogeme.database as dbm
    import biogeme.expressions.base_expressions as be

    formulas, nodes, root = build_names_case(case, entry)
    db = dbm.Database('t', names_frame())
    targets = list(formulas.values()) if isinstance(formulas, dict) else [formulas]
    orig = be.calculate_function_and_derivatives

    def stub(*a, **k):
        target = k.get('the_expression', a[0] if a else None)
        if any(target is t for t in targets):
            raise ReachedEngine()
        return orig(*a, **k)

    be.calculate_function_and_derivatives = stub
    try:
        with core.scratch('[MonteCarlo]\nnumber_of_draws = 3\n'):
            try:
                if entry == 'expr':
                    formulas.get_value_and_derivatives(database=db, gradient=False, hessian=False, bhhh=False, aggregation=False, prepare_ids=True, number_of_draws=3)
                elif entry == 'gvc':
                    formulas.get_value_c(database=db, prepare_ids=True, number_of_draws=3)
                elif entry == 'addcol':
                    db.add_column(formulas, 'newcol')
                elif entry == 'defvar':
                    db.define_variable('newvar', formulas)
                elif entry == 'remove':
                    db.remove(formulas)
                elif entry == 'vfd':
                    db.values_from_database(formulas)
                elif entry == 'bio':
                    bio.BIOGEME(db, formulas)
                elif entry == 'bio_skip':
                    bio.BIOGEME(db, formulas, skip_audit=True)
                elif entry == 'bio_dict':
                    bio.BIOGEME(db, formulas)
                else:
                    raise ValueError(entry)
                obs = ['ok', '']
            except ReachedEngine:
                obs = ['ok', '']
            except Exception as e:  # noqa: BLE001
                obs = [core.exc_kind(e), f'{e}'[:600]]
    finally:
        be.calculate_function_and_derivatives = orig
    return {'nodes': nodes, 'root': root, 'obs': obs}


def names_worker(payload):
    import warnings
    import logging

    warnings.simplefilter('ignore')
    logging.disable(logging.CRITICAL)
    out = []
    for case in payload['items']:
        r = {}
        stop = False
        for entry in NAME_ENTRIES:
            try:
                r[entry] = names_submit(case, entry)
            except Exception as e:  # noqa: BLE001
                r[entry] = {'unbuildable': f'{type(e).__name__}: {e}'[:200]}
                continue
            if r[entry]['obs'][0].startswith('Other:'):
                stop = True  # possibly an engine exception: the process may be poisoned
                break
        out.append(r)
        _progress(payload, r)
        if stop:
            break
    return {'results': out}


def names_oracle(case):
    """from the property statement alone.  Returns (must_refuse, offending names, must_accept)"""
    elems = [tuple(e[:2]) for e in case['elems']]
    classes = {}
    for kind, name in elems:
        # (a parameter to be estimated and a fixed parameter are two kinds of element: the library numbers them apart)
        classes.setdefault(name, set()).add(kind)
    absent = sorted({n for k, n in elems if k == 'var' and n not in NAME_COLS})       # column absent from the data
    clash = sorted(n for n, cl in classes.items() if len(cl) >= 2)                     # one name for two kinds of element
    offending = sorted(set(absent) | set(clash))
    plain = all(slot_type(tuple(c)) == 'any' and c[0] not in ('MonteCarlo', 'Integrate', 'PanelLikelihoodTrajectory') for c in case['chain'])
    kinds_of = {}
    for kind, name in elems:
        kinds_of.setdefault(name, set()).add(kind)
    clean = (not offending and plain and all(len(v) == 1 for v in kinds_of.values())
             and all(k in ('beta', 'betaFixed', 'var') for k, _ in elems)
             and not any(k != 'var' and n in NAME_COLS for k, n in elems))
    return bool(offending), offending, clean, plain


def names_message_ok(faults, msg):
    """the message names one of the faults the model reports: its kind and, for a named fault, the name"""
    for f in faults:
        kind, _, name = f.partition(':')
        if any(k in msg for k in KEYWORDS.get(kind, [kind])) and (not name or name in msg):
            return True
    return False


def judge_names(ctx, res, case, r):
    base = {'stream': 'names', 'elems': case['elems'], 'chain': case['chain']}
    if 'worker_error' in r:
        res.notes.append(f'names stream: worker error on {base}: {r["worker_error"]}')
        res.tally('names:worker_error')
        return
    must, offending, clean, plain = names_oracle(case)
    res.tally('names:' + case.get('shape', '?'))
    for entry in NAME_ENTRIES:
        e = r.get(entry)
        if e is None:
            continue
        c = dict(base, entry=entry)
        if 'unbuildable' in e:
            res.tally('names:unbuildable')
            continue
        res.count(c, nontrivial=len(case['chain']) >= 1 or len(case['elems']) >= 2)
        kind, msg = e['obs']
        where = f'names:{entry}'
        if must:
            if kind == 'ok':
                res.violate(f'names {offending}: a column absent from the data / one name for two kinds of element is accepted ({entry})', c, e['obs'], 'BiogemeError', where=where)
            elif kind != 'BiogemeError':
                res.violate(f'names {offending}: refused with {kind} instead of the library error ({entry})', c, e['obs'], 'BiogemeError naming the element', where=where)
            elif plain and not any(n in msg for n in offending):
                # no other fault is present in a plain context: the explanatory message must name the element
                res.violate(f'names {offending}: the error message names none of them ({entry})', c, e['obs'], 'a message naming the element', where=where)
        if clean and kind != 'ok':
            res.violate(f'valid specification (distinct names, all columns present) refused ({entry})', c, e['obs'], 'accepted', where=where)
        elif not must and kind not in ('ok', 'BiogemeError') and (plain or entry != 'bio_skip'):
            # (audit switched off by the caller under a MonteCarlo / Integrate / trajectory context: a fault only the audit reports is not judged)
            # faulty or not: an exception that is not the library's own never is an answer of an entry point
            res.violate(f'names: the entry point {entry} raises {kind}, not the library error', c, e['obs'], 'accepted or BiogemeError', where=where)
        req = {'op': 'stages', 'dag': e['nodes'], 'root': e['root'], 'cols': NAME_COLS, 'panel': False}

        def cb(ans, obs=e['obs'], c=c, entry=entry, where=where):
            if 'error' in ans:
                res.diverge(f'model: {ans["error"]}', c, ans, obs, where=where)
                return
            faults = ans[ENTRY_MODEL[entry]]
            kind, msg = obs
            if entry == 'bio_skip' and not faults and ans['bio']:
                # the audit was switched off by the caller and the ids are in order: what becomes of a fault that
                # only the audit reports is not stated by the property
                res.tally('names:bio_skip with an audit-only fault (not judged)')
                return
            if faults and kind == 'ok':
                res.diverge(f'model reports {faults}, library accepts ({entry})', c, faults, obs, where=where)
            elif not faults and kind != 'ok':
                res.diverge(f'model accepts, library refuses ({entry})', c, faults, obs, where=where)
            elif faults and kind != 'BiogemeError':
                res.diverge(f'refused with {kind}, not the library error ({entry})', c, faults, obs, where=where)
            elif faults and not names_message_ok(faults, msg):
                res.diverge(f'message names none of the faults {faults} of the stage that raises ({entry})', c, faults, msg[:200], where=where)

        ctx.batch.add(req, cb)


NAMES_CORPUS = [
    # the classical slip: a parameter and a variable share a name, the column is spelled differently
    {'shape': 'corpus', 'elems': [['beta', 'cost', 'hole'], ['var', 'cost', 'hole']], 'chain': []},
    {'shape': 'corpus', 'elems': [['beta', 'cost', 'side'], ['var', 'cost', 'hole']], 'chain': [['exp', 0], ['Elem', 2]]},
    {'shape': 'corpus', 'elems': [['betaFixed', 'p2', 'hole'], ['var', 'p2', 'hole']], 'chain': [['_bioLogLogit', 1]]},
    {'shape': 'corpus', 'elems': [['draws', 'Tt', 'hole'], ['var', 'Tt', 'hole']], 'chain': []},
    {'shape': 'corpus', 'elems': [['rv', 'p10', 'hole'], ['var', 'p10', 'side']], 'chain': [['Greater', 1]]},
    {'shape': 'corpus', 'elems': [['var', 'cost', 'hole']], 'chain': [['bioLinearUtility', 3]]},
    # one name for two kinds of element
    {'shape': 'corpus', 'elems': [['beta', 'tt', 'hole'], ['var', 'tt', 'hole']], 'chain': []},
    {'shape': 'corpus', 'elems': [['beta', 'p2', 'side'], ['draws', 'p2', 'hole']], 'chain': [['Times', 0]]},
    {'shape': 'corpus', 'elems': [['rv', 'p2', 'hole'], ['draws', 'p2', 'hole']], 'chain': []},
    {'shape': 'corpus', 'elems': [['beta', 'p10', 'hole'], ['betaFixed', 'p10', 'side']], 'chain': []},
    {'shape': 'corpus', 'elems': [['beta', 'COST', 'hole']], 'chain': []},
    # valid
    {'shape': 'corpus', 'elems': [['beta', 'cost', 'hole'], ['var', 'COST', 'hole'], ['betaFixed', 'p2', 'side']], 'chain': [['Plus', 1]]},
    {'shape': 'corpus', 'elems': [['beta', 'p2', 'hole'], ['beta', 'p2', 'side'], ['draws', 'p10', 'hole'], ['rv', 'Tt', 'side']], 'chain': []},
]


def gen_names_case(rng, ctxs_any):
    shape = rng.choice(['collide', 'collide', 'absent_collide', 'absent_collide', 'absent_alone', 'column_param', 'valid', 'valid', 'collide3', 'same_kind'])
    nonvar = ['beta', 'betaFixed', 'draws', 'rv']
    elems = []
    if shape == 'collide':
        if rng.random() < 0.4:
            n = rng.choice(NAMES_PRESENT)
            elems = [[rng.choice(nonvar), n], ['var', n]]
        else:
            n = rng.choice(NAMES_ABSENT)
            k1, k2 = rng.sample(nonvar, 2)
            elems = [[k1, n], [k2, n]]
    elif shape == 'absent_collide':
        n = rng.choice(NAMES_ABSENT)
        elems = [[rng.choice(nonvar), n], ['var', n]]
        if rng.random() < 0.3:
            elems.append(['var', rng.choice(NAMES_PRESENT)])
    elif shape == 'absent_alone':
        elems = [['var', rng.choice(NAMES_ABSENT)]]
        if rng.random() < 0.5:
            elems.append([rng.choice(nonvar), rng.choice([m for m in NAMES_ABSENT if m != elems[0][1]])])
    elif shape == 'column_param':
        elems = [[rng.choice(nonvar), rng.choice(NAMES_PRESENT)]]
        if rng.random() < 0.5:
            elems.append(['var', rng.choice([m for m in NAMES_PRESENT if m != elems[0][1]])])
    elif shape == 'valid':
        names = rng.sample(NAMES_ABSENT, rng.randint(1, 3))
        elems = [[rng.choice(nonvar if rng.random() < 0.4 else ['beta', 'betaFixed']), m] for m in names]
        for m in rng.sample(NAMES_PRESENT, rng.randint(0, 2)):
            elems.append(['var', m])
    elif shape == 'collide3':
        n, m = rng.sample(NAMES_ABSENT, 2)
        k1, k2 = rng.sample(nonvar, 2)
        elems = [[k1, n], [rng.choice(nonvar), m], [k2, n]]
    else:  # same_kind: the same element written twice is one element
        n = rng.choice(NAMES_ABSENT)
        k = rng.choice(nonvar)
        elems = [[k, n], [k, n]]
    rng.shuffle(elems)
    places = ['hole'] + [rng.choice(['hole', 'side']) for _ in elems[1:]]
    elems = [e + [p] for e, p in zip(elems, places)]
    chain = [list(rng.choice(ctxs_any)) for _ in range(rng.choice([0, 1, 1, 2, 2, 3]))]
    if any(e[0] == 'rv' for e in elems):
        # the Integrate context integrates over its own variable 'om': an integrand with other integration variables
        # only is a fault the property does not list (the integration variable of the operator is not in the formula)
        chain = [c for c in chain if c[0] != 'Integrate']
    return {'shape': shape, 'elems': elems, 'chain': chain}


def names_check(ctx, res, rng, n_random):
    ctxs_any = [c for c in all_contexts() if slot_type(c) == 'any']
    cases = [dict(c) for c in NAMES_CORPUS]
    # the absent column that bears the name of a parameter, in EVERY (class, slot) context
    for i, c in enumerate(ctxs_any):
        k = ELEM_KINDS[i % 4]
        if k == 'rv' and c[0] == 'Integrate':
            k = 'beta'
        cases.append({'shape': 'every_slot', 'elems': [[k, NAMES_ABSENT[i % len(NAMES_ABSENT)], 'side' if i % 3 == 0 else 'hole'],
                                                        ['var', NAMES_ABSENT[i % len(NAMES_ABSENT)], 'hole']], 'chain': [list(c)]})
    for _ in range(n_random):
        cases.append(gen_names_case(rng, ctxs_any))
    results = run_plantings(cases, worker='names_worker', min_chunk=6)
    for c, r in zip(cases, results):
        judge_names(ctx, res, c, r)


# ----------------------------------------------------------------------------- data life cycle: the data held by a Database
# changes after its construction (operations of the library that rebind or edit `database.data`, or the user's own
# preparation steps on the frame); non-numeric, NaN or empty data must be refused when it is supplied again

LIFE_PRE = ['bio', 'bio_skip', 'panel', 'assign_copy', 'assign_derived', 'add_column', 'remove_some', 'scale', 'reindex']
LIFE_FAULTS = ['nan_cell_used', 'nan_cell_unused', 'nan_derived', 'nan_new_column', 'str_column', 'object_cell',
               'empty_remove', 'empty_slice', 'empty_drop']
LIFE_POST = ['none', 'assign_copy']
LIFE_ENTRIES_DATA = ['bio', 'bio_dict', 'db_new']            # points where the data is supplied (and audited) again
LIFE_ENTRIES_EXPR = ['gvc', 'vfd', 'addcol']                  # formula-level entry points (empty data / valid data only)
EMPTY_WHERE = 'datalife: empty data reaches the engine'


def life_frame():
    import pandas as pd

    return pd.DataFrame({'id': [1, 1, 2, 2, 3, 3], 'x': [1.0, 2.0, 0.0, 4.0, 5.0, 6.0], 'y': [2.0, 1.0, 0.0, 3.0, 1.0, 2.0],
                         'z': [0.5, 0.25, 0.125, 0.75, 1.5, 1.0]})


def life_track(case):
    """abstract frame after the operations of the case, by construction: {'cols': {name: [numeric, hasNaN]}, 'rows': n}"""
    cols = {'id': [True, False], 'x': [True, False], 'y': [True, False], 'z': [True, False]}
    rows = 6
    for op in case['pre']:
        if op == 'assign_derived':
            cols['w'] = [True, False]
        elif op == 'add_column':
            cols['x2'] = [True, False]
        elif op == 'remove_some':
            rows -= 1
    f = case['fault']
    if f in ('nan_cell_used',):
        cols['x'][1] = True
    elif f == 'nan_cell_unused':
        cols['y'][1] = True
    elif f == 'nan_derived':
        cols['ratio'] = [True, True]
    elif f == 'nan_new_column':
        cols['n'] = [True, True]
    elif f == 'str_column':
        cols['s'] = [False, False]
    elif f == 'object_cell':
        cols['y'] = [False, False]
    elif f and f.startswith('empty'):
        rows = 0
    return {'cols': cols, 'rows': rows}


def life_formula(panel, alt=False):
    from biogeme.expressions import Beta, Variable, PanelLikelihoodTrajectory, exp, log

    core_f = -((Beta('b', 0.5, None, None, 0) * Variable('x') - Variable('z')) ** 2)
    if alt:
        core_f = core_f - Beta('c', 0.25, None, None, 0) * Variable('z')
    return log(PanelLikelihoodTrajectory(exp(core_f))) if panel else core_f


def life_apply(db, op, panel):
    import numpy as np
    import biogeme.biogeme as bio
    from biogeme.expressions import Variable

    d = db.data
    if op == 'bio':
        bio.BIOGEME(db, life_formula(panel))
    elif op == 'bio_skip':
        bio.BIOGEME(db, life_formula(panel), skip_audit=True)
    elif op == 'panel':
        db.panel('id')
    elif op == 'assign_copy':
        db.data = d.copy()
    elif op == 'assign_derived':
        db.data = d.assign(w=d['x'] + d['y'])
    elif op == 'add_column':
        db.add_column(Variable('x') * 2, 'x2')
    elif op == 'remove_some':
        db.remove(Variable('x') > 5.5)
    elif op == 'scale':
        db.scale_column('z', 0.5)
    elif op == 'reindex':
        db.data = d.reset_index(drop=True)
    elif op == 'nan_cell_used':
        db.data.loc[db.data.index[3], 'x'] = np.nan
    elif op == 'nan_cell_unused':
        db.data.loc[db.data.index[0], 'y'] = np.nan
    elif op == 'nan_derived':
        db.data = d.assign(ratio=d['x'] / d['y'])      # 0/0 in the third row
    elif op == 'nan_new_column':
        db.data['n'] = [np.nan] * len(d)
    elif op == 'str_column':
        db.data['s'] = ['a'] * len(d)
    elif op == 'object_cell':
        col = d['y'].astype(object)
        col.iloc[1] = 'n/a'
        db.data['y'] = col
    elif op == 'empty_remove':
        db.remove(Variable('x') > -1)
    elif op == 'empty_slice':
        db.data = d.iloc[0:0]
    elif op == 'empty_drop':
        db.data.drop(db.data.index, inplace=True)
    elif op == 'none':
        pass
    else:
        raise ValueError(op)


def life_inspect(df):
    """what the frame holds, read with pandas/numpy only"""
    return {'cols': {str(c): [df[c].dtype.kind in 'iuf', bool(df[c].isna().to_numpy().any())] for c in df.columns}, 'rows': int(len(df))}


def life_worker(payload):
    import warnings
    import logging

    warnings.simplefilter('ignore')
    logging.disable(logging.CRITICAL)
    import biogeme.biogeme as bio
    import biogeme.database as dbm
    from biogeme.expressions import Beta, Variable, Numeric

    out = []
    for case in payload['items']:
        r = {}
        with core.scratch('[MonteCarlo]\nnumber_of_draws = 3\n'):
            try:
                db = dbm.Database('life', life_frame())
                for op in case['pre']:
                    life_apply(db, op, db.is_panel())
            except Exception as e:  # noqa: BLE001
                out.append({'setup_failed': f'{type(e).__name__}: {e}'[:300]})
                _progress(payload, out[-1])
                continue
            try:
                if case['fault']:
                    life_apply(db, case['fault'], db.is_panel())
                life_apply(db, case['post'], db.is_panel())
            except Exception as e:  # noqa: BLE001
                out.append({'injection_failed': f'{type(e).__name__}: {e}'[:300]})
                _progress(payload, out[-1])
                continue
            panel = db.is_panel()
            r['frame'] = life_inspect(db.data)
            entry = case['entry']
            try:
                if entry == 'bio':
                    B = bio.BIOGEME(db, life_formula(panel, alt=True))
                    r['obs'] = ['ok', '']
                elif entry == 'bio_dict':
                    B = bio.BIOGEME(db, {'log_like': life_formula(panel, alt=True), 'weight': Numeric(1)})
                    r['obs'] = ['ok', '']
                elif entry == 'db_new':
                    dbm.Database('again', db.data)
                    r['obs'] = ['ok', '']
                elif entry == 'gvc':
                    v = life_formula(panel).get_value_c(database=db, prepare_ids=True)
                    r['obs'] = ['ok', str([float(t) for t in v])[:200]]
                elif entry == 'vfd':
                    v = db.values_from_database(life_formula(panel))
                    r['obs'] = ['ok', str([float(t) for t in v])[:200]]
                elif entry == 'addcol':
                    v = db.add_column(life_formula(panel), 'added')
                    r['obs'] = ['ok', str([float(t) for t in v])[:200]]
                else:
                    raise ValueError(entry)
            except Exception as e:  # noqa: BLE001
                r['obs'] = [core.exc_kind(e), f'{e}'[:400]]
        out.append(r)
        _progress(payload, r)
        if r['obs'][0] not in ('ok', 'BiogemeError'):
            break  # possibly an engine exception: the process may be poisoned
    return {'results': out}


def life_message_ok(faults, msg):
    low = msg.lower()
    for f in faults:
        kind, _, name = f.partition(':')
        if kind == 'nan' and 'nan' in low:
            return True
        if kind == 'nonNumeric' and name in msg:
            return True
        if kind == 'empty' and ('no entry' in low or 'empty' in low or 'no data' in low or 'no observation' in low):
            return True
    return False


def judge_life(ctx, res, case, r):
    c = {'stream': 'datalife', 'pre': case['pre'], 'fault': case['fault'], 'post': case['post'], 'entry': case['entry']}
    fault = case['fault'] or ''
    # (the entry points on which the listed finding F-C12-empty shows have their own call-site name)
    where = EMPTY_WHERE if fault.startswith('empty') and case['entry'] in ('bio', 'bio_dict', 'gvc') else f'datalife:{case["entry"]}'
    if 'worker_error' in r:
        if not any(sig in r['worker_error'] for sig in ("'rc=-6'", "'rc=-11'")):
            # not a crash of the interpreter (timeout, killed from outside): infrastructure, no verdict
            res.notes.append(f'data life cycle: worker error on {c}: {r["worker_error"][:200]}')
            res.tally('datalife:worker_error')
            return
        # the interpreter died (SIGABRT / SIGSEGV): nothing was refused with the library's error type
        res.count(c, nontrivial=True)
        if fault:
            res.violate(f'data life cycle: {fault} data: the interpreter is aborted at entry {case["entry"]} instead of a library error', c, r['worker_error'][:300],
                        'BiogemeError', where=where)
        else:
            res.violate(f'data life cycle: valid data: the interpreter is aborted at entry {case["entry"]}', c, r['worker_error'][:300], 'accepted', where=where)
        return
    if 'setup_failed' in r or 'injection_failed' in r:
        res.tally('datalife:setup_or_injection_failed')
        if 'setup_failed' in r:
            res.notes.append(f'data life cycle: a valid operation sequence failed: {c}: {r["setup_failed"]}')
        return
    tracked = life_track(case)
    if tracked != r['frame']:
        res.notes.append(f'data life cycle: tracked frame {tracked} differs from the inspected frame {r["frame"]} for {c}: case skipped')
        res.tally('datalife:untracked')
        return
    res.count(c, nontrivial=True)
    res.tally('datalife:' + (fault or 'valid'))
    kind, msg = r['obs']
    faulty = tracked['rows'] == 0 or any((not nm) or nan for nm, nan in tracked['cols'].values())
    judged = case['entry'] in LIFE_ENTRIES_DATA or tracked['rows'] == 0 or not faulty
    if judged and faulty:
        if kind == 'ok':
            res.violate(f'data life cycle: {fault} data is accepted at entry {case["entry"]}', c, r['obs'], 'BiogemeError', where=where)
        elif kind != 'BiogemeError':
            res.violate(f'data life cycle: {fault} data is refused with {kind} instead of the library error at entry {case["entry"]}', c, r['obs'], 'BiogemeError', where=where)
    if not faulty and kind != 'ok':
        res.violate(f'data life cycle: valid data is refused at entry {case["entry"]}', c, r['obs'], 'accepted', where=where)
    if case['entry'] in LIFE_ENTRIES_DATA:
        req = {'op': 'dataaudit', 'cols': [{'name': n, 'numeric': v[0], 'hasNaN': v[1]} for n, v in tracked['cols'].items()], 'rows': tracked['rows']}

        def cb(ans, obs=r['obs'], c=c, entry=case['entry'], where=where):
            if 'error' in ans:
                res.diverge(f'model: {ans["error"]}', c, ans, obs, where=where)
                return
            faults = ans['new' if entry == 'db_new' else 'bio']
            kind, msg = obs
            if faults and kind == 'ok':
                res.diverge(f'data audit: model reports {faults}, library accepts ({entry})', c, faults, obs, where=where)
            elif not faults and kind != 'ok':
                res.diverge(f'data audit: model accepts, library refuses ({entry})', c, faults, obs, where=where)
            elif faults and kind != 'BiogemeError':
                res.diverge(f'data audit: refused with {kind}, not the library error ({entry})', c, faults, obs, where=where)
            elif faults and not life_message_ok(faults, msg):
                res.diverge(f'data audit: message names none of {faults} ({entry})', c, faults, msg[:200], where=where)

        ctx.batch.add(req, cb)


def life_entries(fault):
    if not fault or fault.startswith('empty'):
        return LIFE_ENTRIES_DATA + LIFE_ENTRIES_EXPR
    return LIFE_ENTRIES_DATA


def life_cases(ctx, rng):
    cases = []
    # every fault after every single preparation step (and after none), on the points where data is supplied again
    for fault in LIFE_FAULTS + [None]:
        for pre in [[]] + [[p] for p in LIFE_PRE]:
            ents = life_entries(fault)
            if ctx.quick:
                if fault and fault.startswith('empty'):
                    # (on a tree where empty data still kills the interpreter every such case costs a process)
                    ents = [rng.choice(ents)] if (not pre or rng.random() < 0.35) else []
                else:
                    ents = ['bio'] + [rng.choice(ents[1:])]
            for entry in ents:
                cases.append({'pre': pre, 'fault': fault, 'post': rng.choice(LIFE_POST), 'entry': entry})
    # longer sequences
    for _ in range(ctx.n(40, 400)):
        pre = [p for p in rng.sample(LIFE_PRE, rng.randint(2, 4))]
        fault = rng.choice(LIFE_FAULTS + [None, None])
        cases.append({'pre': pre, 'fault': fault, 'post': rng.choice(LIFE_POST), 'entry': rng.choice(life_entries(fault))})
    for c in cases:
        if 'panel' in c['pre'] and c['entry'] == 'addcol':
            # on panel data the trajectory formula yields one value per individual, add_column stores one per row
            c['entry'] = 'vfd'
    return cases


def life_check(ctx, res, rng):
    cases = life_cases(ctx, rng)
    results = run_plantings(cases, worker='life_worker', min_chunk=6)
    for c, r in zip(cases, results):
        judge_life(ctx, res, c, r)


# ----------------------------------------------------------------------------- round 3: formulas from a small AST (real
# object and abstract dag side by side; the abstract dag is rebuilt for every selection of the catalog)

SESSION_COLS = ['ID', 'x', 'y', 'z', 'choice']


def ast_logit(builder, alts, av, av_order=1):
    return ['logit', builder, list(alts), av, av_order]


def logit_av_keys(alts, av, av_order=1):
    if av == 'mismatch':
        return list(alts[:-1]) + [alts[-1] + 5]
    return list(alts)[::av_order]


def ast_real(a):
    """the real expression of an AST"""
    import biogeme.expressions as ex
    from biogeme.expressions import Beta, Variable, Numeric, bioDraws, MonteCarlo, PanelLikelihoodTrajectory
    from biogeme.catalog import Catalog
    import biogeme.models as models

    k = a[0]
    if k == 'beta':
        return Beta(a[1], 0.5, None, None, 0)
    if k == 'var':
        return Variable(a[1])
    if k == 'draws':
        return bioDraws(a[1], 'NORMAL')
    if k == 'num':
        return Numeric(a[1])
    if k == 'plus':
        return ast_real(a[1]) + ast_real(a[2])
    if k == 'times':
        return ast_real(a[1]) * ast_real(a[2])
    if k == 'exp':
        return ex.exp(ast_real(a[1]))
    if k == 'log':
        return ex.log(ast_real(a[1]))
    if k == 'mc':
        return MonteCarlo(ast_real(a[1]))
    if k == 'traj':
        return PanelLikelihoodTrajectory(ast_real(a[1]))
    if k == 'catalog':
        return Catalog.from_dict(a[1], {f'm{i}': ast_real(m) for i, m in enumerate(a[2])})
    if k == 'ctx':
        kind, n, build, types = recipes()[a[1]]
        ch = []
        for j in range(n):
            if j == a[2]:
                ch.append(ast_real(a[3]))
            elif types[j] == 'beta':
                ch.append(Beta(f'b{j}', 1.0, None, None, 0))
            elif types[j] == 'one':
                ch.append(Numeric(1))
            else:
                ch.append(Variable('x'))
        return build(ch)
    if k == 'logit':
        _, builder, alts, av, av_order = a
        V = {i: Beta(f'u{i}', 0.25, None, None, 0) * Variable('x') for i in alts}
        keys = logit_av_keys(alts, av, av_order)
        if av == 'none':
            avd = None
        elif av == 'cols':
            avd = {i: Variable(f'av_{i}') for i in keys}
        else:
            avd = {i: 1 for i in keys}
        choice = Variable('choice')
        if builder == 'loglogit':
            return models.loglogit(V, avd, choice)
        if builder == 'logit':
            return models.logit(V, avd, choice)
        if builder == 'lognested':
            from biogeme.nests import OneNestForNestedLogit, NestsForNestedLogit

            nests = NestsForNestedLogit(choice_set=list(alts), tuple_of_nests=(
                OneNestForNestedLogit(nest_param=Beta('mu', 1.5, 1.0, None, 0), list_of_alternatives=list(alts[:2]), name='n0'),))
            return models.lognested(V, avd, nests, choice)
        raise ValueError(builder)
    raise ValueError(k)


def ast_abstract(a, dag, sel):
    """index of the node of the AST in the abstract dag (catalogs: the member selected is the only child)"""
    k = a[0]
    if k in ('beta', 'var', 'draws'):
        return dag.add(k, name=a[1])
    if k == 'num':
        return dag.add('leaf')
    if k in ('plus', 'times'):
        return dag.add('op', [ast_abstract(a[1], dag, sel), ast_abstract(a[2], dag, sel)])
    if k in ('exp', 'log'):
        return dag.add('op', [ast_abstract(a[1], dag, sel)])
    if k == 'mc':
        return dag.add('monteCarlo', [ast_abstract(a[1], dag, sel)])
    if k == 'traj':
        return dag.add('panelTraj', [ast_abstract(a[1], dag, sel)])
    if k == 'catalog':
        return dag.add('catalog', [ast_abstract(a[2][sel], dag, sel)])
    if k == 'ctx':
        kind, n, build, types = recipes()[a[1]]
        ids = []
        for j in range(n):
            if j == a[2]:
                ids.append(ast_abstract(a[3], dag, sel))
            elif types[j] == 'beta':
                ids.append(dag.add('beta', name=f'b{j}'))
            elif types[j] == 'one':
                ids.append(dag.add('leaf'))
            else:
                ids.append(dag.add('var', name='x'))
        if kind == 'catalog':
            ids = [ids[0]]
        return dag.add(kind, ids)
    if k == 'logit':
        _, builder, alts, av, av_order = a
        ch = [dag.add('var', name='choice')]
        for pos, i in enumerate(alts):
            u = dag.add('op', [dag.add('beta', name=f'u{i}'), dag.add('var', name='x')])
            if builder == 'lognested' and pos < 2:
                u = dag.add('op', [u, dag.add('beta', name='mu')])
            ch.append(u)
        for i in logit_av_keys(alts, av, av_order):
            ch.append(dag.add('var', name=f'av_{i}') if av == 'cols' else dag.add('leaf'))
        top = dag.add('logLogit', ch)
        return dag.add('op', [top]) if builder == 'logit' else top
    raise ValueError(k)


def ast_catalog_size(a):
    if not isinstance(a, list):
        return None
    if a[0] == 'catalog':
        return len(a[2])
    for c in a[1:]:
        r = ast_catalog_size(c)
        if r:
            return r
    return None


def ast_find_logit(a):
    if not isinstance(a, list):
        return None
    if a[0] == 'logit':
        return a
    for c in a[1:]:
        r = ast_find_logit(c)
        if r:
            return r
    return None


def ast_configs(a):
    out = []
    for sel in range(ast_catalog_size(a) or 1):
        d = Dag()
        root = ast_abstract(a, d, sel)
        out.append({'dag': d.nodes, 'root': root})
    return out


def session_frame(n, alts, choices, unavail=()):
    import pandas as pd

    cols = {'ID': [i // 2 + 1 for i in range(n)], 'x': [0.5 * (i + 1) for i in range(n)], 'y': [1.0 + i for i in range(n)],
            'z': [0.25] * n, 'choice': list(choices)}
    for a in alts:
        cols[f'av_{a}'] = [0 if (r in unavail and choices[r] == a) else 1 for r in range(n)]
    return pd.DataFrame(cols)


def valid_choices(n, alts, shift=0):
    return [alts[(i + shift) % len(alts)] for i in range(n)]


STALE_WHERE = 'session: ids left behind by a refused evaluation'


def ast_variables(t):
    """names of the data variables of a (selected) AST, fillers of planted contexts included"""
    if not isinstance(t, list):
        return set()
    if t[0] == 'var':
        return {t[1]}
    if t[0] == 'logit':
        return {'x', 'choice'} | ({f'av_{i}' for i in logit_av_keys(t[2], t[3])} if t[3] == 'cols' else set())
    if t[0] == 'ctx':
        kind, n, build, types = recipes()[t[1]]
        return ast_variables(t[3]) | ({'x'} if any(ty not in ('beta', 'one') for j, ty in enumerate(types) if j != t[2]) else set())
    out = set()
    for c in t[1:]:
        out |= ast_variables(c)
    return out


def stale_ids_pattern(case, k):
    """shape of the history of the listed finding F-C12-stale-ids, from the operations alone: evaluation #k is an
    evaluation with prepare_ids=True of a specification that is valid now, while the formula still holds the id manager
    of an earlier evaluation that was refused (ids assigned for data in which a variable of the formula was no column)"""
    st = SessionState(case)
    mgr = None          # the columns known to the id manager the formula holds
    idx = 0
    for op in case['ops']:
        if op['o'] != 'eval':
            st.edit(op)
            continue
        e = op['entry']
        vs = ast_variables(st.selected())
        hit = False
        if e in ('gvc', 'gvd', 'vfd'):
            keep, new = mgr, set(st.cols)
            if any(v not in new for v in vs) or st.must_refuse(e):
                mgr = new           # refused: the manager prepared for this evaluation stays on the formula
            else:
                hit = keep is not None and any(v not in keep for v in vs)
                mgr = keep          # accepted: the previous manager is put back
        elif e == 'bio':
            if not st.must_refuse('bio'):
                mgr = set(st.cols)
        elif e in ('fn', 'objf') and mgr is None:
            mgr = set(st.cols)
        if idx == k:
            return hit
        idx += 1
    return False


class SessionRun:
    """one formula object and one Database object; evaluations through the public entry points.  The engine call on
    the formula is intercepted when `stub` is set (a formula that gets that far has been accepted)"""

    def __init__(self, ast, frame):
        import biogeme.database as dbm

        self.ast = ast
        self.obj = ast_real(ast)
        self.db = dbm.Database('session', frame)
        self.fn = None
        self.objf = None
        self.n_objf = 0

    def evaluate(self, entry, stub):
        import biogeme.biogeme as bio
        import biogeme.expressions.base_expressions as be

        obj, db = self.obj, self.db
        orig = be.calculate_function_and_derivatives

        def patched(*a, **k):
            target = k.get('the_expression', a[0] if a else None)
            if target is obj:
                raise ReachedEngine()
            return orig(*a, **k)

        if stub:
            be.calculate_function_and_derivatives = patched
        try:
            try:
                if entry == 'gvc':
                    obj.get_value_c(database=db, prepare_ids=True, number_of_draws=3)
                elif entry == 'gvd':
                    obj.get_value_and_derivatives(database=db, gradient=False, hessian=False, bhhh=False, aggregation=True, prepare_ids=True, number_of_draws=3)
                elif entry == 'vfd':
                    db.values_from_database(obj)
                elif entry == 'fn':
                    if self.fn is None:
                        self.fn = obj.create_function(database=db, number_of_draws=3, gradient=False, hessian=False, bhhh=False)
                    self.fn(np.array(list(obj.id_manager.free_betas_values), dtype=float))
                elif entry == 'objf':
                    # the objective function handed to the optimisation algorithms; it keeps the values it has computed per
                    # point (package biogeme_optimization), so every call is made at a new point
                    if self.objf is None:
                        self.objf = obj.create_objective_function(database=db, number_of_draws=3, gradient=True, hessian=False, bhhh=False)
                    self.n_objf += 1
                    self.objf.set_variables(np.array([0.5 + 0.01 * self.n_objf] * len(obj.id_manager.free_betas_values), dtype=float))
                    self.objf.f()
                elif entry == 'bio':
                    bio.BIOGEME(db, obj)
                else:
                    raise ValueError(entry)
                return ['ok', '']
            except ReachedEngine:
                return ['ok', '']
            except Exception as e:  # noqa: BLE001
                return [core.exc_kind(e), f'{e}'[:500]]
        finally:
            be.calculate_function_and_derivatives = orig

    def edit(self, op):
        db = self.db
        o = op['o']
        if o == 'setChoice':
            db.data.loc[db.data.index[op['row']], 'choice'] = op['v']
        elif o == 'scaleChoice':
            db.scale_column('choice', op['k'])
        elif o == 'declarePanel':
            db.panel('ID')
        elif o == 'select':
            self.obj.select_expression('spec', op['i'])
        elif o == 'dropColumn':
            db.data.drop(columns=[op['name']], inplace=True, errors='ignore')
        elif o == 'addColumn':
            db.data[op['name']] = [1.0] * len(db.data)
        else:
            raise ValueError(o)


class SessionState:
    """the state of a session tracked from the operations alone (for the oracle written from the property)"""

    def __init__(self, case):
        self.ast = case['ast']
        self.cols = list(SESSION_COLS) + [f'av_{a}' for a in case.get('alts', [])]
        self.panel = False
        self.sel = 0
        self.choices = list(case['choices'])
        self.unavail = bool(case.get('unavail'))

    def edit(self, op):
        o = op['o']
        if o == 'setChoice':
            self.choices[op['row']] = op['v']
        elif o == 'scaleChoice':
            self.choices = [c * op['k'] for c in self.choices]
        elif o == 'declarePanel':
            self.panel = True
        elif o == 'select':
            if op['i'] < (ast_catalog_size(self.ast) or 1):
                self.sel = op['i']
        elif o == 'dropColumn':
            self.cols = [c for c in self.cols if c != op['name']]
        elif o == 'addColumn':
            if op['name'] not in self.cols:
                self.cols.append(op['name'])

    def selected(self, a=None):
        """the AST with every catalog replaced by its selected member"""
        a = self.ast if a is None else a
        if not isinstance(a, list):
            return a
        if a[0] == 'catalog':
            return self.selected(a[2][self.sel])
        return [a[0]] + [self.selected(c) for c in a[1:]]

    def must_refuse(self, entry):
        """from the property statement: True (must be refused), False (must be accepted), None (not decided here)"""
        a = self.selected()

        def walk(t, inside_mc=False, inside_traj=False):
            # -> (faulty, variables outside the trajectory operator)
            if not isinstance(t, list):
                return False, False
            k = t[0]
            if k == 'var':
                return t[1] not in self.cols, not inside_traj
            if k == 'draws':
                return not inside_mc, False
            if k == 'logit':
                _, builder, alts, av, _o = t
                bad = any(c not in alts for c in self.choices) or av == 'mismatch'
                needed = ['x', 'choice'] + ([f'av_{i}' for i in logit_av_keys(alts, av)] if av == 'cols' else [])
                return bad or any(c not in self.cols for c in needed), not inside_traj
            if k == 'mc':
                has_draws = 'draws' in json.dumps(t[1])
                has_traj = '"traj"' in json.dumps(t[1])
                f, v = walk(t[1], True, inside_traj)
                return f or not has_draws or inside_mc or (self.panel and not has_traj), v
            if k == 'traj':
                f, v = walk(t[1], inside_mc, True)
                return f or not self.panel, v
            if k == 'ctx':
                f, v = walk(t[3], inside_mc, inside_traj)
                kind, n, build, types = recipes()[t[1]]
                filler_var = any(ty not in ('beta', 'one') for j, ty in enumerate(types) if j != t[2])    # fillers are Variable('x')
                return f or (filler_var and 'x' not in self.cols), v or (not inside_traj and filler_var)
            f = v = False
            for c in t[1:]:
                f1, v1 = walk(c, inside_mc, inside_traj)
                f, v = f or f1, v or v1
            return f, v

        faulty, var_outside = walk(a)
        if faulty:
            return True
        if self.panel and var_outside:
            return True if entry == 'bio' else None     # the BIOGEME path checks the placement of variables on panel data
        return False


def session_worker(payload):
    import warnings
    import logging

    warnings.simplefilter('ignore')
    logging.disable(logging.CRITICAL)
    out = []
    for case in payload['items']:
        r = {'obs': []}
        stop = False
        with core.scratch('[MonteCarlo]\nnumber_of_draws = 3\n'):
            try:
                run = SessionRun(case['ast'], session_frame(len(case['choices']), case.get('alts', []), case['choices'], case.get('unavail', ())))
                st = SessionState(case)
            except Exception as e:  # noqa: BLE001
                out.append({'unbuildable': f'{type(e).__name__}: {e}'[:300]})
                _progress(payload, out[-1])
                continue
            for op in case['ops']:
                if op['o'] == 'eval':
                    must = st.must_refuse(op['entry'])
                    # the engine really runs only where the property says the specification is valid (flat data)
                    # (not under a planted context: its fillers need not make numerical sense)
                    stub = not (must is False and not st.panel and not st.unavail and '"ctx"' not in json.dumps(case['ast']))
                    obs = run.evaluate(op['entry'], stub)
                    r['obs'].append(obs + [stub])
                    if obs[0].startswith('Other:'):
                        stop = True  # possibly an engine exception: the process may be poisoned
                        break
                else:
                    try:
                        run.edit(op)
                        st.edit(op)
                    except Exception as e:  # noqa: BLE001
                        r['edit_failed'] = f'{op}: {type(e).__name__}: {e}'[:300]
                        break
        out.append(r)
        _progress(payload, r)
        if stop:
            break
    return {'results': out}


def session_model_ops(ops):
    out = []
    for op in ops:
        if op['o'] == 'eval':
            out.append({'o': 'evalBio', 'skip': False} if op['entry'] == 'bio' else {'o': 'evalExpr'})
        else:
            out.append(op)
    return out


def judge_session(ctx, res, case, r, stream='session'):
    base = {'stream': stream, 'ast': case['ast'], 'alts': case.get('alts', []), 'choices': case['choices'], 'unavail': list(case.get('unavail', ())),
            'ops': case['ops']}
    if 'worker_error' in r:
        res.notes.append(f'{stream} stream: worker error on {json.dumps(base)[:300]}: {r["worker_error"][:200]}')
        res.tally(f'{stream}:worker_error')
        return
    if 'unbuildable' in r:
        res.notes.append(f'{stream} stream: unbuildable {json.dumps(base)[:300]}: {r["unbuildable"]}')
        res.tally(f'{stream}:unbuildable')
        return
    if 'edit_failed' in r:
        res.notes.append(f'{stream} stream: an edit failed: {r["edit_failed"]}')
        res.tally(f'{stream}:edit_failed')
    res.count(base, nontrivial=True)
    res.tally(f'{stream}:{case.get("shape", "?")}')
    st = SessionState(case)
    evals = []      # (index of the evaluation, op, oracle)
    for op in case['ops']:
        if op['o'] == 'eval':
            evals.append((op, st.must_refuse(op['entry']), len([e for e in evals])))
        else:
            st.edit(op)
    n_eval_seen = len(r['obs'])
    for (op, must, k) in evals[:n_eval_seen]:
        kind, msg, stub = r['obs'][k]
        where = STALE_WHERE if (must is False and stale_ids_pattern(case, k)) else f'{stream}:{op["entry"]}'
        c = dict(base, evaluation=k)
        res.tally(f'{stream}:eval#{min(k, 3)}{"+" if k >= 3 else ""}:{op["entry"]}:{"faulty" if must else "valid" if must is False else "undecided"}')
        if must is True:
            if kind == 'ok':
                res.violate(f'{stream}: evaluation #{k + 1} ({op["entry"]}) on the same objects accepts a specification that is faulty now', c, [kind, msg], 'BiogemeError', where=where)
            elif kind != 'BiogemeError':
                res.violate(f'{stream}: evaluation #{k + 1} ({op["entry"]}) refuses a faulty specification with {kind} instead of the library error', c, [kind, msg], 'BiogemeError', where=where)
        elif must is False and kind != 'ok':
            res.violate(f'{stream}: evaluation #{k + 1} ({op["entry"]}) refuses a specification that is valid now', c, [kind, msg], 'accepted', where=where)
        elif must is None and kind not in ('ok', 'BiogemeError'):
            res.violate(f'{stream}: evaluation #{k + 1} ({op["entry"]}) raises {kind}, not the library error', c, [kind, msg], 'accepted or BiogemeError', where=where)
    lg = ast_find_logit(case['ast'])
    req = {'op': 'session', 'configs': ast_configs(case['ast']), 'sel': 0, 'cols': SESSION_COLS + [f'av_{a}' for a in case.get('alts', [])], 'panel': False,
           'logit': ({'alts': lg[2], 'av': logit_av_keys(lg[2], lg[3], lg[4]), 'choices': case['choices']} if lg else None),
           'ops': session_model_ops(case['ops'])}

    def cb(ans, obs=r['obs'], base=base, evals=evals, case=case):
        if 'error' in ans:
            res.diverge(f'model: {ans["error"]}', base, ans, obs, where=stream)
            return
        for (op, must, k), faults in zip(evals[:len(obs)], ans['verdicts']):
            kind, msg, stub = obs[k]
            where = STALE_WHERE if (not faults and stale_ids_pattern(case, k)) else f'{stream}:{op["entry"]}'
            c = dict(base, evaluation=k)
            if faults and kind == 'ok':
                res.diverge(f'{stream}: model reports {faults} at evaluation #{k + 1} ({op["entry"]}), library accepts', c, faults, obs[k], where=where)
            elif not faults and kind != 'ok':
                res.diverge(f'{stream}: model accepts at evaluation #{k + 1} ({op["entry"]}), library refuses', c, faults, obs[k], where=where)
            elif faults and kind != 'BiogemeError':
                res.diverge(f'{stream}: refused with {kind}, not the library error, at evaluation #{k + 1} ({op["entry"]})', c, faults, obs[k], where=where)
            elif faults and not names_message_ok(faults, msg):
                res.diverge(f'{stream}: the message names none of the faults {faults} at evaluation #{k + 1} ({op["entry"]})', c, faults, msg[:200], where=where)

    ctx.batch.add(req, cb)


EXPR_ENTRIES = ['gvc', 'gvd', 'vfd', 'fn', 'objf']


def ev(entry):
    return {'o': 'eval', 'entry': entry}


# ----------------------------------------------------------------------------- round 3: the ROW that holds a data-dependent fault

ROW_POSITIONS = {1: [[0]], 2: [[0], [1], [0, 1]], 5: [[0], [2], [4], [0, 4], [1, 3], [0, 1, 2, 3, 4]]}
ROW_BAD_VALUES = [-1, 0, 99, 4]


def rows_cases(ctx, rng):
    ctxs_any = [list(c) for c in all_contexts() if slot_type(c) == 'any' and c[0] not in ('MonteCarlo', 'Integrate', 'PanelLikelihoodTrajectory', 'Catalog')
                and not c[0].startswith('_bioLogLogit')]
    cases = []
    k = 0
    for n, possets in ROW_POSITIONS.items():
        for pos in possets:
            for av in (('none', 'ones', 'cols', 'none') if not ctx.quick else ('none', 'ones' if k % 2 else 'cols', 'none')):
                alts = [[1, 2, 3], [10, 20, 30]][k % 2]
                builder = ['loglogit', 'logit', 'lognested', 'loglogit'][k % 4]
                bad = ROW_BAD_VALUES[k % 4]
                choices = valid_choices(n, alts, k)
                for q in pos:
                    choices[q] = bad
                a = ast_logit(builder, alts, av, -1 if k % 3 == 0 else 1)
                if k % 5 == 3:
                    a = ['ctx'] + rng.choice(ctxs_any) + [a]
                if k % 7 == 5:
                    a = ['ctx'] + rng.choice(ctxs_any) + [a]
                entries = ['bio'] + EXPR_ENTRIES if not ctx.quick else ['bio', EXPR_ENTRIES[k % 5]] + ([EXPR_ENTRIES[(k + 2) % 5]] if av == 'none' else [])
                for e in entries:
                    cases.append({'shape': f'bad@{"first" if pos == [0] else "last" if pos == [n - 1] else "several" if len(pos) > 1 else "middle"}/{n}:{av}', 'ast': a,
                                  'alts': alts, 'choices': choices, 'ops': [ev(e)]})
                k += 1
    # valid data (all sizes), the chosen alternative unavailable in some row (a warning), keys of the two dictionaries different
    for n in (1, 2, 5):
        for av in ('none', 'ones', 'cols', 'mismatch'):
            for builder in (('loglogit', 'logit', 'lognested') if not ctx.quick else (('loglogit', 'logit', 'lognested')[k % 3],)):
                alts = [[1, 2, 3], [10, 20, 30]][k % 2]
                a = ast_logit(builder, alts, av, -1 if k % 2 else 1)
                if k % 3 == 0:
                    a = ['ctx'] + rng.choice(ctxs_any) + [a]
                for e in (['bio'] + EXPR_ENTRIES if not ctx.quick else ['bio', EXPR_ENTRIES[k % 5]]):
                    cases.append({'shape': f'valid/{n}:{av}' if av != 'mismatch' else f'keys/{n}', 'ast': a, 'alts': alts, 'choices': valid_choices(n, alts, k), 'ops': [ev(e)]})
                k += 1
    for n, rows in ((1, [0]), (5, [0]), (5, [2]), (5, [4])):
        alts = [10, 20, 30]
        for e in ('bio', 'gvc'):
            cases.append({'shape': 'chosen_unavailable', 'ast': ast_logit('loglogit', alts, 'cols'), 'alts': alts, 'choices': valid_choices(n, alts), 'unavail': rows, 'ops': [ev(e)]})
    return cases


def cells_check(ctx, res):
    """NaN / a string in ONE cell, in every row position and frame size: refused by Database(...) and, entered in place
    after the construction, by BIOGEME(...)"""
    import pandas as pd
    import biogeme.database as dbm
    import biogeme.biogeme as bio

    for n, possets in ROW_POSITIONS.items():
        for pos in possets + [[]]:
            for fault in ('nan', 'string'):
                for col in ('x', 'y'):       # x is read by the formula, y is not
                    for entry in ('db_new', 'bio_after_edit'):
                        case = {'stream': 'cells', 'rows': n, 'pos': pos, 'fault': fault, 'col': col, 'entry': entry}
                        res.count(case, nontrivial=True)
                        res.tally(f'cells:{fault}:{"none" if not pos else "first" if pos == [0] else "last" if pos == [n - 1] else "several" if len(pos) > 1 else "middle"}/{n}')
                        df = pd.DataFrame({'x': [1.0 + i for i in range(n)], 'y': [2.0 - i for i in range(n)]})
                        with core.scratch(''):
                            try:
                                if entry == 'db_new':
                                    if fault == 'string' and pos:
                                        df[col] = df[col].astype(object)
                                    for q in pos:
                                        df.loc[q, col] = np.nan if fault == 'nan' else 'n/a'
                                    dbm.Database('cells', df)
                                else:
                                    db = dbm.Database('cells', df)
                                    if fault == 'string' and pos:
                                        db.data[col] = db.data[col].astype(object)
                                    for q in pos:
                                        db.data.loc[q, col] = np.nan if fault == 'nan' else 'n/a'
                                    bio.BIOGEME(db, life_formula_xy())
                                got = 'ok'
                            except Exception as e:  # noqa: BLE001
                                got = core.exc_kind(e)
                        exp = 'BiogemeError' if pos else 'ok'
                        if got != exp:
                            res.violate(f'data audit: {fault} in row(s) {pos} of {n} of column {col} gives {got} ({entry})', case, got, exp, where=f'cells:{entry}')
                        numeric = not (fault == 'string' and pos)
                        req = {'op': 'dataaudit', 'rows': n, 'cols': [{'name': c, 'numeric': numeric or c != col, 'hasNaN': bool(pos) and fault == 'nan' and c == col} for c in ('x', 'y')]}

                        def cb(ans, got=got, case=case, entry=entry):
                            faults = ans['new' if entry == 'db_new' else 'bio']
                            if bool(faults) != (got != 'ok'):
                                res.diverge(f'data audit by cell: model {faults}, library {got}', case, faults, got, where=f'cells:{entry}')

                        ctx.batch.add(req, cb)


DTYPES_NUM = ['float16', 'float32', 'float64', 'int8', 'int16', 'int32', 'int64', 'uint8', 'uint16', 'uint32', 'uint64']
DTYPES_NAN = ['float16', 'float32', 'float64', 'object']      # the dtypes that can hold a NaN


def dtype_check(ctx, res):
    """the DTYPE of a data column as an input dimension of the data audit: the verdict depends on the values, not on how
    they are stored.  NaN / a string / no row in a column of each dtype that can hold the fault, at construction and
    entered in place afterwards (BIOGEME(...) audits again); valid columns of every number dtype are accepted.
    (pandas nullable dtypes and category columns are not judged: see the report of this stream in the notes)"""
    import pandas as pd
    import biogeme.database as dbm
    import biogeme.biogeme as bio

    def column(dt, fault, pos, n):
        vals = [1.0 + i for i in range(n)]
        if dt == 'object':
            ser = pd.Series(vals, dtype=object)
        else:
            ser = pd.Series(np.array(vals, dtype=dt))
        return ser

    def plant(df, col, dt, fault, pos):
        if fault == 'nan':
            df.loc[pos, col] = np.nan
        elif fault == 'string':
            df[col] = df[col].astype(object)
            df.loc[pos, col] = 'n/a'
        elif fault == 'empty':
            df.drop(df.index, inplace=True)

    n = 4
    for dt in DTYPES_NUM + ['object']:
        for fault in ('none', 'nan', 'string', 'empty'):
            if fault == 'nan' and dt not in DTYPES_NAN:
                continue
            if dt == 'object' and fault == 'none':
                continue    # numbers stored as objects: whether that is 'non-numeric data' is not stated
            for col in ('x', 'y'):       # x is read by the formula, y is not
                for pos in ((0, n - 1) if fault in ('nan', 'string') else (0,)):
                    for entry in ('db_new', 'bio_after_edit'):
                        case = {'stream': 'dtypes', 'dtype': dt, 'fault': fault, 'col': col, 'pos': pos, 'entry': entry}
                        res.count(case, nontrivial=True)
                        res.tally(f'dtypes:{dt}:{fault}')
                        df = pd.DataFrame({'x': [1.0 + i for i in range(n)], 'y': [2.0 + i for i in range(n)]})
                        df[col] = column(dt, fault, pos, n)
                        held = None
                        with core.scratch(''):
                            try:
                                if entry == 'db_new':
                                    plant(df, col, dt, fault, pos)
                                    held = str(df[col].dtype)
                                    dbm.Database('dtypes', df)
                                else:
                                    db = dbm.Database('dtypes', df)
                                    plant(db.data, col, dt, fault, pos)
                                    held = str(db.data[col].dtype)
                                    bio.BIOGEME(db, life_formula_xy())
                                got = 'ok'
                            except Exception as e:  # noqa: BLE001
                                got = core.exc_kind(e)
                        if fault == 'nan' and held != dt:
                            res.tally('dtypes:dtype changed by the edit (not judged)')
                            continue
                        exp = 'ok' if fault == 'none' else 'BiogemeError'
                        if got != exp:
                            res.violate(f'data audit: {fault} in a {dt} column ({col}, row {pos}) gives {got} ({entry})', case, got, exp, where=f'dtypes:{entry}')
                        req = {'op': 'dataaudit', 'rows': 0 if fault == 'empty' else n,
                               'cols': [{'name': c, 'numeric': not (c == col and (fault == 'string' or dt == 'object')), 'hasNaN': c == col and fault == 'nan'} for c in ('x', 'y')]}

                        def cb(ans, got=got, case=case, entry=entry):
                            faults = ans['new' if entry == 'db_new' else 'bio']
                            if bool(faults) != (got != 'ok'):
                                res.diverge(f'data audit by dtype: model {faults}, library {got}', case, faults, got, where=f'dtypes:{entry}')

                        ctx.batch.add(req, cb)


def life_formula_xy():
    from biogeme.expressions import Beta, Variable

    return -((Beta('b', 0.5, None, None, 0) * Variable('x') - 1) ** 2)


def getvalue_check(ctx, res, rng):
    """LogLogit.get_value (evaluation in Python, no data): a chosen alternative that is no key of the utilities or of
    the availabilities is refused with the library error; a valid one gives a number"""
    from biogeme.expressions import Beta, Numeric
    from biogeme.expressions.logit_expressions import _bioLogLogit, _bioLogLogitFullChoiceSet, LogLogit

    for k in range(ctx.n(24, 120)):
        alts = rng.choice([[1, 2, 3], [10, 20, 30], [2, 1], [5]])
        avmode = rng.choice(['none', 'ones', 'reversed'])   # (keys of the two dictionaries equal: get_value has no audit of its own)
        av = logit_av_keys(alts, avmode, -1 if avmode == 'reversed' else 1)
        c = rng.choice(alts + av + [-1, 0, 99])
        cls = rng.choice(['_bioLogLogit', 'LogLogit']) if avmode != 'none' else rng.choice(['_bioLogLogitFullChoiceSet', 'LogLogit'])
        case = {'stream': 'getvalue', 'alts': alts, 'av': avmode, 'choice': c, 'cls': cls}
        res.count(case, nontrivial=True)
        res.tally(f'getvalue:{"valid" if c in alts and c in av else "invalid"}')
        V = {i: Beta(f'u{i}', 0.25 * j, None, None, 0) for j, i in enumerate(alts)}
        try:
            if cls == '_bioLogLogitFullChoiceSet':
                o = _bioLogLogitFullChoiceSet(V, Numeric(c))
            else:
                o = {'_bioLogLogit': _bioLogLogit, 'LogLogit': LogLogit}[cls](V, None if avmode == 'none' else {i: Numeric(1) for i in av}, Numeric(c))
            v = float(o.get_value())
            got = 'ok' if v == v else 'nan'
        except Exception as e:  # noqa: BLE001
            got = core.exc_kind(e)
        exp = 'ok' if (c in alts and c in av) else 'BiogemeError'
        if got != exp:
            res.violate(f'LogLogit.get_value: choice {c} with utilities {alts}, availabilities {av} gives {got}', case, got, exp, where='LogLogit.get_value')
        req = {'op': 'logitrows', 'alts': alts, 'av': av, 'choices': [c]}

        def cb(ans, got=got, case=case):
            if ans['getvalue'][0] != (got != 'ok'):
                res.diverge('LogLogit.get_value: model vs library', case, ans['getvalue'], got, where='LogLogit.get_value')

        ctx.batch.add(req, cb)


# ----------------------------------------------------------------------------- round 3: histories on the same objects

def gen_session(rng, ctxs_any):
    shape = rng.choice(['logit', 'logit', 'logit', 'mc', 'mc_catalog', 'mc_catalog', 'catalog_plain', 'catalog_plain', 'mc_traj'])
    n = 5
    alts, choices = [], [1] * n
    b_x = ['times', ['beta', 'b'], ['var', 'x']]
    edits = []
    if shape == 'logit':
        alts = rng.choice([[1, 2], [1, 2, 3], [10, 20, 30]])
        av = rng.choice(['none', 'none', 'ones', 'cols'])
        a = ast_logit(rng.choice(['loglogit', 'logit', 'lognested'] if len(alts) > 2 else ['loglogit', 'logit']), alts, av, rng.choice([1, -1]))
        choices = valid_choices(n, alts, rng.randint(0, 2))

        def mk_edit():
            t = rng.random()
            if t < 0.45:
                return {'o': 'setChoice', 'row': rng.choice([0, 0, 1, 2, 3, 4, 4]), 'v': rng.choice([-1, 0, 99, alts[-1] + 1])}
            if t < 0.75:
                return {'o': 'setChoice', 'row': rng.randint(0, 4), 'v': rng.choice(alts)}
            if t < 0.9:
                return {'o': 'scaleChoice', 'k': rng.choice([1, 2, 10])}
            return rng.choice([{'o': 'dropColumn', 'name': 'z'}, {'o': 'addColumn', 'name': 'w'}, {'o': 'dropColumn', 'name': 'x'}, {'o': 'addColumn', 'name': 'x'}])
    elif shape == 'mc':
        a = ['mc', ['exp', ['plus', b_x, ['draws', 'xi']]]]

        def mk_edit():
            return rng.choice([{'o': 'declarePanel'}, {'o': 'dropColumn', 'name': 'x'}, {'o': 'addColumn', 'name': 'x'}, {'o': 'dropColumn', 'name': 'y'}])
    elif shape == 'mc_catalog':
        members = [['plus', b_x, ['draws', 'xi']], b_x, ['plus', ['times', ['beta', 'b'], ['var', 'w']], ['draws', 'xi']]]
        rng.shuffle(members)
        a = ['mc', ['exp', ['catalog', 'spec', members]]]

        def mk_edit():
            t = rng.random()
            if t < 0.7:
                return {'o': 'select', 'i': rng.randint(0, 2)}
            return rng.choice([{'o': 'declarePanel'}, {'o': 'addColumn', 'name': 'w'}, {'o': 'dropColumn', 'name': 'w'}])
    elif shape == 'catalog_plain':
        members = [b_x, ['times', ['beta', 'b'], ['var', 'y']], ['times', ['beta', 'c'], ['exp', ['var', 'w']]]]
        rng.shuffle(members)
        a = ['plus', ['catalog', 'spec', members], ['beta', 'c']]

        def mk_edit():
            t = rng.random()
            if t < 0.5:
                return {'o': 'select', 'i': rng.randint(0, 2)}
            return rng.choice([{'o': 'dropColumn', 'name': 'y'}, {'o': 'addColumn', 'name': 'y'}, {'o': 'addColumn', 'name': 'w'}, {'o': 'dropColumn', 'name': 'w'},
                               {'o': 'dropColumn', 'name': 'x'}, {'o': 'declarePanel'}])
    else:  # mc_traj: valid only once the data are declared panel
        a = ['mc', ['traj', ['exp', ['plus', b_x, ['draws', 'xi']]]]]

        def mk_edit():
            return rng.choice([{'o': 'declarePanel'}, {'o': 'declarePanel'}, {'o': 'dropColumn', 'name': 'z'}])
    if rng.random() < 0.4 and shape in ('logit', 'catalog_plain'):
        a = ['ctx'] + rng.choice(ctxs_any) + [a]
    ops = [ev(rng.choice(EXPR_ENTRIES + ['bio']))] if rng.random() < 0.85 else []
    for _ in range(rng.randint(1, 4)):
        for _ in range(rng.randint(1, 2)):
            ops.append(mk_edit())
        for _ in range(rng.choice([1, 1, 2])):
            ops.append(ev(rng.choice(EXPR_ENTRIES + ['bio'])))
    # the function of create_function keeps the ids assigned when it was created: it is used on histories that neither
    # select another member nor change the columns; `values_from_database` / add_column give one value per row, not on panel data
    col_or_sel = any(o['o'] in ('select', 'dropColumn', 'addColumn') for o in ops)
    seen_panel = False
    for o in ops:
        seen_panel = seen_panel or o['o'] == 'declarePanel'
        if o['o'] == 'eval' and o['entry'] in ('fn', 'objf') and (col_or_sel or any(p['o'] == 'declarePanel' for p in ops)):
            o['entry'] = 'gvd'
    if shape == 'logit':
        ops = [o for o in ops if o['o'] != 'declarePanel']
    return {'shape': shape, 'ast': a, 'alts': alts, 'choices': choices, 'ops': ops}


SESSION_CORPUS = [
    # evaluated, one choice edited in place to a value that is no alternative (first / last row), evaluated again
    {'shape': 'corpus', 'ast': ast_logit('loglogit', [1, 2], 'none'), 'alts': [1, 2], 'choices': [1, 2, 1, 2, 2],
     'ops': [ev('gvc'), {'o': 'setChoice', 'row': 3, 'v': 3}, ev('gvc'), ev('gvd'), {'o': 'setChoice', 'row': 3, 'v': 1}, ev('gvc')]},
    {'shape': 'corpus', 'ast': ast_logit('loglogit', [10, 20, 30], 'none'), 'alts': [10, 20, 30], 'choices': [10, 20, 30, 10, 20],
     'ops': [ev('fn'), {'o': 'setChoice', 'row': 0, 'v': 0}, ev('fn'), ev('bio'), ev('vfd')]},
    {'shape': 'corpus', 'ast': ast_logit('logit', [1, 2], 'ones'), 'alts': [1, 2], 'choices': [1, 2, 1, 2, 2],
     'ops': [ev('bio'), ev('gvd'), {'o': 'scaleChoice', 'k': 2}, ev('gvd'), ev('bio')]},
    # a MonteCarlo formula without trajectory, then the data are declared panel
    {'shape': 'corpus', 'ast': ['mc', ['exp', ['plus', ['times', ['beta', 'b'], ['var', 'x']], ['draws', 'xi']]]], 'choices': [1] * 5,
     'ops': [ev('gvc'), {'o': 'declarePanel'}, ev('gvc'), ev('gvd'), ev('bio')]},
    # another member of the catalog is selected
    {'shape': 'corpus', 'ast': ['mc', ['exp', ['catalog', 'spec', [['plus', ['times', ['beta', 'b'], ['var', 'x']], ['draws', 'xi']], ['times', ['beta', 'b'], ['var', 'x']]]]]],
     'choices': [1] * 5, 'ops': [ev('gvc'), {'o': 'select', 'i': 1}, ev('gvc'), ev('vfd'), {'o': 'select', 'i': 0}, ev('gvc')]},
    # refused first, valid once the panel structure is declared
    {'shape': 'corpus', 'ast': ['mc', ['traj', ['exp', ['plus', ['times', ['beta', 'b'], ['var', 'x']], ['draws', 'xi']]]]], 'choices': [1] * 5,
     'ops': [ev('gvc'), {'o': 'declarePanel'}, ev('gvc'), ev('bio')]},
    # a column disappears / comes back
    {'shape': 'corpus', 'ast': ['plus', ['times', ['beta', 'b'], ['var', 'x']], ['var', 'y']], 'choices': [1] * 5,
     'ops': [ev('gvd'), {'o': 'dropColumn', 'name': 'y'}, ev('gvd'), ev('bio'), {'o': 'addColumn', 'name': 'y'}, ev('gvc')]},
]


def session_check(ctx, res, rng):
    ctxs_any = [list(c) for c in all_contexts() if slot_type(c) == 'any' and c[0] not in ('MonteCarlo', 'Integrate', 'PanelLikelihoodTrajectory', 'Catalog')
                and not c[0].startswith('_bioLogLogit')]
    rows = rows_cases(ctx, rng)
    for c, r in zip(rows, run_plantings(rows, worker='session_worker', min_chunk=8)):
        judge_session(ctx, res, c, r, stream='rows')
    cases = [json.loads(json.dumps(c)) for c in SESSION_CORPUS] + [gen_session(rng, ctxs_any) for _ in range(ctx.n(56, 400))]
    for c, r in zip(cases, run_plantings(cases, worker='session_worker', min_chunk=6)):
        judge_session(ctx, res, c, r, stream='session')


# ----------------------------------------------------------------------------- other clauses (relations on real runs)


def flags_check(ctx, res):
    from biogeme.expressions import Beta, Variable

    db = probe_db()
    e = Beta('b', 1.0, None, None, 0) * Variable('x')
    for g, h, b in [(False, True, False), (False, False, True), (False, True, True)]:
        case = {'flags': {'gradient': g, 'hessian': h, 'bhhh': b}}
        res.count(case, nontrivial=True)
        try:
            e.get_value_and_derivatives(database=db, gradient=g, hessian=h, bhhh=b, prepare_ids=True)
            res.violate('second derivatives without first ones accepted', case, 'ok', 'BiogemeError', where='get_value_and_derivatives flags')
        except Exception as ex:  # noqa: BLE001
            if core.exc_kind(ex) != 'BiogemeError':
                res.violate('derivative flags refused with a foreign error', case, core.exc_kind(ex), 'BiogemeError', where='get_value_and_derivatives flags')


def data_check(ctx, res):
    import pandas as pd
    import biogeme.database as dbm

    cases = {
        'string_column': pd.DataFrame({'x': [1.0, 2.0], 's': ['a', 'b']}),
        'nan': pd.DataFrame({'x': [1.0, np.nan]}),
        'empty': pd.DataFrame({'x': []}),
        'object_numbers': pd.DataFrame({'x': [1.0, 2.0], 'o': pd.Series([1, 'z'], dtype=object)}),
        'valid': pd.DataFrame({'x': [1.0, 2.0], 'i': [1, 2]}),
    }
    for name, df in cases.items():
        case = {'data': name}
        res.count(case, nontrivial=True)
        try:
            dbm.Database('d', df)
            got = 'ok'
        except Exception as e:  # noqa: BLE001
            got = core.exc_kind(e)
        exp = 'ok' if name == 'valid' else 'BiogemeError'
        if got != exp:
            res.violate(f'data audit: {name} data gives {got}', case, got, exp, where='Database._audit')


def nests_check(ctx, res, rng):
    from biogeme.nests import OneNestForNestedLogit, NestsForNestedLogit, OneNestForCrossNestedLogit, NestsForCrossNestedLogit
    from biogeme.expressions import Beta
    import biogeme.models as models
    from biogeme.expressions import Variable

    mu = Beta('mu', 1.5, 1.0, None, 0)
    choice_set = [1, 2, 3, 4]
    choice_set6 = [1, 2, 3, 4, 5, 6]
    V = {i: Beta(f'a{i}', 0.0, None, None, 0) for i in choice_set6}
    specs = {
        'overlap': [[1, 2], [2, 3]],
        'outside': [[1, 2], [3, 9]],
        'valid_partition': [[1, 2], [3, 4]],
        'valid_alone': [[1, 2]],
    }
    # random structures: 2-4 nests over {1..6}; valid iff pairwise disjoint (also NON-adjacent pairs) and inside the choice set
    for i in range(40):
        k = rng.randint(2, 4)
        pool = [1, 2, 3, 4, 5, 6, 9]
        groups = []
        for _ in range(k):
            groups.append(sorted(rng.sample(pool, rng.randint(1, 3))))
        flat = [a for g in groups for a in g]
        ok = len(flat) == len(set(flat)) and all(a in choice_set6 for a in flat)
        specs[('valid_r%d' if ok else 'invalid_r%d') % i] = groups
    for name, groups in specs.items():
        case = {'nests': name, 'groups': groups}
        res.count(case, nontrivial=True)
        try:
            nests = NestsForNestedLogit(choice_set=(choice_set6 if '_r' in name else choice_set), tuple_of_nests=tuple(OneNestForNestedLogit(nest_param=mu, list_of_alternatives=g, name=f'n{i}') for i, g in enumerate(groups)))
            ok, msg = nests.check_partition()
            if ok:
                models.lognested({i: V[i] for i in (choice_set6 if '_r' in name else choice_set)}, None, nests, 1)
            got = 'ok' if ok else 'refused'
        except Exception as e:  # noqa: BLE001
            got = 'refused' if core.exc_kind(e) == 'BiogemeError' else core.exc_kind(e)
        exp = 'ok' if name.startswith('valid') else 'refused'
        if got != exp:
            res.violate(f'nest audit: {name} nests give {got}', case, got, exp, where='nests.check_partition')

        def cb(ans, got=got, case=case):
            if (ans['verdict'] == 'accepted') != (got == 'ok'):
                res.diverge('nest audit: model vs library', case, ans['verdict'], got, where='nests.check_partition')

        ctx.batch.add({'op': 'nests', 'choice_set': (choice_set6 if '_r' in name else choice_set), 'nests': groups}, cb)
        # the same groups as nests of a cross-nested logit: overlap is the point of the model, alternatives outside the
        # choice set are refused by the constructor, with the library error
        outside = any(a not in (choice_set6 if '_r' in name else choice_set) for g in groups for a in g)
        ccase = {'cnl_nests': name, 'groups': groups}
        res.count(ccase, nontrivial=True)
        try:
            cn = NestsForCrossNestedLogit(choice_set=(choice_set6 if '_r' in name else choice_set), tuple_of_nests=tuple(
                OneNestForCrossNestedLogit(nest_param=mu, dict_of_alpha={a: 0.5 for a in g}, name=f'c{i}') for i, g in enumerate(groups)))
            okv, msg = cn.check_validity()
            models.logcnl({i: V[i] for i in (choice_set6 if '_r' in name else choice_set)}, None, cn, 1)
            cgot = 'ok'
        except Exception as e:  # noqa: BLE001
            cgot = 'refused' if core.exc_kind(e) == 'BiogemeError' else core.exc_kind(e)
        cexp = 'refused' if outside else 'ok'
        if cgot != cexp:
            res.violate(f'cross-nested nests: {name} gives {cgot}', ccase, cgot, cexp, where='nests.cross_nested')
        if exp == 'refused':
            # the model function must refuse too, with the library error
            try:
                nests = NestsForNestedLogit(choice_set=(choice_set6 if '_r' in name else choice_set), tuple_of_nests=tuple(OneNestForNestedLogit(nest_param=mu, list_of_alternatives=g, name=f'n{i}') for i, g in enumerate(groups)))
                models.lognested({i: V[i] for i in (choice_set6 if '_r' in name else choice_set)}, None, nests, 1)
                res.violate(f'models.lognested accepts {name} nests', case, 'ok', 'BiogemeError', where='models.nested')
            except Exception as e:  # noqa: BLE001
                if core.exc_kind(e) != 'BiogemeError':
                    res.violate(f'models.lognested refuses {name} nests with {core.exc_kind(e)}', case, core.exc_kind(e), 'BiogemeError', where='models.nested')


NEST_NAME_SCHEMES = ['distinct', 'all_none', 'same_pair', 'all_same', 'default_collision', 'inherited', 'old_tuple']
NEST_ENTRIES = ['check_partition', 'lognested', 'nested', 'lognested_mev_mu', 'get_mev_for_nested']


def gen_named_nests(rng):
    """2-4 nests over {1..6} (9 is outside the choice set), an overlap injected between ANY pair in half of the cases;
    names by scheme.  Returns the abstract case"""
    k = rng.randint(2, 4)
    pool = [1, 2, 3, 4, 5, 6]
    rng.shuffle(pool)
    cuts = sorted(rng.sample(range(1, 6), k - 1)) + [rng.randint(5, 6)]
    groups, prev = [], 0
    for c in cuts:
        groups.append(sorted(pool[prev:c]) or [pool[0]])
        prev = c
    if rng.random() < 0.5:
        i, j = rng.sample(range(k), 2)
        groups[j] = sorted(set(groups[j]) | {rng.choice(groups[i])})
    if rng.random() < 0.1:
        groups[rng.randrange(k)].append(9)
    scheme = rng.choice(NEST_NAME_SCHEMES)
    names = [None] * k
    first_spec = None
    if scheme == 'distinct':
        names = [f'n{i}' for i in range(k)]
    elif scheme == 'same_pair':
        names = [f'n{i}' for i in range(k)]
        i, j = rng.sample(range(k), 2)
        names[j] = names[i]
    elif scheme == 'all_same':
        names = ['N'] * k
    elif scheme == 'default_collision':
        p, q = rng.sample(range(k), 2)
        names[p] = f'nest_{q + 1}'           # the name Nests.__init__ gives to the unnamed nest at position q
    elif scheme == 'inherited':
        # the unnamed nest objects are first used in another specification, in another order: they keep those names
        first_spec = rng.sample(range(k), rng.randint(1, k))
    return {'stream': 'nestnames', 'groups': groups, 'scheme': scheme, 'names': names, 'first_spec': first_spec, 'entry': rng.choice(NEST_ENTRIES)}


def run_named_nests(case):
    """(verdict, names borne by the nests after the constructor)"""
    from biogeme.nests import OneNestForNestedLogit, NestsForNestedLogit
    from biogeme.expressions import Beta
    import biogeme.models as models

    cs = [1, 2, 3, 4, 5, 6]
    mu = Beta('mu', 1.5, 1.0, None, 0)
    V = {i: Beta(f'a{i}', 0.0, None, None, 0) for i in cs}
    try:
        if case['scheme'] == 'old_tuple':
            nests = NestsForNestedLogit(choice_set=cs, tuple_of_nests=tuple((mu, list(g)) for g in case['groups']))
        else:
            objs = [OneNestForNestedLogit(nest_param=mu, list_of_alternatives=list(g), name=n) for g, n in zip(case['groups'], case['names'])]
            if case['first_spec']:
                try:
                    NestsForNestedLogit(choice_set=cs + [9], tuple_of_nests=tuple(objs[i] for i in case['first_spec']))
                except Exception:  # noqa: BLE001
                    pass
            nests = NestsForNestedLogit(choice_set=cs, tuple_of_nests=tuple(objs))
        borne = [n.name for n in nests.tuple_of_nests]
        e = case['entry']
        if e == 'check_partition':
            ok, msg = nests.check_partition()
            return ('ok' if ok else 'refused'), borne
        if e == 'lognested':
            models.lognested(V, None, nests, 1)
        elif e == 'nested':
            models.nested(V, None, nests, 1)
        elif e == 'lognested_mev_mu':
            models.lognested_mev_mu(V, None, nests, 1, Beta('mu_top', 1.0, None, None, 1))
        elif e == 'get_mev_for_nested':
            models.get_mev_for_nested(V, None, nests)
        else:
            raise ValueError(e)
        return 'ok', borne
    except Exception as ex:  # noqa: BLE001
        return ('refused' if core.exc_kind(ex) == 'BiogemeError' else core.exc_kind(ex)), None


NESTNAMES_CORPUS = [
    {'stream': 'nestnames', 'groups': [[1, 2], [2, 3], [4, 5, 6]], 'scheme': 'same_pair', 'names': ['A', 'B', 'A'], 'first_spec': None, 'entry': 'check_partition'},
    {'stream': 'nestnames', 'groups': [[1, 2], [3, 4], [5, 6, 1]], 'scheme': 'default_collision', 'names': ['nest_3', None, None], 'first_spec': None, 'entry': 'lognested'},
    {'stream': 'nestnames', 'groups': [[1, 2], [3, 4], [5, 6, 2]], 'scheme': 'inherited', 'names': [None, None, None], 'first_spec': [2], 'entry': 'nested'},
    {'stream': 'nestnames', 'groups': [[1, 2, 3], [4, 5, 6]], 'scheme': 'all_same', 'names': ['N', 'N'], 'first_spec': None, 'entry': 'lognested_mev_mu'},
]


def judge_named_nests(ctx, res, case):
    cs = [1, 2, 3, 4, 5, 6]
    res.count(case, nontrivial=True)
    res.tally(f'nestnames:{case["scheme"]}:{case["entry"]}')
    got, borne = run_named_nests(case)
    flat = [a for g in case['groups'] for a in g]
    # from the statement: nests that overlap or leave the choice set are refused - the alternatives decide, not the names
    exp = 'ok' if (len(flat) == len(set(flat)) and all(a in cs for a in flat)) else 'refused'
    if got != exp:
        res.violate(f'nest audit: nests {case["groups"]} named by scheme {case["scheme"]} give {got} ({case["entry"]})', case, got, exp, where=f'nestnames:{case["entry"]}')
    if case['first_spec'] or case['scheme'] == 'old_tuple':
        # names: inherited ones are whatever the first specification gave (the model is asked with the names the objects
        # bore when the second specification was built: not tracked) - the verdict alone is compared
        names = None
    else:
        names = case['names']

    def cb(ans, got=got, borne=borne, case=case, names=names):
        if 'error' in ans:
            res.diverge(f'model: {ans["error"]}', case, ans, got, where=f'nestnames:{case["entry"]}')
        elif (ans['verdict'] == 'accepted') != (got == 'ok'):
            res.diverge('named nests: model vs library', case, ans['verdict'], got, where=f'nestnames:{case["entry"]}')
        elif names is not None and borne is not None and ans.get('names') != borne:
            res.diverge('names given by Nests.__init__: model vs library', case, ans.get('names'), borne, where=f'nestnames:{case["entry"]}')

    ctx.batch.add({'op': 'nests', 'choice_set': cs, 'nests': case['groups'], 'names': names if names is not None else [None] * len(case['groups'])}, cb)


def nest_names_check(ctx, res, rng):
    for case in [dict(c) for c in NESTNAMES_CORPUS] + [gen_named_nests(rng) for _ in range(ctx.n(80, 800))]:
        judge_named_nests(ctx, res, case)


def missing_cases(code):
    """abstract formulas (exprgen format) on rows where column m holds the code; (case, reads_m)"""
    def base(nodes, root_nodes):
        return {'nodes': nodes + root_nodes, 'roots': [len(nodes) + len(root_nodes) - 1], 'columns': ['x', 'm', 'k', 'z', 'ch'],
                'rows': [[1.0, float(code), 1.0, 0.0, 1.0], [2.0, float(code), 1.0, 0.0, 1.0]], 'dict': {}}

    # 0 b, 1 x, 2 m, 3 k, 4 z, 5 ch, 6 b*x, 7 b*m, 8 num0, 9 num1
    N = [{'k': 'beta', 'name': 'b', 'v': 0.5, 'fixed': False}, {'k': 'var', 'name': 'x'}, {'k': 'var', 'name': 'm'}, {'k': 'var', 'name': 'k'},
         {'k': 'var', 'name': 'z'}, {'k': 'var', 'name': 'ch'}, {'k': 'times', 'c': [0, 1]}, {'k': 'times', 'c': [0, 2]},
         {'k': 'num', 'v': 0.0, 'raw': False}, {'k': 'num', 'v': 1.0, 'raw': False}]
    out = {
        'read_plain': (base(N, [{'k': 'plus', 'c': [7, 8]}]), True),
        'read_nested': (base(N, [{'k': 'exp', 'c': [6]}, {'k': 'gt', 'c': [2, 8]}, {'k': 'plus', 'c': [10, 11]}]), True),
        'unread_column': (base(N, [{'k': 'plus', 'c': [6, 8]}]), False),
        'unread_elem_branch': (base(N, [{'k': 'elem', 'c': [3, 6, 7], 'keys': [1, 2]}]), False),
        'read_elem_branch': (base(N, [{'k': 'elem', 'c': [3, 7, 6], 'keys': [1, 2]}]), True),
        'unread_condsum_term': (base(N, [{'k': 'gt', 'c': [1, 8]}, {'k': 'ne', 'c': [4, 8]}, {'k': 'condSum', 'c': [10, 6, 11, 2]}]), False),
        'unread_unavailable_utility': (base(N, [{'k': 'logLogit', 'c': [5, 6, 7, 9, 4], 'keys': [1, 2], 'full': False}]), False),
        'read_available_utility': (base(N, [{'k': 'num', 'v': 1.0, 'raw': False}, {'k': 'logLogit', 'c': [5, 6, 7, 9, 10], 'keys': [1, 2], 'full': False}]), True),
    }
    return out


def missing_worker(payload):
    """fresh process: evaluate an abstract formula on rows containing the missing-data code"""
    import warnings
    import logging

    warnings.simplefilter('ignore')
    logging.disable(logging.CRITICAL)
    import biogeme.biogeme as bio
    from gen import exprgen as G

    code = payload['code']
    case = payload['case']
    objs = G.build(case)
    e = objs[case['roots'][0]]
    db = G.database(case)
    out = {}
    os.chdir(tempfile.mkdtemp(prefix='vbg_'))
    Path('biogeme.toml').write_text(f'[Specification]\nmissing_data = {code}\n')
    try:
        if payload['path'] == 'bio':
            B = bio.BIOGEME(db, e)
            v = B.calculate_likelihood([0.5], scaled=False)
            out = {'ok_sum': float(v)}
        elif payload['path'] == 'bio_simulate':
            B = bio.BIOGEME(db, e)
            sim = B.simulate({'b': 0.5})
            vals = [float(t) for t in sim.iloc[:, 0].to_numpy()]
            # simulate reports an observation that cannot be evaluated as NaN
            out = {'error': 'NaN', 'msg': str(vals)} if any(t != t for t in vals) else {'ok': vals}
        elif payload['path'] == 'bio_formula':
            # the declared code must also govern formula-level evaluation of the model's formulas
            B = bio.BIOGEME(db, e)
            v = B.log_like.get_value_c(database=db, prepare_ids=True)
            out = {'ok': [float(t) for t in v]}
        else:
            v = e.get_value_c(database=db, prepare_ids=True)
            out = {'ok': [float(t) for t in v]}
    except Exception as ex:  # noqa: BLE001
        out = {'error': type(ex).__name__, 'msg': str(ex)[:300]}
    return out


def missing_check(ctx, res):
    from concurrent.futures import ThreadPoolExecutor
    from gen import exprgen as G
    from lib.core import f2b, b2f

    jobs = []
    for code in ([99999, -7] if ctx.quick else [99999, -7, 12345]):
        for name, (case, rd) in missing_cases(code).items():
            for path in ('bio', 'expr', 'bio_formula', 'bio_simulate'):
                if path == 'expr' and code != 99999:
                    continue  # the expression path uses the default code of the expression
                jobs.append({'code': code, 'formula': name, 'path': path, 'case': case, 'reads': rd})
    # the ROW that holds the code: first / middle / last / only row (the others hold ordinary values)
    quick_rows = {(1, (0,)): ('expr',), (5, (0,)): ('bio', 'expr'), (5, (2,)): ('expr',), (5, (4,)): ('bio',), (5, ()): ('expr',)}
    for n, pos in ([(n, list(p)) for n, p in quick_rows] if ctx.quick else [(n, p) for n, ps in ROW_POSITIONS.items() for p in ps + [[]]]):
        for name in ('read_plain', 'unread_column', 'unread_elem_branch'):
            if ctx.quick and name != 'read_plain' and not (name == 'unread_column' and (n, pos) == (5, [0])):
                continue
            case, rd = missing_cases(99999)[name]
            case = json.loads(json.dumps(case))
            case['rows'] = [[1.0 + i, (99999.0 if i in pos else 2.0), 1.0, 0.0, 1.0] for i in range(n)]
            for path in (('bio', 'expr') if not ctx.quick else quick_rows[(n, tuple(pos))] if name == 'read_plain' else ('expr',)):
                jobs.append({'code': 99999, 'formula': f'{name}@rows{pos}/{n}', 'path': path, 'case': case, 'reads': rd and bool(pos)})
    with ThreadPoolExecutor(max_workers=12) as ex:
        outs = list(ex.map(lambda j: core.run_isolated('props.c12', 'missing_worker', j), jobs))
    for j, out in zip(jobs, outs):
        case = {'missing_code': j['code'], 'formula': j['formula'], 'path': j['path'], 'nodes': j['case']['nodes'], 'rows': j['case']['rows']}
        res.tally('missing:' + ('row-position' if '@rows' in j['formula'] else 'all-rows'))
        res.count(case, nontrivial=True)
        rd = j['reads']
        produced = 'ok' in out or 'ok_sum' in out
        if rd and produced:
            res.violate('a value equal to the missing-data code is used in a calculation', case, out, 'error', where='missing data')
        if not rd and not produced:
            res.violate('missing-data code in an unread column/branch makes the evaluation fail', case, out, 'a number', where='missing data')
        # model: Expr.semMissing on the same abstract case, row by row
        c = j['case']
        bv = G.beta_values(c)
        reqs = [{'op': 'evalmissing', 'dag': G.to_json_nodes(c), 'env': G.env_json(bv, row), 'code': f2b(float(j['code'])), 'root': c['roots'][0]}
                for row in G.rows_of(c)]

        def cb(ans, out=out, case=case):
            model_ok = all('ok' in a['missing'] for a in ans)
            if model_ok != ('ok' in out or 'ok_sum' in out):
                res.diverge('missing-data test: model vs engine', case, [a['missing'] for a in ans], out, where='missing data')
            elif model_ok and 'ok_sum' in out:
                if not core.close(sum(b2f(a['missing']['ok']) for a in ans), out['ok_sum'], rel=1e-9):
                    res.diverge('sum under the missing-data test: model vs engine', case, [a['missing'] for a in ans], out, where='missing data')
            elif model_ok and any(not core.close(b2f(a['missing']['ok']), v, rel=1e-9) for a, v in zip(ans, out['ok'])):
                res.diverge('value under the missing-data test: model vs engine', case, [a['missing'] for a in ans], out, where='missing data')

        ctx.batch.add_many(reqs, cb)


def poison_worker(payload):
    """fresh process: one evaluation that reads the missing-data code, then a perfectly valid formula"""
    import warnings

    warnings.simplefilter('ignore')
    import pandas as pd
    import biogeme.database as dbm
    from biogeme.expressions import Beta, Variable

    df = pd.DataFrame({'x': [1.0, 2.0], 'm': [99999.0, 99999.0]})
    db = dbm.Database('t', df)
    b = Beta('b', 0.5, None, None, 0)
    out = {}
    try:
        (b * Variable('m')).get_value_c(database=db, prepare_ids=True)
        out['first'] = 'ok'
    except Exception as e:  # noqa: BLE001
        out['first'] = type(e).__name__
    try:
        v = (b * Variable('x')).get_value_c(database=db, prepare_ids=True)
        out['second'] = [float(t) for t in v]
    except Exception as e:  # noqa: BLE001
        out['second'] = f'{type(e).__name__}: {e}'[:200]
    return out


def poison_check(ctx, res):
    out = core.run_isolated('props.c12', 'poison_worker', {})
    case = {'sequence': ['b*Variable(m) on a row with m = 99999 (refused)', 'b*Variable(x) (valid)']}
    res.count(case, nontrivial=True)
    if out.get('first') == 'ok':
        res.violate('a value equal to the missing-data code is used in a calculation', case, out, 'error', where='missing data')
    if not isinstance(out.get('second'), list):
        res.violate('a valid formula is rejected after an earlier formula was refused in the same process', case, out, 'values [0.5, 1.0]',
                    where='engine: stale exception rethrown (theExceptionPtr never reset)')


MATCHERS = {'after_engine_error': lambda case: 'sequence' in (case or {}),
            'empty_data': lambda case: (case or {}).get('stream') == 'datalife' and str((case or {}).get('fault') or '').startswith('empty'),
            'stale_ids': lambda case: (case or {}).get('stream') in ('session', 'rows') and 'evaluation' in case and stale_ids_pattern(case, case['evaluation'])}

# ----------------------------------------------------------------------------- check


def check(ctx) -> Result:
    res = Result(rule=RULE, tolerance='exact (exception classes, fault kinds)')
    rng = ctx.rng
    rows = getattr(ctx, 'table_rows', [])
    res.notes += getattr(ctx, 'table_notes', [])
    res.extra_trusted.append(f'operator table regenerated from {len(rows)} live classes')
    ctxs = all_contexts()
    items = []
    MAIN = ['unknown_column', 'draws', 'rv', 'valid_var']
    # depth 0: every fault on flat and panel data
    for fault in FAULTS:
        for panel in (False, True):
            items.append([fault, [], panel])
    # depth 1: the main faults in EVERY (class, slot); the others in every slot too in the thorough tier
    for fault in FAULTS:
        for c in ctxs:
            if fault in MAIN or not ctx.quick or rng.random() < 0.2:
                items.append([fault, [c], False])
    for fault in ['unknown_column', 'draws', 'valid_var']:
        for c in ctxs:
            if not ctx.quick or fault == 'valid_var' or rng.random() < 0.5:
                items.append([fault, [c], True])
    # deeper contexts (thorough: all pairs for the main faults)
    if ctx.quick:
        for _ in range(120):
            items.append([rng.choice(FAULTS), [rng.choice(ctxs) for _ in range(rng.randint(2, 3))], rng.random() < 0.3])
    else:
        for fault in MAIN:
            for c1 in ctxs:
                for c2 in ctxs:
                    items.append([fault, [c1, c2], False])
        for _ in range(1500):
            items.append([rng.choice(FAULTS), [rng.choice(ctxs) for _ in range(rng.randint(2, 4))], rng.random() < 0.3])
    # a logit *choice* slot is only used directly above the hole: deeper, the planted sub-formula may happen to
    # evaluate to a valid alternative id (e.g. a comparison yields 1) and the model's choiceInvalid flag would be wrong
    items = [it for it in items if not any(c[0].startswith('_bioLogLogit') and c[1] == 0 for c in it[1][1:])]
    # choice and availability formulas are data formulas: LogLogit.audit evaluates them on their own, so draws /
    # integration variables (legitimately inside an enclosing MonteCarlo / Integrate) are outside the domain there
    DATA_OK = {'unknown_column', 'valid_var', 'valid_num', 'logit_keys'}
    items = [it for it in items if it[0] in DATA_OK or not any(slot_type(c) == 'one' for c in it[1])]
    import time

    t0 = time.time()
    timing = {}

    def lap(name):
        nonlocal t0
        timing[name] = round(time.time() - t0, 1)
        t0 = time.time()

    results = run_plantings(items)
    for it, r in zip(items, results):
        judge_planting(ctx, res, it, r)
    lap('planting')
    flags_check(ctx, res)
    data_check(ctx, res)
    nests_check(ctx, res, rng)
    nest_names_check(ctx, res, rng)
    cells_check(ctx, res)
    dtype_check(ctx, res)
    getvalue_check(ctx, res, rng)
    lap('flags/data/nests/cells/getvalue')
    missing_check(ctx, res)
    poison_check(ctx, res)
    lap('missing')
    names_check(ctx, res, rng, ctx.n(120, 1500))
    lap('names')
    life_check(ctx, res, rng)
    lap('datalife')
    session_check(ctx, res, rng)
    lap('rows+session')
    ctx.batch.flush()
    lap('lean batch')
    res.notes.append(f'wall seconds per stream: {timing}')
    return res


def search(ctx, res, broken):
    rng = core.rng_for('C12-search', ctx.seed)
    ctxs = all_contexts()
    r2 = Result()
    items = [[rng.choice(FAULTS), [rng.choice(ctxs) for _ in range(rng.randint(0, 3))], rng.random() < 0.3] for _ in range(600)]
    items = [it for it in items if not any(c[0].startswith('_bioLogLogit') and c[1] == 0 for c in it[1][1:])]
    items = [it for it in items if it[0] in {'unknown_column', 'valid_var', 'valid_num', 'logit_keys'} or not any(slot_type(c) == 'one' for c in it[1])]
    for it, r in zip(items, run_plantings(items)):
        judge_planting(ctx, r2, it, r)
    if not r2.violations:
        names_check(ctx, r2, rng, 400)
    if not r2.violations:
        class Wide:
            quick = False
            n = staticmethod(lambda q, t: t)
        r3 = Result()
        cases = life_cases(Wide, core.rng_for('C12-search-life', ctx.seed))
        for c, r in zip(cases, run_plantings(cases, worker='life_worker', min_chunk=6)):
            judge_life(ctx, r3, c, r)
        # the listed finding on empty data is no news
        r2.violations.extend(v for v in r3.violations if v.get('where') != EMPTY_WHERE)
    if not r2.violations:
        class Wide2:
            quick = False
            n = staticmethod(lambda q, t: t)
        r4 = Result()
        srng = core.rng_for('C12-search-session', ctx.seed)
        ctxs_any = [list(c) for c in all_contexts() if slot_type(c) == 'any' and c[0] not in ('MonteCarlo', 'Integrate', 'PanelLikelihoodTrajectory', 'Catalog')
                    and not c[0].startswith('_bioLogLogit')]
        rows = rows_cases(Wide2, srng)
        for c, r in zip(rows, run_plantings(rows, worker='session_worker', min_chunk=8)):
            judge_session(ctx, r4, c, r, stream='rows')
        cases = [gen_session(srng, ctxs_any) for _ in range(300)]
        for c, r in zip(cases, run_plantings(cases, worker='session_worker', min_chunk=6)):
            judge_session(ctx, r4, c, r, stream='session')
        # the listed finding on ids left behind is no news
        r2.violations.extend(v for v in r4.violations if v.get('where') != STALE_WHERE)
    ctx.batch.items.clear()
    res.violations.extend(r2.violations[:3])


def replay(ctx, obj):
    case = obj.get('case') or {}
    r = Result()
    if 'fault' in case and 'stream' not in case:
        it = [case['fault'], [tuple(c) for c in case['chain']], case['panel']]
        judge_planting(ctx, r, it, run_plantings([it])[0])
    elif 'missing_code' in case:
        missing_check(ctx, r)
    elif case.get('stream') == 'names':
        c = {'shape': 'replay', 'elems': case['elems'], 'chain': case['chain']}
        judge_names(ctx, r, c, run_plantings([c], worker='names_worker')[0])
        if 'entry' in case:
            r.violations = [v for v in r.violations if v['case'].get('entry') == case['entry']]
    elif case.get('stream') == 'datalife':
        c = {k: case[k] for k in ('pre', 'fault', 'post', 'entry')}
        judge_life(ctx, r, c, run_plantings([c], worker='life_worker')[0])
    elif case.get('stream') in ('session', 'rows'):
        c = {k: case[k] for k in ('ast', 'alts', 'choices', 'unavail', 'ops')}
        judge_session(ctx, r, c, run_plantings([c], worker='session_worker')[0], stream=case['stream'])
    elif case.get('stream') == 'nestnames':
        judge_named_nests(ctx, r, {k: case[k] for k in ('stream', 'groups', 'scheme', 'names', 'first_spec', 'entry')})
    elif case.get('stream') == 'dtypes':
        dtype_check(ctx, r)
        r.violations = [v for v in r.violations if all(v['case'].get(k) == case.get(k) for k in ('dtype', 'fault', 'col', 'pos', 'entry'))]
    elif case.get('stream') == 'cells':
        cells_check(ctx, r)
        r.violations = [v for v in r.violations if all(v['case'].get(k) == case.get(k) for k in ('rows', 'pos', 'fault', 'col', 'entry'))]
    else:
        return {'property_fails': False, 'note': 'no concrete input in this replay file'}
    ctx.batch.items.clear()
    return {'property_fails': bool(r.violations), 'violations': r.violations[:3]}
