"""C13 — data-set transformations keep rows and values intact.

Tie: correspondence (C) + relations (R).  Random tables (label index with gaps, non-alphabetical
column order, integer and float columns, small dyadic values so that float arithmetic is exact) and
random sequences of 1-8 operations are applied to a real `biogeme.database.Database`; after EVERY
step the real object (`data`, `excludedData`, `panelColumn`, `individualMap`) is captured and
  (a) checked by an oracle written from the property statement (plain Python on the captured state), and
  (b) compared exactly with the Lean model started from the real state before the step.
Random outputs (`split`, `sample_with_replacement`, `sample_individual_map_with_replacement`) are
checked by the relations of the theorems (`isFoldPartition`, `groupsUnsplit`, `partSizesOK`,
`isBootstrapOf`), evaluated by the Lean driver on the real outputs.
Formulas go through the C++ engine; they are kept valid (known columns, + - * comparisons and/or).
Round 3: the helpers of `biogeme.tools.database` are also called DIRECTLY on the frame of the object as it is at that moment
(`flatten_database(df, merge_id, row_name, identical_columns)` with every option at its default and given, on any merge column:
groups that are not consecutive — wave by wave, one late row, random order —, labels that are not positions, duplicate labels;
`count_number_of_groups` on the frame itself), next to `mdcev_row_split`, `get_sample_size`, `get_number_of_observations`; each is
judged by a Python oracle written from the statement (every cell of the table is read back from the flat table and nothing else is
in it) and compared with the Lean model `Tbl.flattenDirect` / `DB.rowSplit` / `DB.sampleSize`.
"""

from __future__ import annotations

import json
import math
import os

import numpy as np

from lib import core
from lib.core import Result, b2f
from lib.core import f2b as _f2b

NEG_ZERO = 0x8000000000000000


def f2b(x):
    """bit pattern, with -0.0 identified with 0.0 (equal values; the engine returns +0.0 for 0 * negative)"""
    b = _f2b(x)
    return 0 if b == NEG_ZERO else b


def unsign(x):
    """the same identification on a JSON answer of the model"""
    if isinstance(x, list):
        return [unsign(v) for v in x]
    if isinstance(x, dict):
        return {k: unsign(v) for k, v in x.items()}
    return 0 if x == NEG_ZERO and not isinstance(x, bool) else x

READY = True
MANIFEST = dict(
    text='Proof (Lean 4, core): remove keeps exactly the rows whose condition is 0, in order, and reports the number of the others (C13.remove_exact, remove_call); '
    'dropping by label = dropping by position when labels are pairwise different (remove_by_label_ok; witness for duplicates remove_by_label_duplicates); '
    'add_column stores the value of the formula on each row and changes nothing else (addcol_values); scale_column multiplies exactly one column (scale_one_column); '
    'numpy.array_split sizes and concatenation (array_split_concat); k-fold split for EVERY shuffle permutation: k folds, validation parts contain each row once, '
    'estimation = complement, parts pairwise disjoint (folds_partition); grouped split: same, and rows of one group are never separated (groups_unsplit); '
    'bootstrap rows exist (bootstrap_subset); extract_rows positional / IndexError (extract_positional); count (count_def; count_exact: only rows holding the value, absent value 0, '
    'counts of the distinct values add up to the number of rows; counts_def); flattening groups every row once, in table '
    'order per individual (flatten_roundtrip); invariant over ARBITRARY operation sequences by induction over op lists (history_inv_partial, fresh_inv; guard witnessed by '
    'scale_panel_column_breaks_map); meaning of the relations evaluated on real outputs (fold_relation_sound, groups_relation_sound, bootstrap_relation_sound). '
    'tools/database.py called directly: the automatic detection of the identical columns is exact wherever the rows of an individual are (auto_identical_exact); '
    'flatten_database with its defaults, for ANY row order and labels: one flat row per individual, every cell of every row is read back as <column> or <k>_<column> (k-th row of the individual in table order) '
    'and the flat table holds nothing else (flatten_direct_reads_back); with row_name / identical_columns given: shape of every successful call, detected columns when identical_columns is None, '
    'observation names pairwise different inside an individual, identical column = value of the first row, other cells under the key of their row (flatten_direct_ok_shape); '
    'mdcev_row_split positional / IndexError (row_split_positional); get_sample_size / get_number_of_observations (sample_size_def); refused flatten calls (flatten_direct_refusals); '
    'mdcev_count stores per row the number of non-zero listed entries in a new or existing column and changes nothing else (mdcev_count_values), keeps the sequence invariant unless it overwrites the panel column (mdcev_count_inv_partial). Tie: per-step correspondence with the real Database object on '
    'generated tables x operation sequences, relations evaluated by the driver on real random outputs, Python oracle from the property statement on every step; '
    'direct calls of flatten_database (all option combinations, merge column arbitrary, groups consecutive or not, labels != positions, after earlier operations), count_number_of_groups on the frame itself, '
    'mdcev_row_split, get_sample_size, mdcev_count compared with the model and judged by oracles from the statement.',
    design='DESIGN.md §5 C13',
    technique='Lean 4 theorems over an executable row-major table model with pandas-style labels + per-step differential correspondence with real Database objects '
    '+ model relations evaluated on real random outputs',
    note='Trusted: pandas/numpy primitives (drop, iloc, sort_values, sample, array_split, concat, groupby), the C++ engine for formula values (compared with the model and a Python oracle). '
    'Partial: invariant proved under the guard that scale_column is not applied to a panel column; for flatten_database with options the theorem gives the shape of successful calls (error cases: model + correspondence only); '
    'flatten_database on an emptied frame is not judged (TypeError of set.union in the code, Database refuses empty tables). '
    'Engine finding F-E9 (external, listed): a refusal of the missing-data code 99999 corrupts the heap of the process; the shape is excluded from the streams by construction and the listed input is run first in a child of its own. Thorough tier: the cases run in forked children of at most 3000 cases (one interpreter running all ~36000 cases died with SIGSEGV inside pandas/CPython 3.12.1 at unrelated places; no input reproduces it). Known findings: remove drops by label (deletes too much with duplicate labels); '
    'remove on a panel database leaves a stale individual map; panel() reorders the observations of an individual (unstable sort); a refused panel() leaves panelColumn set.',
)

TRUSTED = [
    'pandas / numpy primitives used by Database (drop, iloc, sort_values, sample, array_split, concat, groupby, isin)',
    'the C++ engine computes the formula values (validated on every case against the Lean model and a Python evaluator; dyadic data make the arithmetic exact; on the columns of other magnitudes every single +, -, * is the correctly rounded IEEE operation on all sides)',
    'numbers compare with == as equality (no NaN: the Database constructor refuses NaN) — hypothesis EqOK of the theorems',
]
ASSUMPTIONS = [
    'values are finite normal doubles (|v| in 1e-20 .. 1e60 or 0): +, -, * and comparisons are IEEE operations in numpy, the C++ engine, Python and Lean Float alike (no denormal arithmetic)',
    'row labels of generated tables are integers; duplicates only in the stream dedicated to the known finding',
    'formulas are valid (known columns; + - * neg, comparisons, and/or) so that the engine never raises; a formula that would read the missing-data code 99999 on some row (also in a computed column) is not handed to the engine (refusal + listed engine finding F-E9)',
    'column names of generated tables contain no underscore, so that the names <k>_<column> of a flat table are read back unambiguously',
]
RULE = (
    'tables of 1-14 rows x 2-5 columns (labels with gaps / shuffled, id column contiguous or not, int and float columns, values k/8; in 30% of the tables and in a dedicated stream '
    'columns of other magnitudes: 6-16 digit identifiers one unit apart, clusters of nearly equal floats — adjacent doubles, 1e-12..1e-6 apart —, also as id column) x sequences of 1-8 operations among '
    'remove, add_column, define_variable, scale_column, panel, split(k, groups), sample_with_replacement, sample_individual_map_with_replacement, extract_rows, count (fixed value; '
    'every value the column holds at that moment + the values next to them), generate_flat_panel_dataframe, values_from_database, count_number_of_groups (on the frame itself), and (10% of the steps + a dedicated stream of panel-shaped tables stored wave by wave / with one late row / in random order / consecutively, balanced or not, labels = positions / gaps / shuffled / duplicates) direct calls flatten_database(df, merge column, row_name None|column|unknown, identical_columns None|[]|subset|unknown), mdcev_row_split(None|range), get_sample_size / get_number_of_observations, mdcev_count(listed columns with repetition / unknown, new or existing column); constants of the formulas also taken from the table and next to its values; non-trivial = sequence with a state-changing operation after which the label index has gaps or the table is a panel'
)

W_DUP = 'Database.remove: rows dropped by label (duplicate index labels)'
W_PANEL_REMOVE = 'Database.remove on a panel database: individual map not rebuilt'
W_PANEL_ORDER = 'Database.panel: order of the observations of an individual'
W_PANEL_FAIL = 'Database.panel: refused call leaves panelColumn set'
W_ENGINE_CRASH = 'engine crash (cythonbiogeme heap corruption after a missing-data refusal)'
MISSING_CODE = 99999.0    # the engine refuses a row on which a Variable it reads takes this value (missing-data code)

COLS = ['z', 'id', 'a', 'x10', 'x2', 'w']


# ============================================================================ formulas


def py_eval(fm, row):
    """independent evaluator (oracle): value of a formula on one row (dict column -> float)"""
    k = fm[0]
    if k == 'var':
        return row[fm[1]]
    if k == 'num':
        return b2f(fm[1])
    if k == 'neg':
        return -py_eval(fm[1], row)
    a, b = py_eval(fm[1], row), py_eval(fm[2], row)
    if k == 'add':
        return a + b
    if k == 'sub':
        return a - b
    if k == 'mul':
        return a * b
    if k == 'eq':
        return float(a == b)
    if k == 'ne':
        return float(a != b)
    if k == 'lt':
        return float(a < b)
    if k == 'le':
        return float(a <= b)
    if k == 'gt':
        return float(a > b)
    if k == 'ge':
        return float(a >= b)
    if k == 'and':
        return float(a != 0 and b != 0)
    if k == 'or':
        return float(a != 0 or b != 0)
    raise ValueError(k)


def to_expr(fm):
    """the real biogeme expression, built through the public operators"""
    from biogeme.expressions import Numeric, Variable

    k = fm[0]
    if k == 'var':
        return Variable(fm[1])
    if k == 'num':
        return Numeric(b2f(fm[1]))
    if k == 'neg':
        return -to_expr(fm[1])
    a, b = to_expr(fm[1]), to_expr(fm[2])
    return {
        'add': lambda: a + b, 'sub': lambda: a - b, 'mul': lambda: a * b, 'eq': lambda: a == b, 'ne': lambda: a != b,
        'lt': lambda: a < b, 'le': lambda: a <= b, 'gt': lambda: a > b, 'ge': lambda: a >= b, 'and': lambda: a & b, 'or': lambda: a | b,
    }[k]()


def gen_num(rng, consts=None):
    """a constant: one of the fixed small values or (half of the time when the table offers some) a value of the table or a
    value NEXT to one (adjacent double, +1e-9, x(1+1e-6) ...): comparisons must tell them apart"""
    if consts and rng.random() < 0.5:
        return ['num', f2b(rng.choice(consts))]
    return ['num', f2b(rng.choice([0.0, 1.0, 2.0, -1.0, 0.5, 3.0, -2.5, 0.125, 4.0]))]


def gen_arith(rng, cols, depth, consts=None):
    r = rng.random()
    if depth <= 0 or r < 0.35:
        return ['var', rng.choice(cols)] if rng.random() < 0.75 else gen_num(rng, consts)
    if r < 0.45:
        return ['neg', gen_arith(rng, cols, depth - 1, consts)]
    return [rng.choice(['add', 'sub', 'mul', 'add', 'sub']), gen_arith(rng, cols, depth - 1, consts), gen_arith(rng, cols, depth - 1, consts)]


def gen_cond(rng, cols, depth=2, consts=None):
    r = rng.random()
    if depth > 0 and r < 0.2:
        return [rng.choice(['and', 'or']), gen_cond(rng, cols, depth - 1, consts), gen_cond(rng, cols, depth - 1, consts)]
    if r < 0.5:
        # not a 0/1 indicator: a code column, a difference of columns, a scaled or shifted column (values 2, -3, 0.5, 1e-9 ...):
        # every row with a NON-ZERO value, however small, is removed and counted once
        k = rng.random()
        if k < 0.3:
            return ['var', rng.choice(cols)]
        if k < 0.55:
            return ['sub', ['var', rng.choice(cols)], ['var', rng.choice(cols)]]
        if k < 0.75:
            return ['mul', ['var', rng.choice(cols)], ['num', f2b(rng.choice([2.0, -3.0, 0.5, -0.125]))]]
        if k < 0.9:
            return ['sub', ['var', rng.choice(cols)], gen_num(rng, consts)]
        return gen_arith(rng, cols, 2, consts)
    return [rng.choice(['eq', 'ne', 'lt', 'le', 'gt', 'ge']), gen_arith(rng, cols, 1, consts), gen_arith(rng, cols, 1, consts) if rng.random() < 0.5 else gen_num(rng, consts)]


# ============================================================================ values of different magnitudes

# identifiers / amounts whose neighbours differ by ONE unit (relative distance 1e-5 .. 1e-15) — all exact doubles and exact int64
BIG_BASES = [100000.0, 4210017.0, 99999990.0, 123456789.0, float(2**40), 1.0e15]
# centres of clusters of nearly equal floats
NEAR_BASES = [0.0, 2.5, 1.0, -3.75, 7.25, 100000.5, -1.0e6, 1.0e-9, 0.1]


def neighbours(v):
    """values next to v that are NOT v: adjacent doubles, absolute steps 1e-12 / 1e-9, relative steps 1e-9 / 1e-6, one unit, the
    truncated / rounded value, the opposite.  (Only compared, never used in arithmetic: denormals next to 0 are harmless.)"""
    v = float(v)
    out = [math.nextafter(v, math.inf), math.nextafter(v, -math.inf), v + 1e-12, v - 1e-12, v + 1e-9, v - 1e-9,
           v * (1 + 1e-9), v * (1 - 1e-9), v * (1 + 1e-6), v * (1 - 1e-6), v + 1.0, v - 1.0, v + 0.5, -v,
           float(math.trunc(v)), float(round(v)), float(round(v, 6))]
    seen, res = {f2b(v)}, []
    for w in out:
        if math.isfinite(w) and f2b(w) not in seen and w != v:
            seen.add(f2b(w))
            res.append(w)
    return res


def cluster(rng, base):
    """a few nearly equal normal doubles around base (no denormals: the values also go through arithmetic)"""
    if base == 0.0:
        c = [0.0, 1e-9, -1e-9, 1e-12, 1e-20]
    else:
        c = [base, math.nextafter(base, math.inf), math.nextafter(base, -math.inf), base + 1e-9 * max(1.0, abs(base)) * rng.choice([1, 1e-3]),
             base * (1 + 1e-6), base * (1 - 1e-9), base + 1e-12]
    c = list(dict.fromkeys(c))
    return rng.sample(c, rng.randint(2, min(4, len(c))))


def table_consts(table, rng, k=8):
    """constants for formulas / count values taken from the table: values that occur and values next to them"""
    vals = sorted({v for r in table['rows'] for v in r})
    if not vals:
        return []
    pick = rng.sample(vals, min(k, len(vals)))
    out = list(pick)
    for v in pick[:4]:
        nb = neighbours(v)
        out += rng.sample(nb, min(2, len(nb)))
    return [v for v in out if v == 0.0 or abs(v) > 1e-300]


# ============================================================================ tables and sequences


def gen_table(rng, panelable=None, dup=False, wide=None):
    """wide: columns of different magnitudes — identifiers / amounts of 6-16 digits whose neighbours differ by one unit, clusters
    of nearly equal floats (adjacent doubles, 1e-12 .. 1e-6 apart), next to the small dyadic / integer columns; the id column too"""
    n = rng.choice([1, 2, 3, 4, 5, 6, 7, 8, 9, 10, 12, 14])
    ncol = rng.randint(2, 5)
    cols = ['id'] + rng.sample([c for c in COLS if c != 'id'], ncol - 1)
    rng.shuffle(cols)
    if wide is None:
        wide = rng.random() < 0.3
    # id column: a few individuals
    nid = rng.randint(1, max(1, min(5, n)))
    id_int = True
    idk = rng.random() if wide else 1.0
    if idk < 0.45:
        base = rng.choice(BIG_BASES)
        idvals = [base + o for o in rng.sample(range(0, 7), nid)]   # neighbours one unit apart, not ascending
    elif idk < 0.7:
        pool = list(dict.fromkeys(cluster(rng, rng.choice(NEAR_BASES)) + cluster(rng, rng.choice(NEAR_BASES)) + [3.0, 8.0]))
        idvals = rng.sample(pool, min(nid, len(pool)))
        nid = len(idvals)
        id_int = False
    else:
        idvals = rng.sample([1, 2, 3, 5, 8, 13, 4], nid)
    if panelable is None:
        panelable = rng.random() < 0.7
    if panelable:
        cutpoints = sorted(rng.sample(range(1, n), nid - 1)) if nid > 1 else []
        ids, prev = [], 0
        for i, c in enumerate(cutpoints + [n]):
            ids += [idvals[i]] * (c - prev)
            prev = c
    else:
        ids = [rng.choice(idvals) for _ in range(n)]
    # kind of every other column
    kinds = {}
    for c in cols:
        if c == 'id':
            continue
        k = rng.random()
        if not wide:
            kinds[c] = ('int',) if k < 0.25 else ('dyadic',)
        elif k < 0.15:
            kinds[c] = ('int',)
        elif k < 0.4:
            kinds[c] = ('dyadic',)
        elif k < 0.7:
            kinds[c] = ('big', rng.choice(BIG_BASES), rng.choice([2, 3, 5]), rng.random() < 0.5)
        else:
            kinds[c] = ('near', cluster(rng, rng.choice(NEAR_BASES)) + (cluster(rng, rng.choice(NEAR_BASES)) if rng.random() < 0.4 else []))
    int_cols = [c for c in cols if (c == 'id' and id_int) or (c != 'id' and (kinds[c][0] == 'int' or (kinds[c][0] == 'big' and kinds[c][3])))]
    rows = []
    for i in range(n):
        row = []
        for c in cols:
            if c == 'id':
                row.append(float(ids[i]))
            elif kinds[c][0] == 'int':
                row.append(float(rng.randint(-4, 6)))
            elif kinds[c][0] == 'dyadic':
                row.append(rng.randint(-40, 40) / 8.0)
            elif kinds[c][0] == 'big':
                row.append(kinds[c][1] + float(rng.randint(0, kinds[c][2])))
            else:
                row.append(float(rng.choice(kinds[c][1])))
        rows.append(row)
    kind = rng.random()
    if dup:
        index = [rng.randint(0, max(0, n // 2 - 1)) for _ in range(n)] if n > 1 else [0]
    elif kind < 0.35:
        index = list(range(n))
    elif kind < 0.7:
        index = sorted(rng.sample(range(3 * n + 2), n))
    else:
        index = rng.sample(range(-3, 3 * n + 2), n)
    return {'cols': cols, 'index': index, 'rows': rows, 'int_cols': int_cols, 'panelable': bool(panelable), 'wide': bool(wide)}


def gen_ops(rng, table, allow_known=False):
    cols = list(table['cols'])
    n_ops = rng.randint(1, 8)
    ops = []
    panel = False
    new_names = ['n1', 'b2', 'b10', 'new col', 'zz']
    consts = table_consts(table, rng)
    scales = [0.5, 2.0, -1.0, 0.25, 0.0, 8.0, 1.0] + ([1e-3, 1e6, 1.0 + 2.0**-20] if table.get('wide') else [])
    for _ in range(n_ops):
        if rng.random() < 0.1:
            # the helpers of tools/database.py and the small extraction / size functions, on the table as it is at that moment
            ops.append(gen_tool_op(rng, cols))
            if ops[-1][0] == 'mdcev_count' and ops[-1][2] not in cols and all(c in cols for c in ops[-1][1]):
                cols.append(ops[-1][2])
            continue
        r = rng.random()
        data_cols = [c for c in cols]
        if r < 0.17 and (allow_known or not panel):
            ops.append(['remove', gen_cond(rng, data_cols, 2, consts)])
        elif r < 0.31:
            name = rng.choice([x for x in new_names if x not in cols] or ['q' + str(len(cols))])
            ops.append([rng.choice(['add_column', 'define_variable']), name, gen_arith(rng, data_cols, 2, consts) if rng.random() < 0.7 else gen_cond(rng, data_cols, 1, consts)])
            cols.append(name)
        elif r < 0.34:
            ops.append(['add_column', rng.choice(cols), gen_arith(rng, data_cols, 1, consts)])  # existing name: ValueError
        elif r < 0.45:
            ops.append(['scale', rng.choice([c for c in cols if c != 'id'] or cols), f2b(rng.choice(scales))])
        elif r < 0.55:
            if not (allow_known or table.get('panelable')):
                continue   # a refused panel() is the shape of a listed finding: dedicated stream only
            ops.append(['panel', 'id'])
            panel = True
        elif r < 0.66:
            ops.append(['split', rng.choice([2, 2, 3, 4, 5, 9]), rng.choice([None, None, 'id'])])
        elif r < 0.73:
            ops.append(['sample', rng.choice([None, None, 1, 3, 20])])
        elif r < 0.78:
            ops.append(['sample_map', rng.choice([None, 2, 7])])
        elif r < 0.83:
            k = rng.randint(0, 4)
            ops.append(['extract', [rng.randint(-1 if rng.random() < 0.1 else 0, 13) for _ in range(k)]])
        elif r < 0.87:
            # a fixed value: small constants, values of the table as it was at the start, values next to them
            ops.append(['count', rng.choice(cols), gen_num(rng, consts)[1]])
        elif r < 0.90:
            # every value the column holds WHEN THE CALL IS MADE and the values next to them (resolved on the current state)
            ops.append(['counts', rng.choice(cols), rng.randint(0, 10**6)])
        elif r < 0.95:
            ops.append(['flatten', rng.choice([None, None, ['id']])] + ([True] if rng.random() < 0.2 else []))
        elif r < 0.98:
            ops.append(['values', gen_arith(rng, data_cols, 2, consts)])
        else:
            ops.append(['groups', rng.choice(cols)])
    return ops


def gen_tool_op(rng, cols, merge=None):
    """a DIRECT call of biogeme.tools.database.flatten_database on the current frame (any merge column — the rows of a group need
    not be consecutive —, row_name / identical_columns at their defaults and given, rarely an unknown name), mdcev_row_split
    (default = all rows, a range, rarely a position outside), the size functions or mdcev_count"""
    r = rng.random()
    if r < 0.6:
        k = rng.random()
        m = merge if (merge and k < 0.7) else ('id' if k < 0.7 and 'id' in cols else ('nope' if k > 0.96 else rng.choice(cols)))
        k = rng.random()
        rn = None if k < 0.6 else ('nope' if k > 0.97 else rng.choice(cols))
        k = rng.random()
        if k < 0.5:
            ident = None
        elif k < 0.6:
            ident = []
        elif k < 0.96:
            ident = rng.sample(cols, rng.randint(1, len(cols)))
        else:
            ident = ['nope']
        return ['flatten_direct', m, rn, ident]
    if r < 0.78:
        k = rng.random()
        if k < 0.4:
            return ['row_split', None]
        return ['row_split', [rng.randint(-1 if rng.random() < 0.1 else 0, 13 if rng.random() < 0.3 else 3) for _ in range(rng.randint(0, 4))]]
    if r < 0.88:
        return ['sizes']
    # mdcev_count: listed columns (a column may be listed twice; rarely an unknown name), result in a new column or over an existing one
    listed = [rng.choice(cols) for _ in range(rng.randint(1, 3))] + (['nope'] if rng.random() < 0.06 else [])
    fresh = [x for x in ['n1', 'b2', 'b10', 'new col', 'zz', 'cnt'] if x not in cols]
    others = [c for c in cols if c != 'id']
    name = rng.choice(fresh) if (fresh and (rng.random() < 0.7 or not others)) else rng.choice(others or ['cnt2'])
    return ['mdcev_count', listed, name]


def gen_flat_table(rng):
    """tables for the direct flattening: individuals whose rows are stored wave by wave (1,2,3,1,2,3), with one late row
    (1,1,2,2,1), in random order or consecutively; unbalanced; labels that are not positions (gaps, shuffled, duplicates);
    columns: `z` constant within an individual, `a` varying, `w` the number of the observation (usable as row_name), `x10` constant
    within an individual except on its LAST stored row (sometimes), `x2` equal on the first and last row but not in between
    (sometimes), `id` not ascending"""
    nid = rng.randint(1, 5)
    idvals = rng.sample([1, 2, 3, 5, 8, 13, 4, 100001, 100002], nid)
    sizes = [rng.randint(1, 4) for _ in idvals]
    if rng.random() < 0.4:
        sizes = [max(sizes)] * nid
    layout = rng.choice(['waves', 'waves', 'late', 'late', 'random', 'contiguous'])
    recs = [(i, k) for i, n in zip(idvals, sizes) for k in range(n)]
    if layout == 'waves':
        recs.sort(key=lambda p: p[1])           # stable: wave by wave, individuals in the order of idvals
    elif layout == 'late':
        late = [p for p in recs if p[1] == sizes[idvals.index(p[0])] - 1 and p[1] > 0]
        late = rng.sample(late, rng.randint(1, len(late))) if late else []
        recs = [p for p in recs if p not in late] + late
    elif layout == 'random':
        rng.shuffle(recs)
        cnt, renum = {}, []
        for i, _ in recs:                        # the observations of an individual are numbered in the order they are stored
            renum.append((i, cnt.get(i, 0)))
            cnt[i] = cnt.get(i, 0) + 1
        recs = renum
    cols = ['id'] + rng.sample(['z', 'a', 'w', 'x10', 'x2'], rng.randint(1, 5))
    rng.shuffle(cols)
    zval = {i: float(rng.randint(-2, 3)) for i in idvals}
    xval = {i: rng.randint(-8, 8) / 4.0 for i in idvals}
    dev10, dev2 = rng.random() < 0.6, rng.random() < 0.6
    rows = []
    for i, k in recs:
        n = sizes[idvals.index(i)]
        row = []
        for c in cols:
            if c == 'id':
                row.append(float(i))
            elif c == 'z':
                row.append(zval[i])
            elif c == 'a':
                row.append(rng.randint(-40, 40) / 8.0)
            elif c == 'w':
                row.append(float(k + 1) if rng.random() < 0.9 else float(rng.randint(1, 3)))
            elif c == 'x10':
                row.append(xval[i] + (1.0 if dev10 and n > 1 and k == n - 1 else 0.0))
            else:
                row.append(xval[i] + (0.5 if dev2 and 0 < k < n - 1 else 0.0))
        rows.append(row)
    n = len(rows)
    kind = rng.random()
    if kind < 0.3:
        index = list(range(n))
    elif kind < 0.55:
        index = sorted(rng.sample(range(3 * n + 2), n))
    elif kind < 0.85:
        index = rng.sample(range(-3, 3 * n + 2), n)
    else:
        index = [rng.randint(0, max(0, n // 2)) for _ in range(n)]
    ids = [r[cols.index('id')] for r in rows]
    panelable = sum(1 for p in range(n) if p == 0 or ids[p] != ids[p - 1]) == len(set(ids))
    return {'cols': cols, 'index': index, 'rows': rows, 'int_cols': [c for c in cols if c in ('id', 'w') and rng.random() < 0.7],
            'panelable': panelable, 'wide': False, 'layout': layout}


def parse_flat(flat, cols, by_value):
    """the cells of a real flat table, by individual and by `kind|key|column` (c = column kept once, p = <k>_<column>, v =
    <value of row_name>_<column>); the names that cannot be read that way are returned too"""
    keys, bad = [], []
    for n in [str(c) for c in flat.columns]:
        if n in cols:
            keys.append('c|None|' + n)
            continue
        pre, _, c = n.partition('_')
        try:
            k = 'v|%d|%s' % (f2b(float(pre)), c) if by_value else 'p|%d|%s' % (int(pre), c)
        except ValueError:
            k = None
        if k is None or c not in cols:
            bad.append(n)
            k = None
        keys.append(k)
    out = {}
    mat = flat.to_numpy(dtype=float).tolist() if len(flat.columns) else [[] for _ in range(len(flat))]
    for i, row in zip(flat.index.tolist(), mat):
        cells = out.setdefault(f2b(float(i)), {})
        for k, v in zip(keys, row):
            if k is not None and not math.isnan(v):
                cells[k] = f2b(v)
    return out, bad


def flat_oracle(state, merge, row_name, identical):
    """from the statement (flattening returns what the table implies) and the docstring of flatten_database: per individual
    (= all rows holding its id, wherever they are), a column that is the same on all rows of EVERY individual (or that the caller
    declared so) is kept once with the value of the individual's first row; every other cell of its k-th row (table order) is
    `<k>_<column>` / `<entry of row_name>_<column>`.  Returns (expected cells, the call is valid)."""
    cols = state['cols']
    j = cols.index(merge)
    rows = [r[1] for r in state['rows']]
    groups = {}
    for r in rows:
        groups.setdefault(r[j], []).append(r)
    if identical is None:
        ident = {c for ci, c in enumerate(cols) if all(len({r[ci] for r in g}) == 1 for g in groups.values())}
    else:
        ident = set(identical) | {merge}
    q = None if row_name is None else cols.index(row_name)
    exp = {}
    for i, g in groups.items():
        cells = {'c|None|' + c: g[0][ci] for ci, c in enumerate(cols) if c in ident and c != merge}
        for k, r in enumerate(g):
            key = 'p|%d|' % (k + 1) if q is None else 'v|%d|' % r[q]
            for ci, c in enumerate(cols):
                if c not in ident and c != merge and c != row_name:
                    cells[key + c] = r[ci]
        exp[i] = cells
    unique = q is None or all(len({r[q] for r in g}) == len(g) for g in groups.values())
    valid = q is None or ((row_name == merge or row_name not in ident) and unique)
    return exp, (valid if unique or not (row_name == merge or row_name not in ident) else 'overwrites')


def count_values(col_bits, salt):
    """the values asked by a `counts` step: every distinct value of the column (first 10), the neighbours of some of them
    (deterministic choice from `salt`), values the column does not hold"""
    import random

    r = random.Random(salt)
    present = list(dict.fromkeys(col_bits))
    vals = [b2f(b) for b in present[:10]]
    out = list(vals)
    for v in (r.sample(vals, min(4, len(vals))) if vals else []):
        nb = neighbours(v)
        out += r.sample(nb, min(6, len(nb)))
    out += [0.0, 1.0, -0.5, (max(vals) + 1.0) if vals else 2.0, (min(vals) - 1.0) if vals else -2.0]
    seen, res = set(), []
    for w in out:
        if f2b(w) not in seen:
            seen.add(f2b(w))
            res.append(w)
    return res


def gen_case(rng, allow_known=False):
    t = gen_table(rng, dup=rng.random() < 0.15)   # duplicate labels (pd.concat of frames) also in the main stream
    return {'kind': 'ops', 'table': t, 'ops': gen_ops(rng, t, allow_known), 'np_seed': rng.randint(0, 2**31 - 1)}


# ============================================================================ real objects


def build_db(table):
    import pandas as pd
    import biogeme.database as db

    data = {}
    for j, c in enumerate(table['cols']):
        col = [r[j] for r in table['rows']]
        data[c] = np.array(col, dtype='int64') if c in table['int_cols'] else np.array(col, dtype='float64')
    df = pd.DataFrame(data, index=list(table['index']), columns=list(table['cols']))
    return db.Database('t', df)


def frame_rows(df):
    vals = df.to_numpy(dtype=float).tolist() if len(df.columns) else [[] for _ in range(len(df))]
    return [[int(l), [f2b(float(v)) for v in row]] for l, row in zip(df.index.tolist(), vals)]


def capture(d):
    m = None
    if d.individualMap is not None:
        m = [[f2b(float(i)), int(r[0]), int(r[1])] for i, r in zip(d.individualMap.index.tolist(), d.individualMap.to_numpy().tolist())]
    return {
        'cols': [str(c) for c in d.data.columns],
        'rows': frame_rows(d.data),
        'excluded': int(d.excludedData),
        'panel': d.panelColumn,
        'map': m,
        'variables': sorted(str(k) for k in d.variables),
    }


def for_model(state):
    """the state handed to / compared with the model; `excluded` is a natural number in the model: whatever the
    code reports is judged by the oracle (count of the rows with a non-zero condition) and clipped here"""
    m = {k: state[k] for k in ('cols', 'rows', 'excluded', 'panel', 'map')}
    m['excluded'] = max(0, int(state['excluded']))
    return m


def outcome(fn):
    try:
        return ('ok', fn())
    except Exception as e:  # noqa: BLE001
        return ('err', core.exc_kind(e))


def row_dicts(state):
    return [dict(zip(state['cols'], [b2f(v) for v in r[1]])) for r in state['rows']]


def canon_within(state):
    """rows sorted within each run of the panel column (the order inside an individual is checked separately)"""
    if state['panel'] is None or state['panel'] not in state['cols']:
        return state['rows']
    j = state['cols'].index(state['panel'])
    out, i = [], 0
    rows = state['rows']
    while i < len(rows):
        k = i
        while k < len(rows) and rows[k][1][j] == rows[i][1][j]:
            k += 1
        vals = sorted(r[1] for r in rows[i:k])
        out += [[rows[i + t][0], vals[t]] for t in range(k - i)]
        i = k
    return out


def map_consistent(state):
    """oracle: the individual map lists every individual of the data once with the positions of its rows"""
    if state['panel'] is None:
        return state['map'] is None
    if state['map'] is None or state['panel'] not in state['cols']:
        return False
    j = state['cols'].index(state['panel'])
    ids = [r[1][j] for r in state['rows']]
    exp = []
    for p, v in enumerate(ids):
        if exp and exp[-1][0] == v and exp[-1][2] == p - 1:
            exp[-1][2] = p
        else:
            exp.append([v, p, p])
    return exp == state['map'] and len({e[0] for e in exp}) == len(exp)


# ============================================================================ one case


def badd(ctx, res, req, cb, info):
    """queue a model question; a driver error or an exception inside the comparison is a divergence, never a crash"""

    def guarded(ans):
        try:
            if isinstance(ans, dict) and 'error' in ans:
                res.diverge(f'the model driver refused the request ({ans["error"]})', info, ans, _brief(req))
                return
            cb(ans)
        except Exception as e:  # noqa: BLE001
            res.diverge(f'comparison with the model failed: {type(e).__name__}: {str(e)[:150]}', info, _brief(ans), _brief(req))

    ctx.batch.add(req, guarded)



def run_ops_case(ctx, res, case):
    np.random.seed(case['np_seed'])
    known_dup = len(set(case['table']['index'])) != len(case['table']['index'])
    with core.scratch():
        try:
            d = build_db(case['table'])
        except Exception as e:  # noqa: BLE001
            res.notes.append(f'table refused by Database(): {type(e).__name__}')
            return
        state = capture(d)
        nontrivial = False
        for step, op in enumerate(case['ops']):
            before = state
            info = {'kind': 'ops', 'table': case['table'], 'ops': case['ops'][: step + 1], 'np_seed': case['np_seed'], 'step': step}
            res.tally('op:' + op[0])
            labels = [r[0] for r in before['rows']]
            unique = len(set(labels)) == len(labels)
            rd = row_dicts(before)
            vars_ok = lambda fm: all(v in before['cols'] for v in _vars(fm))  # noqa: E731
            # a formula that reads the missing-data code 99999 is never handed to the engine in this process (listed engine finding
            # F-E9: the refusal corrupts the heap; F-E2: every later evaluation is refused too) — decided on the INPUT of the call
            fm_engine = op[1] if op[0] in ('remove', 'values') else (op[2] if op[0] in ('add_column', 'define_variable') and op[1] not in before['cols'] else None)
            if fm_engine is not None and reads_code(before['cols'], [[b2f(v) for v in r[1]] for r in before['rows']], fm_engine):
                res.tally('skipped: the formula reads the missing-data code 99999 (engine refusal, F-E9)')
                continue
            # ------------------------------------------------------------------ state-changing operations
            if op[0] == 'mdcev_count' and (not before['rows'] or op[2] == before['panel']):
                res.tally('mdcev_count skipped (emptied table / target is the panel column)')
                continue
            if op[0] in ('remove', 'add_column', 'define_variable', 'scale', 'panel', 'mdcev_count'):
                if (op[0] == 'scale' and op[1] not in before['cols']) or (op[0] == 'panel' and op[1] not in before['cols']):
                    res.tally('skipped: column absent')
                    continue
                if op[0] == 'remove':
                    call = ['remove', op[1]]
                    o = outcome(lambda: d.remove(to_expr(op[1])))
                elif op[0] in ('add_column', 'define_variable'):
                    call = ['add_column', op[1], op[2]]
                    if op[0] == 'add_column':
                        o = outcome(lambda: d.add_column(to_expr(op[2]), op[1]))
                    else:
                        o = outcome(lambda: d.define_variable(op[1], to_expr(op[2])))
                elif op[0] == 'mdcev_count':
                    call = ['mdcev_count', op[1], op[2]]
                    o = outcome(lambda: d.mdcev_count(list(op[1]), op[2]))
                elif op[0] == 'scale':
                    call = ['scale', op[1], op[2]]
                    o = outcome(lambda: d.scale_column(op[1], b2f(op[2])))
                else:
                    call = ['panel', op[1]]
                    o = outcome(lambda: d.panel(op[1]))
                after = capture(d)
                state = after
                if len(set(r[0] for r in after['rows'])) == len(after['rows']) and ([r[0] for r in after['rows']] != list(range(len(after['rows']))) or after['panel']):
                    nontrivial = True
                # ---- oracle (from the property statement)
                why, where = None, ''
                if o[0] == 'ok':
                    if op[0] == 'remove':
                        vals = [py_eval(op[1], r) for r in rd]
                        keep = [r for r, v in zip(before['rows'], vals) if v == 0]
                        nrem = sum(1 for v in vals if v != 0)
                        if before['panel'] is None:
                            if after['rows'] != keep:
                                why, where = f'remove kept {len(after["rows"])} rows; the condition is zero on {len(keep)} rows', (W_DUP if not unique else 'Database.remove')
                        else:
                            if sorted(r[1] for r in after['rows']) != sorted(r[1] for r in keep):
                                why, where = 'remove on a panel did not keep exactly the rows whose condition is zero', 'Database.remove'
                            elif not map_consistent(after):
                                why, where = 'after remove the individual map does not describe the data any more', W_PANEL_REMOVE
                        if after['excluded'] != nrem:
                            # judged on its own, whatever else happened: the number reported = the number of rows with a non-zero condition
                            res.violate(f'step {step} remove: excludedData = {after["excluded"]}, but the condition is non-zero on {nrem} of the {len(vals)} rows '
                                        f'(values of the condition: {sorted(set(vals))[:8]})', info, after['excluded'], nrem, where='Database.remove: excludedData')
                        if why is None and (after['cols'] != before['cols']):
                            why, where = 'remove changed the columns', 'Database.remove'
                    elif op[0] in ('add_column', 'define_variable'):
                        vals = [f2b(py_eval(op[2], r)) for r in rd]
                        exp = [[r[0], r[1] + [v]] for r, v in zip(before['rows'], vals)]
                        if after['rows'] != exp or after['cols'] != before['cols'] + [op[1]]:
                            why, where = 'add_column did not store the value of the formula on every row next to the unchanged columns', 'Database.add_column'
                    elif op[0] == 'mdcev_count':
                        # for every row the number of listed columns with a non-zero entry, in the named column; nothing else changes
                        if not all(c in before['cols'] for c in op[1]):
                            why, where = 'mdcev_count accepted a column that does not exist', 'Database.mdcev_count'
                        else:
                            cnt = [f2b(float(sum(1 for c in op[1] if r[c] != 0))) for r in rd]
                            if op[2] in before['cols']:
                                k = before['cols'].index(op[2])
                                exp = [[r[0], [v if i != k else n for i, v in enumerate(r[1])]] for r, n in zip(before['rows'], cnt)]
                                ecols = before['cols']
                            else:
                                exp = [[r[0], r[1] + [n]] for r, n in zip(before['rows'], cnt)]
                                ecols = before['cols'] + [op[2]]
                            if after['rows'] != exp or after['cols'] != ecols:
                                why, where = 'mdcev_count did not store the number of non-zero listed entries of every row next to the unchanged columns', 'Database.mdcev_count'
                    elif op[0] == 'scale':
                        j = before['cols'].index(op[1])
                        s = b2f(op[2])
                        exp = [[r[0], [f2b(b2f(v) * s) if i == j else v for i, v in enumerate(r[1])]] for r in before['rows']]
                        if after['rows'] != exp or after['cols'] != before['cols']:
                            why, where = 'scale_column did not multiply exactly one column', 'Database.scale_column'
                    elif op[0] == 'panel':
                        j = before['cols'].index(op[1])
                        if sorted(r[1] for r in after['rows']) != sorted(r[1] for r in before['rows']):
                            why, where = 'panel() changed the rows', 'Database.panel'
                        elif not map_consistent(after) or [r[0] for r in after['rows']] != list(range(len(after['rows']))):
                            why, where = 'after panel() the individual map does not describe the data', 'Database.panel'
                        else:
                            # the observations of an individual keep their order
                            for v in {r[1][j] for r in before['rows']}:
                                if [r[1] for r in before['rows'] if r[1][j] == v] != [r[1] for r in after['rows'] if r[1][j] == v]:
                                    why, where = 'panel() changed the order of the observations of an individual', W_PANEL_ORDER
                                    break
                    if why is None and op[0] != 'panel' and before['panel'] is not None and after['map'] != before['map'] and op[0] != 'remove':
                        why, where = 'the individual map changed', 'Database'
                else:
                    # a refused call must leave the object as it was
                    if {k: after[k] for k in ('cols', 'rows', 'excluded', 'map')} != {k: before[k] for k in ('cols', 'rows', 'excluded', 'map')}:
                        why, where = f'a refused call ({o[1]}) changed the data', 'Database'
                    elif after['panel'] != before['panel']:
                        why, where = f'a refused panel() call ({o[1]}) left panelColumn = {after["panel"]!r}', W_PANEL_FAIL
                        d.panelColumn = before['panel']  # continue the sequence from a consistent object
                        state = capture(d)
                        after = state
                if why:
                    res.violate(f'step {step} {op[0]}: {why}', info, {'after': _brief(after), 'outcome': o[1] if o[0] == 'err' else 'ok'}, 'see the statement of C13', where=where)
                if sorted(after['variables']) != sorted(after['cols']):
                    res.tally('variables dict differs from the columns (stale __bioRemove__)')
                # ---- model, from the real state before the step
                req = {'op': 'step', 'db': for_model(before), 'call': call}

                def cb(ans, before=before, after=after, o=o, op=op, info=info, unique=unique):
                    ans = unsign(ans)
                    for key in ('repaired', 'as_coded'):
                        st = ans.get(key, {}).get('ok')
                        if st is not None and st.get('panel') is None and st.get('map') == []:
                            st['map'] = None
                    m = ans.get('repaired', {})
                    if 'err' in m:
                        if o[0] != 'err' or o[1] != m['err']:
                            res.diverge(f'step {info["step"]} {op[0]}: outcome', info, m, o[1] if o[0] == 'err' else 'ok')
                        return
                    if o[0] == 'err':
                        res.diverge(f'step {info["step"]} {op[0]}: outcome', info, 'ok', o[1])
                        return
                    ms = m['ok']
                    real = for_model(after)
                    if ms == real:
                        return
                    where = ''
                    if op[0] == 'remove':
                        ac = ans.get('as_coded', {}).get('ok')
                        if ac is not None and ac == real:
                            where = W_DUP if not unique else (W_PANEL_REMOVE if before['panel'] is not None else '')
                    if op[0] == 'panel':
                        a2, m2 = dict(real), dict(ms)
                        a2['rows'], m2['rows'] = canon_within(real), canon_within(ms)
                        if a2 == m2:
                            where = W_PANEL_ORDER
                    res.diverge(f'step {info["step"]} {op[0]}: state after the call', info, _brief(ms), _brief(real), where=where)

                badd(ctx, res, req, cb, info)
                continue
            # ------------------------------------------------------------------ read-only operations
            if (op[0] in ('count', 'counts', 'groups') and op[1] not in before['cols']) or (op[0] == 'values' and not vars_ok(op[1])):
                res.tally('skipped: column absent')
                continue
            if op[0] == 'split':
                o = outcome(lambda: d.split(op[1], groups=op[2]))
                after = capture(d)
                if after != before:
                    res.violate(f'step {step} split changed the database', info, _brief(after), _brief(before), where='Database.split')
                if o[0] == 'err':
                    if op[1] >= 2 and not (op[2] is not None and before['panel'] not in (None, op[2])):
                        res.violate(f'step {step} split({op[1]}, {op[2]}) raised {o[1]}', info, o[1], 'folds', where='Database.split')
                    continue
                folds = [[ev.estimation.index.tolist(), ev.validation.index.tolist(), frame_rows(ev.estimation), frame_rows(ev.validation)] for ev in o[1]]
                gcol = op[2] if before['panel'] is None else before['panel']
                # oracle (rows as (label, values) pairs compared as multisets, so it is also right with duplicate labels):
                # k folds; validation parts = every row once; estimation = complement by position; groups together
                key = lambda rows: sorted(json.dumps(r) for r in rows)  # noqa: E731
                allrows = key(before['rows'])
                why = None
                if len(folds) != op[1]:
                    why = f'{len(folds)} folds for {op[1]} slices'
                elif key([r for f in folds for r in f[3]]) != allrows:
                    why = 'the validation parts do not contain every row exactly once'
                else:
                    for fi, f in enumerate(folds):
                        if key(f[2] + f[3]) != allrows:
                            why = (f'fold {fi}: estimation part ({len(f[2])} rows) + validation part ({len(f[3])} rows) is not the whole table '
                                   f'({len(before["rows"])} rows): the estimation part is not the complement of the validation part')
                            break
                    if why is None and gcol is not None:
                        j = before['cols'].index(gcol)
                        for f in folds:
                            vs = {r[1][j] for r in f[3]}
                            if any(r[1][j] in vs for r in f[2]):
                                why = 'rows of one group are separated'
                                break
                if why:
                    res.violate(f'step {step} split({op[1]}, groups={gcol}): {why}', info, [f[:2] for f in folds], 'a partition into folds', where='Database.split')
                groups = None if gcol is None else [[r[0], r[1][before['cols'].index(gcol)]] for r in before['rows']]
                req = {'op': 'folds', 'all': labels, 'k': op[1], 'folds': [[f[0], f[1]] for f in folds], 'groups': groups}

                def cb(ans, info=info, folds=folds, gcol=gcol, op=op, unique=unique):
                    # (the label-based groupsUnsplit relation needs pairwise different labels; with duplicates the oracle above decides on the values)
                    if ans.get('partition') is not True or (gcol is not None and unique and ans.get('unsplit') is not True) or (gcol is None and ans.get('sizes') is not True):
                        res.diverge(f'step {info["step"]} split: relation IsFoldPartition / groupsUnsplit / sizes on the real folds', info, ans, [f[:2] for f in folds])

                badd(ctx, res, req, cb, info)
                res.traces_validated += 1
            elif op[0] in ('sample', 'sample_map'):
                if op[0] == 'sample':
                    o = outcome(lambda: d.sample_with_replacement(op[1]))
                else:
                    o = outcome(lambda: d.sample_individual_map_with_replacement(op[1]))
                after = capture(d)
                if after != before:
                    res.violate(f'step {step} {op[0]} changed the database', info, _brief(after), _brief(before), where='Database.sample')
                if o[0] == 'err':
                    if not (op[0] == 'sample_map' and before['panel'] is None) and before['rows']:
                        res.violate(f'step {step} {op[0]} raised {o[1]}', info, o[1], 'a sample', where='Database.sample')
                    continue
                if op[0] == 'sample':
                    sample = frame_rows(o[1])
                    size = len(before['rows']) if op[1] is None else op[1]
                    pool = before['rows']
                    if len(sample) != size or any(s not in pool for s in sample):
                        res.violate(f'step {step} sample_with_replacement: size {len(sample)} (asked {size}) or a row that is not in the table', info, sample[:3], 'rows of the table', where='Database.sample_with_replacement')
                    badd(ctx, res, {'op': 'bootstrap', 'rows': pool, 'sample': sample},
                                  lambda a, info=info: None if a.get('ok') is True else res.diverge(f'step {info["step"]} relation IsBootstrapOf on the real sample', info, a, ''), info)
                else:
                    sample = [[f2b(float(i)), int(r[0]), int(r[1])] for i, r in zip(o[1].index.tolist(), o[1].to_numpy().tolist())]
                    size = len(before['map'] or []) if op[1] is None else op[1]
                    j = before['cols'].index(before['panel'])
                    bad = None
                    for (i, s, e) in sample:
                        pos = [p for p, r in enumerate(before['rows']) if r[1][j] == i]
                        if not pos or pos != list(range(s, e + 1)):
                            bad = [i, s, e]
                    if len(sample) != size or bad:
                        res.violate(f'step {step} sample_individual_map_with_replacement returns {bad}: not an individual of the data with the positions of its rows', info, sample[:3],
                                    'existing individuals', where=W_PANEL_REMOVE if not map_consistent(before) else 'Database.sample_individual_map_with_replacement')
                res.traces_validated += 1
            elif op[0] == 'extract':
                o = outcome(lambda: d.extract_rows(op[1]))
                n = len(before['rows'])
                ok_range = all(0 <= i < n for i in op[1])
                if o[0] == 'ok':
                    got = frame_rows(o[1].data)
                    exp = [before['rows'][i] for i in op[1]] if ok_range else None
                    if got != exp:
                        res.violate(f'step {step} extract_rows({op[1]}) does not return the rows at these positions', info, got, exp, where='Database.extract_rows')
                elif ok_range and op[1]:
                    res.violate(f'step {step} extract_rows({op[1]}) raised {o[1]}', info, o[1], 'rows', where='Database.extract_rows')
                if not op[1]:
                    continue  # empty selection: Database() refuses an empty table
                badd(ctx, res, {'op': 'extract', 'db': for_model(before), 'pos': op[1]},
                              lambda a, o=o, info=info: None if ((('ok' in a) and o[0] == 'ok' and unsign(a['ok']) == frame_rows(o[1].data)) or (('err' in a) and o[0] == 'err' and a['err'] == o[1]))
                              else res.diverge(f'step {info["step"]} extract_rows', info, a, o[1] if o[0] == 'err' else frame_rows(o[1].data)), info)
            elif op[0] == 'count':
                o = outcome(lambda: int(d.count(op[1], b2f(op[2]))))
                j = before['cols'].index(op[1])
                exp = sum(1 for r in before['rows'] if b2f(r[1][j]) == b2f(op[2]))
                if o != ('ok', exp):
                    res.violate(f'step {step} count({op[1]}, {b2f(op[2])}) = {o[1]}', info, o[1], exp, where='Database.count')
                badd(ctx, res, {'op': 'count', 'db': for_model(before), 'col': op[1], 'value': op[2]},
                              lambda a, o=o, info=info: None if a.get('ok') == o[1] else res.diverge(f'step {info["step"]} count', info, a, o[1]), info)
            elif op[0] == 'counts':
                # count returns the number of rows that HOLD the value: asked for every value of the column and for values next to
                # them (adjacent doubles, 1e-12 .. 1e-6 away, one unit away, truncated / rounded), which it must not count
                j = before['cols'].index(op[1])
                colbits = [r[1][j] for r in before['rows']]
                colvals = [b2f(b) for b in colbits]
                asked = count_values(colbits, op[2])
                got = []
                for w in asked:
                    o = outcome(lambda w=w: int(d.count(op[1], w)))
                    exp = sum(1 for v in colvals if v == w)
                    got.append(o[1])
                    if o != ('ok', exp):
                        near = sorted({v for v in colvals if v != w}, key=lambda v: abs(v - w))[:2]
                        res.violate(f'step {step} count({op[1]}, {w!r}) = {o[1]}: the column holds that value on {exp} of its {len(colvals)} rows'
                                    f' (nearest other values: {near})', dict(info, value=w), o[1], exp, where='Database.count')
                        break
                else:
                    distinct = [b2f(b) for b in dict.fromkeys(colbits)]
                    if len(distinct) <= 10:
                        tot = sum(g for w, g in zip(asked, got) if any(w == v for v in distinct))
                        if tot != len(colvals):   # implied by the clause above; kept as the statement of C13.count_exact
                            res.violate(f'step {step} the counts of the distinct values of {op[1]} add up to {tot}, the table has {len(colvals)} rows', info, tot, len(colvals), where='Database.count')
                    badd(ctx, res, {'op': 'counts', 'db': for_model(before), 'col': op[1], 'values': [_f2b(w) for w in asked]},
                         lambda a, got=got, info=info, n=len(colvals): None if (a.get('ok') == got and a.get('total') == n)
                         else res.diverge(f'step {info["step"]} counts', info, a, got), info)
                res.tally('count values asked: %d' % (10 * (len(asked) // 10)))
            elif op[0] == 'flatten':
                save = len(op) > 2 and bool(op[2])   # save_on_file=True: the same table is returned (the file goes to the scratch directory)
                if save:
                    res.tally('flatten: save_on_file')
                o = outcome(lambda: d.generate_flat_panel_dataframe(save_on_file=save, identical_columns=op[1]))
                if before['panel'] is None:
                    if o[0] != 'err':
                        res.violate(f'step {step} flattening a non-panel database did not raise', info, 'ok', 'BiogemeError', where='Database.generate_flat_panel_dataframe')
                    continue
                if not before['rows']:
                    res.tally('flatten of an emptied table (any outcome accepted)')
                    continue
                if o[0] == 'err':
                    res.violate(f'step {step} generate_flat_panel_dataframe raised {o[1]}', info, o[1], 'flat table', where='Database.generate_flat_panel_dataframe')
                    continue
                flat = o[1]
                got = {}
                for i, row in zip(flat.index.tolist(), flat.to_numpy(dtype=float).tolist()):
                    got[f2b(float(i))] = {str(c): f2b(v) for c, v in zip(flat.columns, row) if not math.isnan(v)}
                # oracle: per individual, observation k = k-th row of that individual in the current table
                j = before['cols'].index(before['panel'])
                ident = set(op[1] or []) | {before['panel']}
                if op[1] is None:
                    ident = {c for ci, c in enumerate(before['cols']) if all(len({r[1][ci] for r in before['rows'] if r[1][j] == v}) == 1 for v in {r[1][j] for r in before['rows']})}
                exp = {}
                for v in {r[1][j] for r in before['rows']}:
                    mine = [r[1] for r in before['rows'] if r[1][j] == v]
                    cells = {c: mine[0][ci] for ci, c in enumerate(before['cols']) if c in ident and ci != j}
                    for k, r in enumerate(mine):
                        for ci, c in enumerate(before['cols']):
                            if c not in ident:
                                cells[f'{k + 1}_{c}'] = r[ci]
                    exp[v] = cells
                if got != exp:
                    res.violate(f'step {step} generate_flat_panel_dataframe differs from the observations of the table', info, _brief(got), _brief(exp), where='Database.generate_flat_panel_dataframe')
                badd(ctx, res, {'op': 'flatten', 'db': for_model(before), 'identical': op[1]},
                              lambda a, got=got, info=info: None if {x[0]: {n: v for n, v in x[1]} for x in unsign(a.get('ok', []))} == got
                              else res.diverge(f'step {info["step"]} flatten', info, _brief(a), _brief(got)), info)
            elif op[0] == 'values':
                o = outcome(lambda: [f2b(float(v)) for v in d.values_from_database(to_expr(op[1]))])
                exp = [f2b(py_eval(op[1], r)) for r in rd]
                if o[0] == 'ok' and o[1] != exp:
                    res.violate(f'step {step} values_from_database differs from the value of the formula on the rows', info, o[1], exp, where='Database.values_from_database')
                elif o[0] == 'err' and rd and vars_ok(op[1]):
                    res.violate(f'step {step} values_from_database raised {o[1]}', info, o[1], exp, where='Database.values_from_database')
                badd(ctx, res, {'op': 'eval', 'db': for_model(before), 'fm': op[1]},
                              lambda a, o=o, info=info: None if (unsign(a.get('ok')) == o[1] if o[0] == 'ok' else a.get('err') == o[1]) else res.diverge(f'step {info["step"]} values_from_database', info, a, o[1]), info)
            elif op[0] == 'flatten_direct':
                import biogeme.tools.database as tdb

                _, merge, rn, ident = op
                if not before['rows']:
                    res.tally('flatten_direct of an emptied table (any outcome accepted)')
                    continue
                o = outcome(lambda: tdb.flatten_database(d.data, merge, rn, None if ident is None else list(ident)))
                names_ok = merge in before['cols'] and (rn is None or rn in before['cols']) and (ident is None or all(c in before['cols'] for c in ident))
                res.tally('flatten_direct: row_name %s, identical %s' % ('default' if rn is None else 'given', 'default' if ident is None else 'given'))
                got = None
                if o[0] == 'ok':
                    flat = o[1]
                    got, bad = parse_flat(flat, before['cols'], rn is not None)
                    if bad or len(set(flat.index.tolist())) != len(flat.index):
                        res.violate(f'step {step} flatten_database({merge}, {rn}, {ident}): columns {bad[:4]} are no cells of the table / an individual has several flat rows',
                                    info, [str(c) for c in flat.columns][:12], 'one row per individual, columns <column> or <k>_<column>', where='tools.database.flatten_database')
                if names_ok and before['rows']:
                    exp, valid = flat_oracle(before, merge, rn, ident)
                    jm = before['cols'].index(merge)
                    ids = [r[1][jm] for r in before['rows']]
                    contiguous = sum(1 for p, v in enumerate(ids) if p == 0 or ids[p - 1] != v) == len(set(ids))
                    res.tally('flatten_direct: groups %s' % ('consecutive' if contiguous else 'NOT consecutive'))
                    if valid == 'overwrites':
                        # two rows of one individual carry the same entry of row_name: they cannot both be in the flat table
                        valid = False
                        if o[0] == 'ok':
                            res.violate(f'step {step} flatten_database({merge}, row_name={rn}, {ident}) returned a table although two rows of one individual carry the same '
                                        f'entry of {rn}: one observation overwrites the other', info, _brief(got), 'BiogemeError', where='tools.database.flatten_database')
                    if valid and o[0] == 'err':
                        res.violate(f'step {step} flatten_database({merge}, {rn}, {ident}) raised {o[1]}', info, o[1], 'flat table', where='tools.database.flatten_database')
                    elif valid and got != exp:
                        lost = [(i, k) for i in exp for k in exp[i] if got.get(i, {}).get(k) != exp[i][k]][:4]
                        res.violate(f'step {step} flatten_database({merge}, row_name={rn}, identical_columns={ident}) does not return the cells of the table '
                                    f'(groups {"consecutive" if contiguous else "not consecutive"}); first differences (individual, cell): '
                                    f'{[(b2f(i), k, "table: %r" % b2f(exp[i][k]), "flat: %r" % (b2f(got[i][k]) if k in got.get(i, {}) else None)) for i, k in lost]}',
                                    info, _brief(got), _brief(exp), where='tools.database.flatten_database')
                badd(ctx, res, {'op': 'flatten_direct', 'cols': before['cols'], 'rows': before['rows'], 'merge': merge, 'row_name': rn, 'identical': ident},
                     lambda a, o=o, got=got, info=info: None if ((o[0] == 'err' and a.get('err') == o[1]) or
                                                                 (o[0] == 'ok' and 'ok' in a and {x[0]: {'%s|%s|%s' % (c[0], c[1], c[2]): c[3] for c in x[1]} for x in unsign(a['ok'])} == got))
                     else res.diverge(f'step {info["step"]} flatten_database (direct call)', info, _brief(a), o[1] if o[0] == 'err' else _brief(got)), info)
            elif op[0] == 'row_split':
                rng_ = op[1]
                o = outcome(lambda: [frame_rows(x.data) for x in d.mdcev_row_split(None if rng_ is None else list(rng_))])
                n = len(before['rows'])
                pos = list(range(n)) if rng_ is None else rng_
                ok_range = all(0 <= i < n for i in pos)
                if o[0] == 'ok':
                    exp = [[before['rows'][i]] for i in pos] if ok_range else None
                    if o[1] != exp:
                        res.violate(f'step {step} mdcev_row_split({rng_}) does not return the rows at these positions, one by one', info, _brief(o[1]), _brief(exp), where='Database.mdcev_row_split')
                elif ok_range:
                    res.violate(f'step {step} mdcev_row_split({rng_}) raised {o[1]}', info, o[1], 'rows', where='Database.mdcev_row_split')
                badd(ctx, res, {'op': 'row_split', 'db': for_model(before), 'range': rng_},
                     lambda a, o=o, info=info: None if ((('ok' in a) and o[0] == 'ok' and unsign(a['ok']) == o[1]) or (('err' in a) and o[0] == 'err' and a['err'] == o[1]))
                     else res.diverge(f'step {info["step"]} mdcev_row_split', info, _brief(a), _brief(o[1])), info)
            elif op[0] == 'sizes':
                o = outcome(lambda: [int(d.get_number_of_observations()), int(d.get_sample_size())])
                n = len(before['rows'])
                if before['panel'] is None:
                    exp = [n, n]
                else:
                    jp = before['cols'].index(before['panel'])
                    exp = [n, len({r[1][jp] for r in before['rows']})]
                if o != ('ok', exp):
                    res.violate(f'step {step} get_number_of_observations / get_sample_size = {o[1]}: the table has {exp[0]} rows and {exp[1]} {"individuals" if before["panel"] else "rows"}',
                                info, o[1], exp, where='Database.get_sample_size')
                badd(ctx, res, {'op': 'sizes', 'db': for_model(before)},
                     lambda a, o=o, info=info: None if [a.get('n_obs'), a.get('sample_size')] == o[1] else res.diverge(f'step {info["step"]} sizes', info, a, o[1]), info)
            elif op[0] == 'groups':
                import biogeme.tools.database as tdb

                # on the frame itself, as Database.panel calls it (the temporary column must be gone afterwards: checked below)
                o = outcome(lambda: int(tdb.count_number_of_groups(d.data, op[1])))
                j = before['cols'].index(op[1])
                vals = [r[1][j] for r in before['rows']]
                exp = sum(1 for i, v in enumerate(vals) if i == 0 or vals[i - 1] != v)
                if o != ('ok', exp):
                    res.violate(f'step {step} count_number_of_groups = {o[1]}', info, o[1], exp, where='tools.database.count_number_of_groups')
                badd(ctx, res, {'op': 'groups', 'values': vals},
                              lambda a, o=o, info=info: None if a.get('runs') == o[1] else res.diverge(f'step {info["step"]} count_number_of_groups', info, a, o[1]), info)
            if capture(d) != before and op[0] not in ('split', 'sample', 'sample_map'):
                res.violate(f'step {step} {op[0]} (read-only) changed the database', info, _brief(capture(d)), _brief(before), where='Database')
    res.count({'table': case['table'], 'ops': case['ops']}, nontrivial=nontrivial)
    res.tally('len=%d' % len(case['ops']))
    if known_dup:
        res.tally('tables with duplicate labels')


def _vars(fm):
    if fm[0] == 'var':
        return [fm[1]]
    if fm[0] == 'num':
        return []
    return [v for x in fm[1:] for v in _vars(x)]


def _brief(x):
    s = json.dumps(x, default=str)
    return x if len(s) < 1500 else s[:1500] + '…'


# ============================================================================ model self-check of the relations (split model, every shuffle)


def check_split_model(ctx, res, rng, n_cases):
    for _ in range(n_cases):
        t = gen_table(rng)
        rows = [[l, [f2b(v) for v in r]] for l, r in zip(t['index'], t['rows'])]
        k = rng.choice([1, 2, 3, 4, 7])
        grouped = rng.random() < 0.5
        j = t['cols'].index('id')
        n_items = len({r[1][j] for r in rows}) if grouped else len(rows)
        perm = list(range(n_items))
        rng.shuffle(perm)
        labels = [r[0] for r in rows]
        req = {'op': 'split_model', 'rows': rows, 'k': k, 'perm': perm, 'group_col': j if grouped else None}
        case = {'kind': 'split_model', 'rows': rows, 'k': k, 'perm': perm, 'grouped': grouped}

        def cb(ans, case=case, labels=labels, rows=rows, j=j, grouped=grouped, k=k):
            folds = ans.get('folds')
            res.count(case, nontrivial=False)
            ctx.batch.add({'op': 'folds', 'all': labels, 'k': k, 'folds': folds, 'groups': [[r[0], r[1][j]] for r in rows] if grouped else None},
                          lambda a: None if a.get('partition') is True and (a.get('unsplit') is True if grouped else a.get('sizes') is True)
                          else res.diverge('the model split does not satisfy its own relations', case, a, folds))

        ctx.batch.add(req, cb)


def check_array_split(ctx, res):
    reqs, exp = [], []
    for n in range(0, 14):
        for k in (1, 2, 3, 4, 5, 9):
            reqs.append({'op': 'array_split', 'n': n, 'k': k})
            exp.append([list(map(int, p)) for p in np.array_split(np.arange(n), k)])

    def cb(ans):
        for r, a, e in zip(reqs, ans, exp):
            res.count({'kind': 'array_split', **r}, nontrivial=False)
            if a.get('parts') != e:
                res.diverge('numpy.array_split vs Tbl.arraySplit', r, a.get('parts'), e)

    ctx.batch.add_many(reqs, cb)


# ============================================================================ corpus / check / search / replay

F1, F2 = f2b(1.0), f2b(2.0)
CORPUS = [
    # gaps in the index: remove, then add a column, then split
    {'kind': 'ops', 'np_seed': 1, 'table': {'cols': ['id', 'x', 'y'], 'index': [0, 1, 2, 3, 4, 5], 'int_cols': ['id'],
                                             'rows': [[1, 1.0, 0.0], [1, 2.0, 1.0], [2, 3.0, 0.0], [2, 4.0, 1.0], [3, 5.0, 0.0], [3, 6.0, 0.0]]},
     'ops': [['remove', ['var', 'y']], ['add_column', 'b10', ['mul', ['var', 'x'], ['num', F2]]], ['scale', 'x', f2b(0.5)], ['split', 3, None], ['split', 2, 'id'],
             ['extract', [0, 2]], ['count', 'b10', f2b(6.0)], ['sample', None]]},
    # known: duplicate labels (pd.concat of two frames)
    {'kind': 'ops', 'np_seed': 2, 'table': {'cols': ['x'], 'index': [0, 1, 0, 1], 'int_cols': [], 'rows': [[1.0], [2.0], [2.0], [1.0]]},
     'ops': [['remove', ['eq', ['var', 'x'], ['num', F2]]]]},
    # known: remove after panel
    {'kind': 'ops', 'np_seed': 3, 'table': {'cols': ['id', 'y'], 'index': [0, 1, 2, 3, 4, 5], 'int_cols': ['id'],
                                             'rows': [[1, 0.0], [1, 1.0], [2, 0.0], [2, 1.0], [3, 0.0], [3, 0.0]]},
     'ops': [['panel', 'id'], ['remove', ['var', 'y']], ['sample_map', None]]},
    # known: panel() permutes the observations of an individual
    {'kind': 'ops', 'np_seed': 4, 'table': {'cols': ['id', 't'], 'index': list(range(9)), 'int_cols': ['id'],
                                             'rows': [[3, 0.0], [3, 1.0], [3, 2.0], [2, 0.0], [2, 1.0], [2, 2.0], [1, 0.0], [1, 1.0], [1, 2.0]]},
     'ops': [['panel', 'id'], ['flatten', None]]},
    # known: refused panel() leaves panelColumn set
    {'kind': 'ops', 'np_seed': 5, 'table': {'cols': ['id', 'x'], 'index': [0, 1, 2], 'int_cols': ['id'], 'rows': [[1, 0.5], [2, 1.0], [1, 1.5]]},
     'ops': [['panel', 'id'], ['split', 2, None]]},
]


CORPUS += [
    # split with duplicate labels (plain and grouped): estimation part = complement BY POSITION
    {'kind': 'ops', 'np_seed': 6, 'table': {'cols': ['id', 'x'], 'index': [0, 1, 2, 0, 1, 2], 'int_cols': ['id'],
                                             'rows': [[1, 0.5], [1, 1.0], [2, 1.5], [2, 2.0], [3, 2.5], [3, 3.0]]},
     'ops': [['split', 2, None], ['split', 3, None], ['split', 2, 'id'], ['split', 3, 'id']]},
    # remove with conditions that are not 0/1 indicators: difference of columns, code column, fractional column
    {'kind': 'ops', 'np_seed': 7, 'table': {'cols': ['code', 'a', 'b'], 'index': [3, 4, 8, 9, 11], 'int_cols': ['code'],
                                             'rows': [[2, 0.5, 0.5], [0, 1.0, -2.0], [-3, 0.0, 0.0], [0, 0.5, 0.5], [5, -1.5, 1.5]]},
     'ops': [['remove', ['sub', ['var', 'a'], ['var', 'b']]]]},
    {'kind': 'ops', 'np_seed': 8, 'table': {'cols': ['code', 'a'], 'index': [0, 1, 2, 3], 'int_cols': ['code'], 'rows': [[2, 0.5], [0, 0.0], [-3, 0.5], [0, 0.0]]},
     'ops': [['remove', ['var', 'code']]]},
    {'kind': 'ops', 'np_seed': 9, 'table': {'cols': ['code', 'a'], 'index': [0, 1, 2, 3], 'int_cols': ['code'], 'rows': [[2, 0.5], [0, 0.0], [-3, 0.5], [0, 0.25]]},
     'ops': [['remove', ['var', 'a']], ['panel', 'code']]},
]


CORPUS += [
    # identifiers one unit apart, amounts 1e-9 apart, adjacent doubles: counted one by one, before and after a removal (gaps in the index)
    {'kind': 'ops', 'np_seed': 10, 'table': {'cols': ['hh', 'amount', 'id', 'u'], 'index': [0, 1, 2, 3, 4, 5], 'int_cols': ['hh', 'id'],
                                              'rows': [[73001205.0, 0.0, 1, 1.0], [73001206.0, 1e-9, 1, 1.0000000000000002], [73001206.0, 4.75, 1, 1.0],
                                                       [73001207.0, 4.750000001, 2, 0.9999999999999999], [73001209.0, 0.0, 2, 1.0], [73001205.0, 4.75, 2, 1.0]]},
     'ops': [['counts', 'hh', 1], ['counts', 'amount', 2], ['counts', 'u', 3], ['remove', ['sub', ['var', 'u'], ['num', F1]]], ['counts', 'hh', 4],
             ['counts', 'amount', 5], ['count', 'hh', f2b(73001208.0)], ['panel', 'id'], ['flatten', None], ['counts', 'amount', 6]]},
]


CORPUS += [
    # flatten_database called directly: a panel file stored wave by wave with labels that are not positions; one late row; every option
    {'kind': 'ops', 'np_seed': 11, 'table': {'cols': ['id', 'z', 'a', 'w'], 'index': [5, 3, 9, 7, 0, 1], 'int_cols': ['id', 'w'],
                                              'rows': [[1, 20.0, 1.5, 1], [2, 30.0, 2.0, 1], [3, 40.0, 3.0, 1], [1, 20.0, 4.0, 2], [2, 30.0, 5.0, 2], [3, 40.0, 6.0, 2]]},
     'ops': [['flatten_direct', 'id', None, None], ['flatten_direct', 'id', 'w', None], ['flatten_direct', 'id', None, []], ['flatten_direct', 'id', None, ['z']],
             ['flatten_direct', 'id', 'z', None], ['flatten_direct', 'nope', None, None], ['flatten_direct', 'id', None, ['nope']], ['flatten_direct', 'id', 'id', None],
             ['groups', 'id'], ['row_split', None], ['row_split', [4, 0]], ['row_split', [6]], ['sizes'], ['mdcev_count', ['a', 'z'], 'cnt'], ['mdcev_count', ['w', 'w', 'cnt'], 'z'],
             ['mdcev_count', ['a', 'nope'], 'b2'],
             ['remove', ['eq', ['var', 'a'], ['num', f2b(5.0)]]], ['flatten_direct', 'id', None, None], ['flatten_direct', 'w', None, None], ['sizes']]},
    {'kind': 'ops', 'np_seed': 12, 'table': {'cols': ['x10', 'id'], 'index': [0, 1, 2, 3, 4], 'int_cols': ['id'],
                                              'rows': [[4.0, 1], [4.0, 1], [5.0, 2], [5.0, 2], [6.0, 1]]},
     'ops': [['flatten_direct', 'id', None, None], ['flatten_direct', 'id', None, ['x10']], ['groups', 'id'], ['sizes']]},
]


# F-E9 (external engine, listed): a formula that READS a column holding the missing-data code 99999 on some row of a table of
# more than a few rows is refused by the engine (RuntimeError) — and the refusal corrupts the heap of the process (worker threads
# keep running while one throws): 'double free or corruption', 'malloc(): unsorted double linked list corrupted' or SIGSEGV, at
# once or in any later, valid call.  Observed (300 repetitions each, fresh processes) with values_from_database, add_column, remove,
# float and int64 columns, 14 rows; a single refusal followed by valid evaluations is enough; NOT with 1, 2, 4 rows, not when the
# formula does not read the column, never without a refusal.  The code 99999 is reached by computed columns too
# (w + (z + x10) = -4 + 100003 + 0).  The streams exclude the shape by construction (run_ops_case never hands such a formula to
# the engine); the listed input is run first, in a child of its own.
FE9_CASE = {'kind': 'ops', 'np_seed': 13, 'table': {'cols': ['m', 'x'], 'index': list(range(3, 17)), 'int_cols': [],
                                                    'rows': [[float(i + 1) if i != 8 else MISSING_CODE, i / 4.0] for i in range(14)]},
            'ops': [['values', ['add', ['var', 'm'], ['var', 'x']]]]}
CORPUS += [
    FE9_CASE,
    # the same through a computed column (found by the thorough tier): zz = w + (z + x10) is 99999 on the 9th row
    {'kind': 'ops', 'np_seed': 14, 'table': {'cols': ['w', 'x10', 'z', 'id'], 'index': [4, 6, 7, 9, 18, 23, 24, 27, 28, 33, 35, 36, 42, 43], 'int_cols': ['w', 'z'],
                                              'rows': [[3.0, 0.0, 100003.0, 1.0], [5.0, 1e-12, 100000.0, 1.0], [-4.0, 0.0, 100002.0, 1.0], [2.0, 0.0, 100002.0, 3.0],
                                                       [-3.0, 1e-20, 100000.0, 3.0], [0.0, 1e-20, 100003.0, 2.0], [4.0, 0.0, 100000.0, 2.0], [1.0, 0.0, 100001.0, 2.0],
                                                       [-4.0, 0.0, 100003.0, 2.0], [1.0, 1e-12, 100001.0, 5.0], [5.0, -1e-09, 100003.0, 5.0], [6.0, 1e-12, 100002.0, 5.0],
                                                       [1.0, 1e-12, 100002.0, 5.0], [2.0, 1e-12, 100001.0, 5.0]]},
     'ops': [['add_column', 'zz', ['add', ['var', 'w'], ['add', ['var', 'z'], ['var', 'x10']]]],
             ['add_column', 'n1', ['ge', ['num', f2b(2.000000001)], ['sub', ['var', 'zz'], ['var', 'zz']]]], ['counts', 'zz', 7]]},
]


def reads_code(cols, rowvals, fm):
    """the formula reads (names) a column that holds the missing-data code on some row"""
    for v in set(_vars(fm)):
        if v in cols:
            j = cols.index(v)
            if any(r[j] == MISSING_CODE for r in rowvals):
                return True
    return False


def reads_missing_code(case):
    """MATCHER of F-E9, computed from the operations of the case alone (plain Python, no engine): following the table through
    remove / add_column / define_variable / scale / mdcev_count, some formula handed to the engine (remove, add_column,
    define_variable, values_from_database) names a column that holds 99999 on a row of the table at that moment"""
    try:
        t = (case or {}).get('table') or {}
        cols = list(t.get('cols') or [])
        rows = [list(map(float, r)) for r in (t.get('rows') or [])]
        for op in (case or {}).get('ops') or []:
            if not rows:
                return False
            known = lambda fm: all(v in cols for v in _vars(fm))  # noqa: E731
            if op[0] == 'remove':
                if not known(op[1]):
                    continue
                if reads_code(cols, rows, op[1]):
                    return True
                rows = [r for r in rows if py_eval(op[1], dict(zip(cols, r))) == 0]
            elif op[0] in ('add_column', 'define_variable'):
                if op[1] in cols or not known(op[2]):
                    continue
                if reads_code(cols, rows, op[2]):
                    return True
                rows = [r + [py_eval(op[2], dict(zip(cols, r)))] for r in rows]
                cols.append(op[1])
            elif op[0] == 'values':
                if known(op[1]) and reads_code(cols, rows, op[1]):
                    return True
            elif op[0] == 'scale' and op[1] in cols:
                j = cols.index(op[1])
                rows = [[v * b2f(op[2]) if i == j else v for i, v in enumerate(r)] for r in rows]
            elif op[0] == 'mdcev_count' and all(c in cols for c in op[1]):
                cnt = [float(sum(1 for c in op[1] if r[cols.index(c)] != 0)) for r in rows]
                if op[2] in cols:
                    j = cols.index(op[2])
                    rows = [[n if i == j else v for i, v in enumerate(r)] for r, n in zip(rows, cnt)]
                else:
                    rows = [r + [n] for r, n in zip(rows, cnt)]
                    cols.append(op[2])
        return False
    except Exception:  # noqa: BLE001
        return False


def probe_listed_engine_crash(ctx, res, reps=40):
    """the listed input of F-E9 in a child of its own, BEFORE this process uses the engine: the refused evaluation is repeated,
    with valid evaluations in between; a child killed by a signal is the listed finding (nondeterministic: no crash is fine)"""
    import sys

    sys.stdout.flush()
    sys.stderr.flush()
    pid = os.fork()
    if pid == 0:
        try:
            null = os.open(os.devnull, os.O_WRONLY)
            os.dup2(null, 2)     # the dump of the dying child is not an alarm of this check
            with core.scratch():
                for _ in range(reps):
                    d = build_db(FE9_CASE['table'])
                    for op in FE9_CASE['ops']:
                        outcome(lambda: d.values_from_database(to_expr(op[1])))
                    outcome(lambda: d.values_from_database(to_expr(['add', ['var', 'x'], ['var', 'x']])))
        except BaseException:  # noqa: BLE001
            os._exit(3)
        os._exit(0)
    _, status = os.waitpid(pid, 0)
    if os.WIFSIGNALED(status):
        sig = os.WTERMSIG(status)
        res.violate(f'the process died (signal {sig}) while / after the engine refused a formula that reads the missing-data code 99999 ({reps} repetitions of the listed input)',
                    FE9_CASE, f'process killed by signal {sig}', 'a RuntimeError of the engine and a process that goes on', where=W_ENGINE_CRASH)
        res.tally('F-E9 listed input: the child died')
    else:
        res.tally('F-E9 listed input: no crash this time (status %d)' % status)


def is_dup_case(case):
    idx = ((case or {}).get('table') or {}).get('index') or []
    return len(set(idx)) != len(idx)


def remove_after_panel(case):
    ops = (case or {}).get('ops') or []
    seen = False
    for op in ops:
        if op[0] == 'panel':
            seen = True
        if op[0] == 'remove' and seen:
            return True
    return False


def has_panel(case):
    return any(op[0] == 'panel' for op in (case or {}).get('ops') or [])


MATCHERS = {'duplicate_labels': is_dup_case, 'remove_after_panel': remove_after_panel, 'has_panel': has_panel, 'reads_missing_code': reads_missing_code}


def run_case(ctx, res, case):
    try:
        run_ops_case(ctx, res, case)
    except core.LeanError:
        raise
    except Exception as e:  # noqa: BLE001
        import traceback

        tb = traceback.extract_tb(e.__traceback__)
        site = next((f'{os.path.basename(f.filename)}:{f.lineno} {f.name}' for f in reversed(tb)), '')
        res.diverge(f'the case raised {type(e).__name__}: {str(e)[:200]} ({site})', case, 'no exception', type(e).__name__)


def strip_order_known(case):
    """main stream: the panel order finding is excluded by comparing the rows of an individual as a multiset — done in the oracle/canonicalisation, see W_PANEL_ORDER"""
    return case


def _guard_batch(ctx, res):
    """no exception inside a model-comparison callback may end the run: it is recorded as a divergence (of `res`; called again
    with another Result, the wrappers are bound to that one)"""
    if not hasattr(ctx.batch, '_orig'):
        ctx.batch._orig = (ctx.batch.add, ctx.batch.add_many)
    add, add_many = ctx.batch._orig

    def wrap(cb, req):
        def guarded(ans):
            try:
                cb(ans)
            except core.LeanError:
                raise
            except Exception as e:  # noqa: BLE001
                res.diverge(f'comparison with the model failed: {type(e).__name__}: {str(e)[:150]}', {'kind': 'model-answer'}, str(ans)[:300], str(req)[:300])

        return guarded

    ctx.batch.add = lambda req, cb: add(req, wrap(cb, req))
    ctx.batch.add_many = lambda reqs, cb: add_many(reqs, wrap(cb, reqs))
    ctx.batch._guarded = True


# ---- the streams: each function draws ONE case from rng and returns (case, tally key or None)


def _s_main(rng):
    return gen_case(rng), None


def _s_dup(rng):
    t = gen_table(rng, dup=True)
    ops = gen_ops(rng, t)[:4] + [['split', rng.choice([2, 3, 4]), None], ['split', rng.choice([2, 3]), 'id'], ['remove', gen_cond(rng, t['cols'])],
                                 ['split', 2, rng.choice([None, 'id'])]]
    return {'kind': 'ops', 'table': t, 'ops': ops, 'np_seed': rng.randint(0, 2**31 - 1)}, None


def _s_panel(rng):
    t = gen_table(rng, panelable=True)
    ops = [['panel', 'id']] + gen_ops(rng, t, allow_known=True)
    return {'kind': 'ops', 'table': t, 'ops': ops, 'np_seed': rng.randint(0, 2**31 - 1)}, None


def _s_refused_panel(rng):
    t = gen_table(rng, panelable=False)
    return {'kind': 'ops', 'table': t, 'ops': [['panel', 'id']] + gen_ops(rng, t)[:3], 'np_seed': rng.randint(0, 2**31 - 1)}, None


def _s_magnitudes(rng):
    # values of different magnitudes: count / remove / panel / flatten must tell nearly equal values apart, also after earlier operations
    t = gen_table(rng, wide=True)
    ops = gen_ops(rng, t)[: rng.randint(0, 3)] + [['counts', c, rng.randint(0, 10**6)] for c in rng.sample(t['cols'], min(3, len(t['cols'])))]
    if t['panelable'] and rng.random() < 0.5:
        ops += [['panel', 'id'], ['flatten', None], ['split', 2, None], ['groups', 'id']]
    return {'kind': 'ops', 'table': t, 'ops': ops, 'np_seed': rng.randint(0, 2**31 - 1)}, 'stream: magnitudes'


def _s_tools(rng):
    # the helpers of tools/database.py called directly: groups that are not consecutive, labels that are not positions, every option
    t = gen_flat_table(rng)
    cols = t['cols']
    ops = gen_ops(rng, t)[: rng.randint(0, 2)] if rng.random() < 0.4 else []
    ops += [['flatten_direct', 'id', None, None]]
    if 'w' in cols:
        ops += [['flatten_direct', 'id', 'w', rng.choice([None, None, [c for c in cols if c in ('z',)]])]]
    ops += [gen_tool_op(rng, cols, merge='id') for _ in range(rng.randint(1, 3))]
    ops += [['flatten_direct', 'id', None, rng.choice([[], [c for c in cols if c == 'z'], rng.sample(cols, rng.randint(1, len(cols)))])], ['groups', 'id'], ['sizes']]
    if t['panelable'] and rng.random() < 0.5:
        ops += [['panel', 'id'], ['flatten', None], ['flatten_direct', 'id', None, None], ['sizes'], ['row_split', None]]
    return {'kind': 'ops', 'table': t, 'ops': ops, 'np_seed': rng.randint(0, 2**31 - 1)}, 'stream: tools direct, layout ' + t['layout']


CHUNK = 3000


def _merge(res, r):
    res.evaluations += r.evaluations
    res.nontrivial |= r.nontrivial
    res.samples += r.samples[: max(0, 3 - len(res.samples))]
    for k, v in r.distribution.items():
        res.tally(k, v)
    res.divergences += r.divergences
    res.violations += r.violations
    res.known_hits += r.known_hits
    res.notes += r.notes
    res.traces_validated += r.traces_validated


def _run_stream(ctx, res, rng, n, make):
    """quick tier: the cases are run in this process.  Thorough tier: in forked children of at most CHUNK cases each (its own
    random stream drawn from rng, its own batch of model questions, its Result merged here), so that no interpreter lives through
    tens of thousands of engine / pandas calls (CPython 3.12.1 + pandas died with SIGSEGV at unrelated places after ~10 minutes
    in one process, the Python stack being in a pure-Python line); the cases of a child that dies are run once more in a fresh
    child (same random stream): if it dies again the crash is reported with the case it was evaluating, exactly as vcheck reports
    a crash of the real code; if not, the event is recorded in the notes and the input distribution of the evidence."""
    if ctx.quick:
        for _ in range(n):
            case, tag = make(rng)
            run_case(ctx, res, case)
            if tag:
                res.tally(tag)
        return
    import pickle
    import random
    import sys
    import tempfile

    done = 0
    while done < n:
        k = min(CHUNK, n - done)
        done += k
        sub_seed = rng.getrandbits(64)
        for attempt in (1, 2):
            rf = tempfile.mktemp(prefix='c13chunk_')
            sys.stdout.flush()
            sys.stderr.flush()
            pid = os.fork()
            if pid == 0:
                code = 0
                try:
                    sub, r = random.Random(sub_seed), Result()
                    ctx.batch.items = []
                    _guard_batch(ctx, r)
                    for _ in range(k):
                        case, tag = make(sub)
                        run_case(ctx, r, case)
                        if tag:
                            r.tally(tag)
                    ctx.batch.flush()
                    ctx.batch.flush()
                    with open(rf, 'wb') as f:
                        pickle.dump((r, ctx.batch.failed), f)
                except BaseException:  # noqa: BLE001
                    import traceback

                    traceback.print_exc()
                    code = 3
                sys.stdout.flush()
                sys.stderr.flush()
                os._exit(code)
            _, status = os.waitpid(pid, 0)
            if os.path.exists(rf):
                with open(rf, 'rb') as f:
                    r, failed = pickle.load(f)
                os.unlink(rf)
                _merge(res, r)
                if failed:
                    ctx.batch.failed = failed
                break
            last = None
            try:
                if core.PROGRESS_FILE and os.path.exists(core.PROGRESS_FILE):
                    last = json.loads(open(core.PROGRESS_FILE).read())
            except Exception:  # noqa: BLE001
                last = None
            sig = os.WTERMSIG(status) if os.WIFSIGNALED(status) else None
            if attempt == 1:
                # the same cases (same random stream) are run once more in a fresh child: a crash that the inputs determine dies
                # again and is reported with the case; one that does not come back is the interpreter / the machine, not the property
                res.tally('thorough: a child died (signal %s) and its cases were run again' % sig)
                res.notes.append(f'a child of the thorough tier died (signal {sig}, status {status}) near case {json.dumps(last, default=str)[:300]}; its {k} cases were run again')
                continue
            if sig is not None:
                res.violate(f'the process died twice (signal {sig}, status {status}) while the real code evaluated these cases', last,
                            f'process killed by signal {sig}', 'a value or a library error', where='process crash')
            else:
                res.diverge(f'a child of the check ended twice with status {status} without a result', last, 'a result', f'status {status}')


def check(ctx) -> Result:
    res = Result(rule=RULE, tolerance='exact (bit patterns of doubles, labels, names)')
    import faulthandler

    faulthandler.enable()   # a crash of native code (engine, pandas) leaves the Python stack on stderr
    _guard_batch(ctx, res)
    probe_listed_engine_crash(ctx, res)
    rng = ctx.rng
    # (thorough tier: also in a child — the parent never starts the threads of the C++ engine, which a forked child could not use)
    corpus = iter(CORPUS)
    _run_stream(ctx, res, rng, len(CORPUS), lambda _rng: (next(corpus), 'corpus'))
    _run_stream(ctx, res, rng, ctx.n(2500, 30000), _s_main)
    # dedicated streams for the shapes of the known findings
    _run_stream(ctx, res, rng, ctx.n(60, 600), _s_dup)
    _run_stream(ctx, res, rng, ctx.n(80, 1000), _s_panel)
    _run_stream(ctx, res, rng, ctx.n(30, 300), _s_refused_panel)
    _run_stream(ctx, res, rng, ctx.n(150, 1500), _s_magnitudes)
    _run_stream(ctx, res, rng, ctx.n(140, 1500), _s_tools)
    _guard_batch(ctx, res)
    check_split_model(ctx, res, rng, ctx.n(200, 2000))
    check_array_split(ctx, res)
    ctx.batch.flush()
    ctx.batch.flush()  # callbacks of the split model queue a second round
    return res


def search(ctx, res, broken):
    rng = core.rng_for('C13-search', ctx.seed)
    for _ in range(1500):
        r2 = Result()
        run_case(ctx, r2, gen_case(rng))
        ctx.batch.items.clear()
        fresh = [v for v in r2.violations if not _is_known(ctx, v)]
        if fresh:
            res.violations.extend(fresh[:1])
            return


def _is_known(ctx, v):
    for f in getattr(ctx, 'findings', []) or []:
        if f.get('kind') != 'known' or f.get('where') != v.get('where'):
            continue
        pred = MATCHERS.get(f.get('match', ''))
        if f.get('match') and pred is None:
            continue
        if pred is None or pred(v.get('case')):
            return f['id']
    return None


def replay(ctx, obj):
    case = obj.get('case') or {}
    out = {'replayed': obj.get('what')}
    if not isinstance(case, dict) or case.get('kind') != 'ops':
        out.update({'property_fails': False, 'note': 'nothing to replay (no concrete input in this file)'})
        return out
    r = Result()
    run_case(ctx, r, {k: case[k] for k in ('kind', 'table', 'ops', 'np_seed')})
    ctx.batch.items.clear()
    fresh = [v for v in r.violations if not _is_known(ctx, v)]
    out.update({'property_fails': bool(fresh), 'violations': [{k: v[k] for k in ('what', 'observed', 'expected', 'where')} for v in fresh[:3]],
                'known_findings_also_seen': sorted({_is_known(ctx, v) for v in r.violations if _is_known(ctx, v)})})
    return out
