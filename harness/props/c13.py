"""C13 — data-set transformations keep rows and values intact.

Tie: correspondence (C) + relations (R).  Random tables (label index with gaps, non-alphabetical
column order, integer and float columns, small dyadic values so that float arithmetic is exact) and
random sequences of 1-8 operations are applied to a real `biogeme.database.Database`; after EVERY
step the real object (`data`, `excludedData`, `panelColumn`, `individualMap`) is captured and
  (a) checked by an oracle written from the property statement (plain Python on the captured state), and
  (b) compared exactly with the Lean model started from the real state before the step.
Random outputs (`split`, `sample_with_replacement`, `sample_individual_map_with_replacement`) are
checked by the relations of the theorems (`isFoldPartition`, `groupsUnsplit`, `partSizesOK`,
`isBootstrapOf`), evaluated by the Lean driver on the real outputs.
Formulas go through the C++ engine; they are kept valid (known columns, + - * comparisons and/or).
"""

from __future__ import annotations

import json
import math
import os

import numpy as np

from lib import core
from lib.core import Result, b2f
from lib.core import f2b as _f2b

NEG_ZERO = 0x8000000000000000


def f2b(x):
    """bit pattern, with -0.0 identified with 0.0 (equal values; the engine returns +0.0 for 0 * negative)"""
    b = _f2b(x)
    return 0 if b == NEG_ZERO else b


def unsign(x):
    """the same identification on a JSON answer of the model"""
    if isinstance(x, list):
        return [unsign(v) for v in x]
    if isinstance(x, dict):
        return {k: unsign(v) for k, v in x.items()}
    return 0 if x == NEG_ZERO and not isinstance(x, bool) else x

READY = True
MANIFEST = dict(
    text='Proof (Lean 4, core): remove keeps exactly the rows whose condition is 0, in order, and reports the number of the others (C13.remove_exact, remove_call); '
    'dropping by label = dropping by position when labels are pairwise different (remove_by_label_ok; witness for duplicates remove_by_label_duplicates); '
    'add_column stores the value of the formula on each row and changes nothing else (addcol_values); scale_column multiplies exactly one column (scale_one_column); '
    'numpy.array_split sizes and concatenation (array_split_concat); k-fold split for EVERY shuffle permutation: k folds, validation parts contain each row once, '
    'estimation = complement, parts pairwise disjoint (folds_partition); grouped split: same, and rows of one group are never separated (groups_unsplit); '
    'bootstrap rows exist (bootstrap_subset); extract_rows positional / IndexError (extract_positional); count (count_def; count_exact: only rows holding the value, absent value 0, '
    'counts of the distinct values add up to the number of rows; counts_def); flattening groups every row once, in table '
    'order per individual (flatten_roundtrip); invariant over ARBITRARY operation sequences by induction over op lists (history_inv_partial, fresh_inv; guard witnessed by '
    'scale_panel_column_breaks_map); meaning of the relations evaluated on real outputs (fold_relation_sound, groups_relation_sound, bootstrap_relation_sound). Tie: per-step correspondence with the real Database object on '
    'generated tables x operation sequences, relations evaluated by the driver on real random outputs, Python oracle from the property statement on every step.',
    design='DESIGN.md §5 C13',
    technique='Lean 4 theorems over an executable row-major table model with pandas-style labels + per-step differential correspondence with real Database objects '
    '+ model relations evaluated on real random outputs',
    note='Trusted: pandas/numpy primitives (drop, iloc, sort_values, sample, array_split, concat, groupby), the C++ engine for formula values (compared with the model and a Python oracle). '
    'Partial: invariant proved under the guard that scale_column is not applied to a panel column. Known findings: remove drops by label (deletes too much with duplicate labels); '
    'remove on a panel database leaves a stale individual map; panel() reorders the observations of an individual (unstable sort); a refused panel() leaves panelColumn set.',
)

TRUSTED = [
    'pandas / numpy primitives used by Database (drop, iloc, sort_values, sample, array_split, concat, groupby, isin)',
    'the C++ engine computes the formula values (validated on every case against the Lean model and a Python evaluator; dyadic data make the arithmetic exact; on the columns of other magnitudes every single +, -, * is the correctly rounded IEEE operation on all sides)',
    'numbers compare with == as equality (no NaN: the Database constructor refuses NaN) — hypothesis EqOK of the theorems',
]
ASSUMPTIONS = [
    'values are finite normal doubles (|v| in 1e-20 .. 1e60 or 0): +, -, * and comparisons are IEEE operations in numpy, the C++ engine, Python and Lean Float alike (no denormal arithmetic)',
    'row labels of generated tables are integers; duplicates only in the stream dedicated to the known finding',
    'formulas are valid (known columns; + - * neg, comparisons, and/or) so that the engine never raises',
]
RULE = (
    'tables of 1-14 rows x 2-5 columns (labels with gaps / shuffled, id column contiguous or not, int and float columns, values k/8; in 30% of the tables and in a dedicated stream '
    'columns of other magnitudes: 6-16 digit identifiers one unit apart, clusters of nearly equal floats — adjacent doubles, 1e-12..1e-6 apart —, also as id column) x sequences of 1-8 operations among '
    'remove, add_column, define_variable, scale_column, panel, split(k, groups), sample_with_replacement, sample_individual_map_with_replacement, extract_rows, count (fixed value; '
    'every value the column holds at that moment + the values next to them), generate_flat_panel_dataframe, values_from_database, count_number_of_groups; constants of the formulas also taken from the table and next to its values; non-trivial = sequence with a state-changing operation after which the label index has gaps or the table is a panel'
)

W_DUP = 'Database.remove: rows dropped by label (duplicate index labels)'
W_PANEL_REMOVE = 'Database.remove on a panel database: individual map not rebuilt'
W_PANEL_ORDER = 'Database.panel: order of the observations of an individual'
W_PANEL_FAIL = 'Database.panel: refused call leaves panelColumn set'

COLS = ['z', 'id', 'a', 'x10', 'x2', 'w']


# ============================================================================ formulas


def py_eval(fm, row):
    """independent evaluator (oracle): value of a formula on one row (dict column -> float)"""
    k = fm[0]
    if k == 'var':
        return row[fm[1]]
    if k == 'num':
        return b2f(fm[1])
    if k == 'neg':
        return -py_eval(fm[1], row)
    a, b = py_eval(fm[1], row), py_eval(fm[2], row)
    if k == 'add':
        return a + b
    if k == 'sub':
        return a - b
    if k == 'mul':
        return a * b
    if k == 'eq':
        return float(a == b)
    if k == 'ne':
        return float(a != b)
    if k == 'lt':
        return float(a < b)
    if k == 'le':
        return float(a <= b)
    if k == 'gt':
        return float(a > b)
    if k == 'ge':
        return float(a >= b)
    if k == 'and':
        return float(a != 0 and b != 0)
    if k == 'or':
        return float(a != 0 or b != 0)
    raise ValueError(k)


def to_expr(fm):
    """the real biogeme expression, built through the public operators"""
    from biogeme.expressions import Numeric, Variable

    k = fm[0]
    if k == 'var':
        return Variable(fm[1])
    if k == 'num':
        return Numeric(b2f(fm[1]))
    if k == 'neg':
        return -to_expr(fm[1])
    a, b = to_expr(fm[1]), to_expr(fm[2])
    return {
        'add': lambda: a + b, 'sub': lambda: a - b, 'mul': lambda: a * b, 'eq': lambda: a == b, 'ne': lambda: a != b,
        'lt': lambda: a < b, 'le': lambda: a <= b, 'gt': lambda: a > b, 'ge': lambda: a >= b, 'and': lambda: a & b, 'or': lambda: a | b,
    }[k]()


def gen_num(rng, consts=None):
    """a constant: one of the fixed small values or (half of the time when the table offers some) a value of the table or a
    value NEXT to one (adjacent double, +1e-9, x(1+1e-6) ...): comparisons must tell them apart"""
    if consts and rng.random() < 0.5:
        return ['num', f2b(rng.choice(consts))]
    return ['num', f2b(rng.choice([0.0, 1.0, 2.0, -1.0, 0.5, 3.0, -2.5, 0.125, 4.0]))]


def gen_arith(rng, cols, depth, consts=None):
    r = rng.random()
    if depth <= 0 or r < 0.35:
        return ['var', rng.choice(cols)] if rng.random() < 0.75 else gen_num(rng, consts)
    if r < 0.45:
        return ['neg', gen_arith(rng, cols, depth - 1, consts)]
    return [rng.choice(['add', 'sub', 'mul', 'add', 'sub']), gen_arith(rng, cols, depth - 1, consts), gen_arith(rng, cols, depth - 1, consts)]


def gen_cond(rng, cols, depth=2, consts=None):
    r = rng.random()
    if depth > 0 and r < 0.2:
        return [rng.choice(['and', 'or']), gen_cond(rng, cols, depth - 1, consts), gen_cond(rng, cols, depth - 1, consts)]
    if r < 0.5:
        # not a 0/1 indicator: a code column, a difference of columns, a scaled or shifted column (values 2, -3, 0.5, 1e-9 ...):
        # every row with a NON-ZERO value, however small, is removed and counted once
        k = rng.random()
        if k < 0.3:
            return ['var', rng.choice(cols)]
        if k < 0.55:
            return ['sub', ['var', rng.choice(cols)], ['var', rng.choice(cols)]]
        if k < 0.75:
            return ['mul', ['var', rng.choice(cols)], ['num', f2b(rng.choice([2.0, -3.0, 0.5, -0.125]))]]
        if k < 0.9:
            return ['sub', ['var', rng.choice(cols)], gen_num(rng, consts)]
        return gen_arith(rng, cols, 2, consts)
    return [rng.choice(['eq', 'ne', 'lt', 'le', 'gt', 'ge']), gen_arith(rng, cols, 1, consts), gen_arith(rng, cols, 1, consts) if rng.random() < 0.5 else gen_num(rng, consts)]


# ============================================================================ values of different magnitudes

# identifiers / amounts whose neighbours differ by ONE unit (relative distance 1e-5 .. 1e-15) — all exact doubles and exact int64
BIG_BASES = [100000.0, 4210017.0, 99999990.0, 123456789.0, float(2**40), 1.0e15]
# centres of clusters of nearly equal floats
NEAR_BASES = [0.0, 2.5, 1.0, -3.75, 7.25, 100000.5, -1.0e6, 1.0e-9, 0.1]


def neighbours(v):
    """values next to v that are NOT v: adjacent doubles, absolute steps 1e-12 / 1e-9, relative steps 1e-9 / 1e-6, one unit, the
    truncated / rounded value, the opposite.  (Only compared, never used in arithmetic: denormals next to 0 are harmless.)"""
    v = float(v)
    out = [math.nextafter(v, math.inf), math.nextafter(v, -math.inf), v + 1e-12, v - 1e-12, v + 1e-9, v - 1e-9,
           v * (1 + 1e-9), v * (1 - 1e-9), v * (1 + 1e-6), v * (1 - 1e-6), v + 1.0, v - 1.0, v + 0.5, -v,
           float(math.trunc(v)), float(round(v)), float(round(v, 6))]
    seen, res = {f2b(v)}, []
    for w in out:
        if math.isfinite(w) and f2b(w) not in seen and w != v:
            seen.add(f2b(w))
            res.append(w)
    return res


def cluster(rng, base):
    """a few nearly equal normal doubles around base (no denormals: the values also go through arithmetic)"""
    if base == 0.0:
        c = [0.0, 1e-9, -1e-9, 1e-12, 1e-20]
    else:
        c = [base, math.nextafter(base, math.inf), math.nextafter(base, -math.inf), base + 1e-9 * max(1.0, abs(base)) * rng.choice([1, 1e-3]),
             base * (1 + 1e-6), base * (1 - 1e-9), base + 1e-12]
    c = list(dict.fromkeys(c))
    return rng.sample(c, rng.randint(2, min(4, len(c))))


def table_consts(table, rng, k=8):
    """constants for formulas / count values taken from the table: values that occur and values next to them"""
    vals = sorted({v for r in table['rows'] for v in r})
    if not vals:
        return []
    pick = rng.sample(vals, min(k, len(vals)))
    out = list(pick)
    for v in pick[:4]:
        nb = neighbours(v)
        out += rng.sample(nb, min(2, len(nb)))
    return [v for v in out if v == 0.0 or abs(v) > 1e-300]


# ============================================================================ tables and sequences


def gen_table(rng, panelable=None, dup=False, wide=None):
    """wide: columns of different magnitudes — identifiers / amounts of 6-16 digits whose neighbours differ by one unit, clusters
    of nearly equal floats (adjacent doubles, 1e-12 .. 1e-6 apart), next to the small dyadic / integer columns; the id column too"""
    n = rng.choice([1, 2, 3, 4, 5, 6, 7, 8, 9, 10, 12, 14])
    ncol = rng.randint(2, 5)
    cols = ['id'] + rng.sample([c for c in COLS if c != 'id'], ncol - 1)
    rng.shuffle(cols)
    if wide is None:
        wide = rng.random() < 0.3
    # id column: a few individuals
    nid = rng.randint(1, max(1, min(5, n)))
    id_int = True
    idk = rng.random() if wide else 1.0
    if idk < 0.45:
        base = rng.choice(BIG_BASES)
        idvals = [base + o for o in rng.sample(range(0, 7), nid)]   # neighbours one unit apart, not ascending
    elif idk < 0.7:
        pool = list(dict.fromkeys(cluster(rng, rng.choice(NEAR_BASES)) + cluster(rng, rng.choice(NEAR_BASES)) + [3.0, 8.0]))
        idvals = rng.sample(pool, min(nid, len(pool)))
        nid = len(idvals)
        id_int = False
    else:
        idvals = rng.sample([1, 2, 3, 5, 8, 13, 4], nid)
    if panelable is None:
        panelable = rng.random() < 0.7
    if panelable:
        cutpoints = sorted(rng.sample(range(1, n), nid - 1)) if nid > 1 else []
        ids, prev = [], 0
        for i, c in enumerate(cutpoints + [n]):
            ids += [idvals[i]] * (c - prev)
            prev = c
    else:
        ids = [rng.choice(idvals) for _ in range(n)]
    # kind of every other column
    kinds = {}
    for c in cols:
        if c == 'id':
            continue
        k = rng.random()
        if not wide:
            kinds[c] = ('int',) if k < 0.25 else ('dyadic',)
        elif k < 0.15:
            kinds[c] = ('int',)
        elif k < 0.4:
            kinds[c] = ('dyadic',)
        elif k < 0.7:
            kinds[c] = ('big', rng.choice(BIG_BASES), rng.choice([2, 3, 5]), rng.random() < 0.5)
        else:
            kinds[c] = ('near', cluster(rng, rng.choice(NEAR_BASES)) + (cluster(rng, rng.choice(NEAR_BASES)) if rng.random() < 0.4 else []))
    int_cols = [c for c in cols if (c == 'id' and id_int) or (c != 'id' and (kinds[c][0] == 'int' or (kinds[c][0] == 'big' and kinds[c][3])))]
    rows = []
    for i in range(n):
        row = []
        for c in cols:
            if c == 'id':
                row.append(float(ids[i]))
            elif kinds[c][0] == 'int':
                row.append(float(rng.randint(-4, 6)))
            elif kinds[c][0] == 'dyadic':
                row.append(rng.randint(-40, 40) / 8.0)
            elif kinds[c][0] == 'big':
                row.append(kinds[c][1] + float(rng.randint(0, kinds[c][2])))
            else:
                row.append(float(rng.choice(kinds[c][1])))
        rows.append(row)
    kind = rng.random()
    if dup:
        index = [rng.randint(0, max(0, n // 2 - 1)) for _ in range(n)] if n > 1 else [0]
    elif kind < 0.35:
        index = list(range(n))
    elif kind < 0.7:
        index = sorted(rng.sample(range(3 * n + 2), n))
    else:
        index = rng.sample(range(-3, 3 * n + 2), n)
    return {'cols': cols, 'index': index, 'rows': rows, 'int_cols': int_cols, 'panelable': bool(panelable), 'wide': bool(wide)}


def gen_ops(rng, table, allow_known=False):
    cols = list(table['cols'])
    n_ops = rng.randint(1, 8)
    ops = []
    panel = False
    new_names = ['n1', 'b2', 'b10', 'new col', 'zz']
    consts = table_consts(table, rng)
    scales = [0.5, 2.0, -1.0, 0.25, 0.0, 8.0, 1.0] + ([1e-3, 1e6, 1.0 + 2.0**-20] if table.get('wide') else [])
    for _ in range(n_ops):
        r = rng.random()
        data_cols = [c for c in cols]
        if r < 0.17 and (allow_known or not panel):
            ops.append(['remove', gen_cond(rng, data_cols, 2, consts)])
        elif r < 0.31:
            name = rng.choice([x for x in new_names if x not in cols] or ['q' + str(len(cols))])
            ops.append([rng.choice(['add_column', 'define_variable']), name, gen_arith(rng, data_cols, 2, consts) if rng.random() < 0.7 else gen_cond(rng, data_cols, 1, consts)])
            cols.append(name)
        elif r < 0.34:
            ops.append(['add_column', rng.choice(cols), gen_arith(rng, data_cols, 1, consts)])  # existing name: ValueError
        elif r < 0.45:
            ops.append(['scale', rng.choice([c for c in cols if c != 'id'] or cols), f2b(rng.choice(scales))])
        elif r < 0.55:
            if not (allow_known or table.get('panelable')):
                continue   # a refused panel() is the shape of a listed finding: dedicated stream only
            ops.append(['panel', 'id'])
            panel = True
        elif r < 0.66:
            ops.append(['split', rng.choice([2, 2, 3, 4, 5, 9]), rng.choice([None, None, 'id'])])
        elif r < 0.73:
            ops.append(['sample', rng.choice([None, None, 1, 3, 20])])
        elif r < 0.78:
            ops.append(['sample_map', rng.choice([None, 2, 7])])
        elif r < 0.83:
            k = rng.randint(0, 4)
            ops.append(['extract', [rng.randint(-1 if rng.random() < 0.1 else 0, 13) for _ in range(k)]])
        elif r < 0.87:
            # a fixed value: small constants, values of the table as it was at the start, values next to them
            ops.append(['count', rng.choice(cols), gen_num(rng, consts)[1]])
        elif r < 0.90:
            # every value the column holds WHEN THE CALL IS MADE and the values next to them (resolved on the current state)
            ops.append(['counts', rng.choice(cols), rng.randint(0, 10**6)])
        elif r < 0.95:
            ops.append(['flatten', rng.choice([None, None, ['id']])])
        elif r < 0.98:
            ops.append(['values', gen_arith(rng, data_cols, 2, consts)])
        else:
            ops.append(['groups', rng.choice(cols)])
    return ops


def count_values(col_bits, salt):
    """the values asked by a `counts` step: every distinct value of the column (first 10), the neighbours of some of them
    (deterministic choice from `salt`), values the column does not hold"""
    import random

    r = random.Random(salt)
    present = list(dict.fromkeys(col_bits))
    vals = [b2f(b) for b in present[:10]]
    out = list(vals)
    for v in (r.sample(vals, min(4, len(vals))) if vals else []):
        nb = neighbours(v)
        out += r.sample(nb, min(6, len(nb)))
    out += [0.0, 1.0, -0.5, (max(vals) + 1.0) if vals else 2.0, (min(vals) - 1.0) if vals else -2.0]
    seen, res = set(), []
    for w in out:
        if f2b(w) not in seen:
            seen.add(f2b(w))
            res.append(w)
    return res


def gen_case(rng, allow_known=False):
    t = gen_table(rng, dup=rng.random() < 0.15)   # duplicate labels (pd.concat of frames) also in the main stream
    return {'kind': 'ops', 'table': t, 'ops': gen_ops(rng, t, allow_known), 'np_seed': rng.randint(0, 2**31 - 1)}


# ============================================================================ real objects


def build_db(table):
    import pandas as pd
    import biogeme.database as db

    data = {}
    for j, c in enumerate(table['cols']):
        col = [r[j] for r in table['rows']]
        data[c] = np.array(col, dtype='int64') if c in table['int_cols'] else np.array(col, dtype='float64')
    df = pd.DataFrame(data, index=list(table['index']), columns=list(table['cols']))
    return db.Database('t', df)


def frame_rows(df):
    vals = df.to_numpy(dtype=float).tolist() if len(df.columns) else [[] for _ in range(len(df))]
    return [[int(l), [f2b(float(v)) for v in row]] for l, row in zip(df.index.tolist(), vals)]


def capture(d):
    m = None
    if d.individualMap is not None:
        m = [[f2b(float(i)), int(r[0]), int(r[1])] for i, r in zip(d.individualMap.index.tolist(), d.individualMap.to_numpy().tolist())]
    return {
        'cols': [str(c) for c in d.data.columns],
        'rows': frame_rows(d.data),
        'excluded': int(d.excludedData),
        'panel': d.panelColumn,
        'map': m,
        'variables': sorted(str(k) for k in d.variables),
    }


def for_model(state):
    """the state handed to / compared with the model; `excluded` is a natural number in the model: whatever the
    code reports is judged by the oracle (count of the rows with a non-zero condition) and clipped here"""
    m = {k: state[k] for k in ('cols', 'rows', 'excluded', 'panel', 'map')}
    m['excluded'] = max(0, int(state['excluded']))
    return m


def outcome(fn):
    try:
        return ('ok', fn())
    except Exception as e:  # noqa: BLE001
        return ('err', core.exc_kind(e))


def row_dicts(state):
    return [dict(zip(state['cols'], [b2f(v) for v in r[1]])) for r in state['rows']]


def canon_within(state):
    """rows sorted within each run of the panel column (the order inside an individual is checked separately)"""
    if state['panel'] is None or state['panel'] not in state['cols']:
        return state['rows']
    j = state['cols'].index(state['panel'])
    out, i = [], 0
    rows = state['rows']
    while i < len(rows):
        k = i
        while k < len(rows) and rows[k][1][j] == rows[i][1][j]:
            k += 1
        vals = sorted(r[1] for r in rows[i:k])
        out += [[rows[i + t][0], vals[t]] for t in range(k - i)]
        i = k
    return out


def map_consistent(state):
    """oracle: the individual map lists every individual of the data once with the positions of its rows"""
    if state['panel'] is None:
        return state['map'] is None
    if state['map'] is None or state['panel'] not in state['cols']:
        return False
    j = state['cols'].index(state['panel'])
    ids = [r[1][j] for r in state['rows']]
    exp = []
    for p, v in enumerate(ids):
        if exp and exp[-1][0] == v and exp[-1][2] == p - 1:
            exp[-1][2] = p
        else:
            exp.append([v, p, p])
    return exp == state['map'] and len({e[0] for e in exp}) == len(exp)


# ============================================================================ one case


def badd(ctx, res, req, cb, info):
    """queue a model question; a driver error or an exception inside the comparison is a divergence, never a crash"""

    def guarded(ans):
        try:
            if isinstance(ans, dict) and 'error' in ans:
                res.diverge(f'the model driver refused the request ({ans["error"]})', info, ans, _brief(req))
                return
            cb(ans)
        except Exception as e:  # noqa: BLE001
            res.diverge(f'comparison with the model failed: {type(e).__name__}: {str(e)[:150]}', info, _brief(ans), _brief(req))

    ctx.batch.add(req, guarded)



def run_ops_case(ctx, res, case):
    np.random.seed(case['np_seed'])
    known_dup = len(set(case['table']['index'])) != len(case['table']['index'])
    with core.scratch():
        try:
            d = build_db(case['table'])
        except Exception as e:  # noqa: BLE001
            res.notes.append(f'table refused by Database(): {type(e).__name__}')
            return
        state = capture(d)
        nontrivial = False
        for step, op in enumerate(case['ops']):
            before = state
            info = {'kind': 'ops', 'table': case['table'], 'ops': case['ops'][: step + 1], 'np_seed': case['np_seed'], 'step': step}
            res.tally('op:' + op[0])
            labels = [r[0] for r in before['rows']]
            unique = len(set(labels)) == len(labels)
            rd = row_dicts(before)
            vars_ok = lambda fm: all(v in before['cols'] for v in _vars(fm))  # noqa: E731
            # ------------------------------------------------------------------ state-changing operations
            if op[0] in ('remove', 'add_column', 'define_variable', 'scale', 'panel'):
                if (op[0] == 'scale' and op[1] not in before['cols']) or (op[0] == 'panel' and op[1] not in before['cols']):
                    res.tally('skipped: column absent')
                    continue
                if op[0] == 'remove':
                    call = ['remove', op[1]]
                    o = outcome(lambda: d.remove(to_expr(op[1])))
                elif op[0] in ('add_column', 'define_variable'):
                    call = ['add_column', op[1], op[2]]
                    if op[0] == 'add_column':
                        o = outcome(lambda: d.add_column(to_expr(op[2]), op[1]))
                    else:
                        o = outcome(lambda: d.define_variable(op[1], to_expr(op[2])))
                elif op[0] == 'scale':
                    call = ['scale', op[1], op[2]]
                    o = outcome(lambda: d.scale_column(op[1], b2f(op[2])))
                else:
                    call = ['panel', op[1]]
                    o = outcome(lambda: d.panel(op[1]))
                after = capture(d)
                state = after
                if len(set(r[0] for r in after['rows'])) == len(after['rows']) and ([r[0] for r in after['rows']] != list(range(len(after['rows']))) or after['panel']):
                    nontrivial = True
                # ---- oracle (from the property statement)
                why, where = None, ''
                if o[0] == 'ok':
                    if op[0] == 'remove':
                        vals = [py_eval(op[1], r) for r in rd]
                        keep = [r for r, v in zip(before['rows'], vals) if v == 0]
                        nrem = sum(1 for v in vals if v != 0)
                        if before['panel'] is None:
                            if after['rows'] != keep:
                                why, where = f'remove kept {len(after["rows"])} rows; the condition is zero on {len(keep)} rows', (W_DUP if not unique else 'Database.remove')
                        else:
                            if sorted(r[1] for r in after['rows']) != sorted(r[1] for r in keep):
                                why, where = 'remove on a panel did not keep exactly the rows whose condition is zero', 'Database.remove'
                            elif not map_consistent(after):
                                why, where = 'after remove the individual map does not describe the data any more', W_PANEL_REMOVE
                        if after['excluded'] != nrem:
                            # judged on its own, whatever else happened: the number reported = the number of rows with a non-zero condition
                            res.violate(f'step {step} remove: excludedData = {after["excluded"]}, but the condition is non-zero on {nrem} of the {len(vals)} rows '
                                        f'(values of the condition: {sorted(set(vals))[:8]})', info, after['excluded'], nrem, where='Database.remove: excludedData')
                        if why is None and (after['cols'] != before['cols']):
                            why, where = 'remove changed the columns', 'Database.remove'
                    elif op[0] in ('add_column', 'define_variable'):
                        vals = [f2b(py_eval(op[2], r)) for r in rd]
                        exp = [[r[0], r[1] + [v]] for r, v in zip(before['rows'], vals)]
                        if after['rows'] != exp or after['cols'] != before['cols'] + [op[1]]:
                            why, where = 'add_column did not store the value of the formula on every row next to the unchanged columns', 'Database.add_column'
                    elif op[0] == 'scale':
                        j = before['cols'].index(op[1])
                        s = b2f(op[2])
                        exp = [[r[0], [f2b(b2f(v) * s) if i == j else v for i, v in enumerate(r[1])]] for r in before['rows']]
                        if after['rows'] != exp or after['cols'] != before['cols']:
                            why, where = 'scale_column did not multiply exactly one column', 'Database.scale_column'
                    elif op[0] == 'panel':
                        j = before['cols'].index(op[1])
                        if sorted(r[1] for r in after['rows']) != sorted(r[1] for r in before['rows']):
                            why, where = 'panel() changed the rows', 'Database.panel'
                        elif not map_consistent(after) or [r[0] for r in after['rows']] != list(range(len(after['rows']))):
                            why, where = 'after panel() the individual map does not describe the data', 'Database.panel'
                        else:
                            # the observations of an individual keep their order
                            for v in {r[1][j] for r in before['rows']}:
                                if [r[1] for r in before['rows'] if r[1][j] == v] != [r[1] for r in after['rows'] if r[1][j] == v]:
                                    why, where = 'panel() changed the order of the observations of an individual', W_PANEL_ORDER
                                    break
                    if why is None and op[0] != 'panel' and before['panel'] is not None and after['map'] != before['map'] and op[0] != 'remove':
                        why, where = 'the individual map changed', 'Database'
                else:
                    # a refused call must leave the object as it was
                    if {k: after[k] for k in ('cols', 'rows', 'excluded', 'map')} != {k: before[k] for k in ('cols', 'rows', 'excluded', 'map')}:
                        why, where = f'a refused call ({o[1]}) changed the data', 'Database'
                    elif after['panel'] != before['panel']:
                        why, where = f'a refused panel() call ({o[1]}) left panelColumn = {after["panel"]!r}', W_PANEL_FAIL
                        d.panelColumn = before['panel']  # continue the sequence from a consistent object
                        state = capture(d)
                        after = state
                if why:
                    res.violate(f'step {step} {op[0]}: {why}', info, {'after': _brief(after), 'outcome': o[1] if o[0] == 'err' else 'ok'}, 'see the statement of C13', where=where)
                if sorted(after['variables']) != sorted(after['cols']):
                    res.tally('variables dict differs from the columns (stale __bioRemove__)')
                # ---- model, from the real state before the step
                req = {'op': 'step', 'db': for_model(before), 'call': call}

                def cb(ans, before=before, after=after, o=o, op=op, info=info, unique=unique):
                    ans = unsign(ans)
                    for key in ('repaired', 'as_coded'):
                        st = ans.get(key, {}).get('ok')
                        if st is not None and st.get('panel') is None and st.get('map') == []:
                            st['map'] = None
                    m = ans.get('repaired', {})
                    if 'err' in m:
                        if o[0] != 'err' or o[1] != m['err']:
                            res.diverge(f'step {info["step"]} {op[0]}: outcome', info, m, o[1] if o[0] == 'err' else 'ok')
                        return
                    if o[0] == 'err':
                        res.diverge(f'step {info["step"]} {op[0]}: outcome', info, 'ok', o[1])
                        return
                    ms = m['ok']
                    real = for_model(after)
                    if ms == real:
                        return
                    where = ''
                    if op[0] == 'remove':
                        ac = ans.get('as_coded', {}).get('ok')
                        if ac is not None and ac == real:
                            where = W_DUP if not unique else (W_PANEL_REMOVE if before['panel'] is not None else '')
                    if op[0] == 'panel':
                        a2, m2 = dict(real), dict(ms)
                        a2['rows'], m2['rows'] = canon_within(real), canon_within(ms)
                        if a2 == m2:
                            where = W_PANEL_ORDER
                    res.diverge(f'step {info["step"]} {op[0]}: state after the call', info, _brief(ms), _brief(real), where=where)

                badd(ctx, res, req, cb, info)
                continue
            # ------------------------------------------------------------------ read-only operations
            if (op[0] in ('count', 'counts', 'groups') and op[1] not in before['cols']) or (op[0] == 'values' and not vars_ok(op[1])):
                res.tally('skipped: column absent')
                continue
            if op[0] == 'split':
                o = outcome(lambda: d.split(op[1], groups=op[2]))
                after = capture(d)
                if after != before:
                    res.violate(f'step {step} split changed the database', info, _brief(after), _brief(before), where='Database.split')
                if o[0] == 'err':
                    if op[1] >= 2 and not (op[2] is not None and before['panel'] not in (None, op[2])):
                        res.violate(f'step {step} split({op[1]}, {op[2]}) raised {o[1]}', info, o[1], 'folds', where='Database.split')
                    continue
                folds = [[ev.estimation.index.tolist(), ev.validation.index.tolist(), frame_rows(ev.estimation), frame_rows(ev.validation)] for ev in o[1]]
                gcol = op[2] if before['panel'] is None else before['panel']
                # oracle (rows as (label, values) pairs compared as multisets, so it is also right with duplicate labels):
                # k folds; validation parts = every row once; estimation = complement by position; groups together
                key = lambda rows: sorted(json.dumps(r) for r in rows)  # noqa: E731
                allrows = key(before['rows'])
                why = None
                if len(folds) != op[1]:
                    why = f'{len(folds)} folds for {op[1]} slices'
                elif key([r for f in folds for r in f[3]]) != allrows:
                    why = 'the validation parts do not contain every row exactly once'
                else:
                    for fi, f in enumerate(folds):
                        if key(f[2] + f[3]) != allrows:
                            why = (f'fold {fi}: estimation part ({len(f[2])} rows) + validation part ({len(f[3])} rows) is not the whole table '
                                   f'({len(before["rows"])} rows): the estimation part is not the complement of the validation part')
                            break
                    if why is None and gcol is not None:
                        j = before['cols'].index(gcol)
                        for f in folds:
                            vs = {r[1][j] for r in f[3]}
                            if any(r[1][j] in vs for r in f[2]):
                                why = 'rows of one group are separated'
                                break
                if why:
                    res.violate(f'step {step} split({op[1]}, groups={gcol}): {why}', info, [f[:2] for f in folds], 'a partition into folds', where='Database.split')
                groups = None if gcol is None else [[r[0], r[1][before['cols'].index(gcol)]] for r in before['rows']]
                req = {'op': 'folds', 'all': labels, 'k': op[1], 'folds': [[f[0], f[1]] for f in folds], 'groups': groups}

                def cb(ans, info=info, folds=folds, gcol=gcol, op=op, unique=unique):
                    # (the label-based groupsUnsplit relation needs pairwise different labels; with duplicates the oracle above decides on the values)
                    if ans.get('partition') is not True or (gcol is not None and unique and ans.get('unsplit') is not True) or (gcol is None and ans.get('sizes') is not True):
                        res.diverge(f'step {info["step"]} split: relation IsFoldPartition / groupsUnsplit / sizes on the real folds', info, ans, [f[:2] for f in folds])

                badd(ctx, res, req, cb, info)
                res.traces_validated += 1
            elif op[0] in ('sample', 'sample_map'):
                if op[0] == 'sample':
                    o = outcome(lambda: d.sample_with_replacement(op[1]))
                else:
                    o = outcome(lambda: d.sample_individual_map_with_replacement(op[1]))
                after = capture(d)
                if after != before:
                    res.violate(f'step {step} {op[0]} changed the database', info, _brief(after), _brief(before), where='Database.sample')
                if o[0] == 'err':
                    if not (op[0] == 'sample_map' and before['panel'] is None) and before['rows']:
                        res.violate(f'step {step} {op[0]} raised {o[1]}', info, o[1], 'a sample', where='Database.sample')
                    continue
                if op[0] == 'sample':
                    sample = frame_rows(o[1])
                    size = len(before['rows']) if op[1] is None else op[1]
                    pool = before['rows']
                    if len(sample) != size or any(s not in pool for s in sample):
                        res.violate(f'step {step} sample_with_replacement: size {len(sample)} (asked {size}) or a row that is not in the table', info, sample[:3], 'rows of the table', where='Database.sample_with_replacement')
                    badd(ctx, res, {'op': 'bootstrap', 'rows': pool, 'sample': sample},
                                  lambda a, info=info: None if a.get('ok') is True else res.diverge(f'step {info["step"]} relation IsBootstrapOf on the real sample', info, a, ''), info)
                else:
                    sample = [[f2b(float(i)), int(r[0]), int(r[1])] for i, r in zip(o[1].index.tolist(), o[1].to_numpy().tolist())]
                    size = len(before['map'] or []) if op[1] is None else op[1]
                    j = before['cols'].index(before['panel'])
                    bad = None
                    for (i, s, e) in sample:
                        pos = [p for p, r in enumerate(before['rows']) if r[1][j] == i]
                        if not pos or pos != list(range(s, e + 1)):
                            bad = [i, s, e]
                    if len(sample) != size or bad:
                        res.violate(f'step {step} sample_individual_map_with_replacement returns {bad}: not an individual of the data with the positions of its rows', info, sample[:3],
                                    'existing individuals', where=W_PANEL_REMOVE if not map_consistent(before) else 'Database.sample_individual_map_with_replacement')
                res.traces_validated += 1
            elif op[0] == 'extract':
                o = outcome(lambda: d.extract_rows(op[1]))
                n = len(before['rows'])
                ok_range = all(0 <= i < n for i in op[1])
                if o[0] == 'ok':
                    got = frame_rows(o[1].data)
                    exp = [before['rows'][i] for i in op[1]] if ok_range else None
                    if got != exp:
                        res.violate(f'step {step} extract_rows({op[1]}) does not return the rows at these positions', info, got, exp, where='Database.extract_rows')
                elif ok_range and op[1]:
                    res.violate(f'step {step} extract_rows({op[1]}) raised {o[1]}', info, o[1], 'rows', where='Database.extract_rows')
                if not op[1]:
                    continue  # empty selection: Database() refuses an empty table
                badd(ctx, res, {'op': 'extract', 'db': for_model(before), 'pos': op[1]},
                              lambda a, o=o, info=info: None if ((('ok' in a) and o[0] == 'ok' and unsign(a['ok']) == frame_rows(o[1].data)) or (('err' in a) and o[0] == 'err' and a['err'] == o[1]))
                              else res.diverge(f'step {info["step"]} extract_rows', info, a, o[1] if o[0] == 'err' else frame_rows(o[1].data)), info)
            elif op[0] == 'count':
                o = outcome(lambda: int(d.count(op[1], b2f(op[2]))))
                j = before['cols'].index(op[1])
                exp = sum(1 for r in before['rows'] if b2f(r[1][j]) == b2f(op[2]))
                if o != ('ok', exp):
                    res.violate(f'step {step} count({op[1]}, {b2f(op[2])}) = {o[1]}', info, o[1], exp, where='Database.count')
                badd(ctx, res, {'op': 'count', 'db': for_model(before), 'col': op[1], 'value': op[2]},
                              lambda a, o=o, info=info: None if a.get('ok') == o[1] else res.diverge(f'step {info["step"]} count', info, a, o[1]), info)
            elif op[0] == 'counts':
                # count returns the number of rows that HOLD the value: asked for every value of the column and for values next to
                # them (adjacent doubles, 1e-12 .. 1e-6 away, one unit away, truncated / rounded), which it must not count
                j = before['cols'].index(op[1])
                colbits = [r[1][j] for r in before['rows']]
                colvals = [b2f(b) for b in colbits]
                asked = count_values(colbits, op[2])
                got = []
                for w in asked:
                    o = outcome(lambda w=w: int(d.count(op[1], w)))
                    exp = sum(1 for v in colvals if v == w)
                    got.append(o[1])
                    if o != ('ok', exp):
                        near = sorted({v for v in colvals if v != w}, key=lambda v: abs(v - w))[:2]
                        res.violate(f'step {step} count({op[1]}, {w!r}) = {o[1]}: the column holds that value on {exp} of its {len(colvals)} rows'
                                    f' (nearest other values: {near})', dict(info, value=w), o[1], exp, where='Database.count')
                        break
                else:
                    distinct = [b2f(b) for b in dict.fromkeys(colbits)]
                    if len(distinct) <= 10:
                        tot = sum(g for w, g in zip(asked, got) if any(w == v for v in distinct))
                        if tot != len(colvals):   # implied by the clause above; kept as the statement of C13.count_exact
                            res.violate(f'step {step} the counts of the distinct values of {op[1]} add up to {tot}, the table has {len(colvals)} rows', info, tot, len(colvals), where='Database.count')
                    badd(ctx, res, {'op': 'counts', 'db': for_model(before), 'col': op[1], 'values': [_f2b(w) for w in asked]},
                         lambda a, got=got, info=info, n=len(colvals): None if (a.get('ok') == got and a.get('total') == n)
                         else res.diverge(f'step {info["step"]} counts', info, a, got), info)
                res.tally('count values asked: %d' % (10 * (len(asked) // 10)))
            elif op[0] == 'flatten':
                o = outcome(lambda: d.generate_flat_panel_dataframe(identical_columns=op[1]))
                if before['panel'] is None:
                    if o[0] != 'err':
                        res.violate(f'step {step} flattening a non-panel database did not raise', info, 'ok', 'BiogemeError', where='Database.generate_flat_panel_dataframe')
                    continue
                if not before['rows']:
                    res.tally('flatten of an emptied table (any outcome accepted)')
                    continue
                if o[0] == 'err':
                    res.violate(f'step {step} generate_flat_panel_dataframe raised {o[1]}', info, o[1], 'flat table', where='Database.generate_flat_panel_dataframe')
                    continue
                flat = o[1]
                got = {}
                for i, row in zip(flat.index.tolist(), flat.to_numpy(dtype=float).tolist()):
                    got[f2b(float(i))] = {str(c): f2b(v) for c, v in zip(flat.columns, row) if not math.isnan(v)}
                # oracle: per individual, observation k = k-th row of that individual in the current table
                j = before['cols'].index(before['panel'])
                ident = set(op[1] or []) | {before['panel']}
                if op[1] is None:
                    ident = {c for ci, c in enumerate(before['cols']) if all(len({r[1][ci] for r in before['rows'] if r[1][j] == v}) == 1 for v in {r[1][j] for r in before['rows']})}
                exp = {}
                for v in {r[1][j] for r in before['rows']}:
                    mine = [r[1] for r in before['rows'] if r[1][j] == v]
                    cells = {c: mine[0][ci] for ci, c in enumerate(before['cols']) if c in ident and ci != j}
                    for k, r in enumerate(mine):
                        for ci, c in enumerate(before['cols']):
                            if c not in ident:
                                cells[f'{k + 1}_{c}'] = r[ci]
                    exp[v] = cells
                if got != exp:
                    res.violate(f'step {step} generate_flat_panel_dataframe differs from the observations of the table', info, _brief(got), _brief(exp), where='Database.generate_flat_panel_dataframe')
                badd(ctx, res, {'op': 'flatten', 'db': for_model(before), 'identical': op[1]},
                              lambda a, got=got, info=info: None if {x[0]: {n: v for n, v in x[1]} for x in unsign(a.get('ok', []))} == got
                              else res.diverge(f'step {info["step"]} flatten', info, _brief(a), _brief(got)), info)
            elif op[0] == 'values':
                o = outcome(lambda: [f2b(float(v)) for v in d.values_from_database(to_expr(op[1]))])
                exp = [f2b(py_eval(op[1], r)) for r in rd]
                if o[0] == 'ok' and o[1] != exp:
                    res.violate(f'step {step} values_from_database differs from the value of the formula on the rows', info, o[1], exp, where='Database.values_from_database')
                elif o[0] == 'err' and rd and vars_ok(op[1]):
                    res.violate(f'step {step} values_from_database raised {o[1]}', info, o[1], exp, where='Database.values_from_database')
                badd(ctx, res, {'op': 'eval', 'db': for_model(before), 'fm': op[1]},
                              lambda a, o=o, info=info: None if (unsign(a.get('ok')) == o[1] if o[0] == 'ok' else a.get('err') == o[1]) else res.diverge(f'step {info["step"]} values_from_database', info, a, o[1]), info)
            elif op[0] == 'groups':
                import biogeme.tools.database as tdb

                o = outcome(lambda: int(tdb.count_number_of_groups(d.data.copy(), op[1])))
                j = before['cols'].index(op[1])
                vals = [r[1][j] for r in before['rows']]
                exp = sum(1 for i, v in enumerate(vals) if i == 0 or vals[i - 1] != v)
                if o != ('ok', exp):
                    res.violate(f'step {step} count_number_of_groups = {o[1]}', info, o[1], exp, where='tools.database.count_number_of_groups')
                badd(ctx, res, {'op': 'groups', 'values': vals},
                              lambda a, o=o, info=info: None if a.get('runs') == o[1] else res.diverge(f'step {info["step"]} count_number_of_groups', info, a, o[1]), info)
            if capture(d) != before and op[0] not in ('split', 'sample', 'sample_map'):
                res.violate(f'step {step} {op[0]} (read-only) changed the database', info, _brief(capture(d)), _brief(before), where='Database')
    res.count({'table': case['table'], 'ops': case['ops']}, nontrivial=nontrivial)
    res.tally('len=%d' % len(case['ops']))
    if known_dup:
        res.tally('tables with duplicate labels')


def _vars(fm):
    if fm[0] == 'var':
        return [fm[1]]
    if fm[0] == 'num':
        return []
    return [v for x in fm[1:] for v in _vars(x)]


def _brief(x):
    s = json.dumps(x, default=str)
    return x if len(s) < 1500 else s[:1500] + '…'


# ============================================================================ model self-check of the relations (split model, every shuffle)


def check_split_model(ctx, res, rng, n_cases):
    for _ in range(n_cases):
        t = gen_table(rng)
        rows = [[l, [f2b(v) for v in r]] for l, r in zip(t['index'], t['rows'])]
        k = rng.choice([1, 2, 3, 4, 7])
        grouped = rng.random() < 0.5
        j = t['cols'].index('id')
        n_items = len({r[1][j] for r in rows}) if grouped else len(rows)
        perm = list(range(n_items))
        rng.shuffle(perm)
        labels = [r[0] for r in rows]
        req = {'op': 'split_model', 'rows': rows, 'k': k, 'perm': perm, 'group_col': j if grouped else None}
        case = {'kind': 'split_model', 'rows': rows, 'k': k, 'perm': perm, 'grouped': grouped}

        def cb(ans, case=case, labels=labels, rows=rows, j=j, grouped=grouped, k=k):
            folds = ans.get('folds')
            res.count(case, nontrivial=False)
            ctx.batch.add({'op': 'folds', 'all': labels, 'k': k, 'folds': folds, 'groups': [[r[0], r[1][j]] for r in rows] if grouped else None},
                          lambda a: None if a.get('partition') is True and (a.get('unsplit') is True if grouped else a.get('sizes') is True)
                          else res.diverge('the model split does not satisfy its own relations', case, a, folds))

        ctx.batch.add(req, cb)


def check_array_split(ctx, res):
    reqs, exp = [], []
    for n in range(0, 14):
        for k in (1, 2, 3, 4, 5, 9):
            reqs.append({'op': 'array_split', 'n': n, 'k': k})
            exp.append([list(map(int, p)) for p in np.array_split(np.arange(n), k)])

    def cb(ans):
        for r, a, e in zip(reqs, ans, exp):
            res.count({'kind': 'array_split', **r}, nontrivial=False)
            if a.get('parts') != e:
                res.diverge('numpy.array_split vs Tbl.arraySplit', r, a.get('parts'), e)

    ctx.batch.add_many(reqs, cb)


# ============================================================================ corpus / check / search / replay

F1, F2 = f2b(1.0), f2b(2.0)
CORPUS = [
    # gaps in the index: remove, then add a column, then split
    {'kind': 'ops', 'np_seed': 1, 'table': {'cols': ['id', 'x', 'y'], 'index': [0, 1, 2, 3, 4, 5], 'int_cols': ['id'],
                                             'rows': [[1, 1.0, 0.0], [1, 2.0, 1.0], [2, 3.0, 0.0], [2, 4.0, 1.0], [3, 5.0, 0.0], [3, 6.0, 0.0]]},
     'ops': [['remove', ['var', 'y']], ['add_column', 'b10', ['mul', ['var', 'x'], ['num', F2]]], ['scale', 'x', f2b(0.5)], ['split', 3, None], ['split', 2, 'id'],
             ['extract', [0, 2]], ['count', 'b10', f2b(6.0)], ['sample', None]]},
    # known: duplicate labels (pd.concat of two frames)
    {'kind': 'ops', 'np_seed': 2, 'table': {'cols': ['x'], 'index': [0, 1, 0, 1], 'int_cols': [], 'rows': [[1.0], [2.0], [2.0], [1.0]]},
     'ops': [['remove', ['eq', ['var', 'x'], ['num', F2]]]]},
    # known: remove after panel
    {'kind': 'ops', 'np_seed': 3, 'table': {'cols': ['id', 'y'], 'index': [0, 1, 2, 3, 4, 5], 'int_cols': ['id'],
                                             'rows': [[1, 0.0], [1, 1.0], [2, 0.0], [2, 1.0], [3, 0.0], [3, 0.0]]},
     'ops': [['panel', 'id'], ['remove', ['var', 'y']], ['sample_map', None]]},
    # known: panel() permutes the observations of an individual
    {'kind': 'ops', 'np_seed': 4, 'table': {'cols': ['id', 't'], 'index': list(range(9)), 'int_cols': ['id'],
                                             'rows': [[3, 0.0], [3, 1.0], [3, 2.0], [2, 0.0], [2, 1.0], [2, 2.0], [1, 0.0], [1, 1.0], [1, 2.0]]},
     'ops': [['panel', 'id'], ['flatten', None]]},
    # known: refused panel() leaves panelColumn set
    {'kind': 'ops', 'np_seed': 5, 'table': {'cols': ['id', 'x'], 'index': [0, 1, 2], 'int_cols': ['id'], 'rows': [[1, 0.5], [2, 1.0], [1, 1.5]]},
     'ops': [['panel', 'id'], ['split', 2, None]]},
]


CORPUS += [
    # split with duplicate labels (plain and grouped): estimation part = complement BY POSITION
    {'kind': 'ops', 'np_seed': 6, 'table': {'cols': ['id', 'x'], 'index': [0, 1, 2, 0, 1, 2], 'int_cols': ['id'],
                                             'rows': [[1, 0.5], [1, 1.0], [2, 1.5], [2, 2.0], [3, 2.5], [3, 3.0]]},
     'ops': [['split', 2, None], ['split', 3, None], ['split', 2, 'id'], ['split', 3, 'id']]},
    # remove with conditions that are not 0/1 indicators: difference of columns, code column, fractional column
    {'kind': 'ops', 'np_seed': 7, 'table': {'cols': ['code', 'a', 'b'], 'index': [3, 4, 8, 9, 11], 'int_cols': ['code'],
                                             'rows': [[2, 0.5, 0.5], [0, 1.0, -2.0], [-3, 0.0, 0.0], [0, 0.5, 0.5], [5, -1.5, 1.5]]},
     'ops': [['remove', ['sub', ['var', 'a'], ['var', 'b']]]]},
    {'kind': 'ops', 'np_seed': 8, 'table': {'cols': ['code', 'a'], 'index': [0, 1, 2, 3], 'int_cols': ['code'], 'rows': [[2, 0.5], [0, 0.0], [-3, 0.5], [0, 0.0]]},
     'ops': [['remove', ['var', 'code']]]},
    {'kind': 'ops', 'np_seed': 9, 'table': {'cols': ['code', 'a'], 'index': [0, 1, 2, 3], 'int_cols': ['code'], 'rows': [[2, 0.5], [0, 0.0], [-3, 0.5], [0, 0.25]]},
     'ops': [['remove', ['var', 'a']], ['panel', 'code']]},
]


CORPUS += [
    # identifiers one unit apart, amounts 1e-9 apart, adjacent doubles: counted one by one, before and after a removal (gaps in the index)
    {'kind': 'ops', 'np_seed': 10, 'table': {'cols': ['hh', 'amount', 'id', 'u'], 'index': [0, 1, 2, 3, 4, 5], 'int_cols': ['hh', 'id'],
                                              'rows': [[73001205.0, 0.0, 1, 1.0], [73001206.0, 1e-9, 1, 1.0000000000000002], [73001206.0, 4.75, 1, 1.0],
                                                       [73001207.0, 4.750000001, 2, 0.9999999999999999], [73001209.0, 0.0, 2, 1.0], [73001205.0, 4.75, 2, 1.0]]},
     'ops': [['counts', 'hh', 1], ['counts', 'amount', 2], ['counts', 'u', 3], ['remove', ['sub', ['var', 'u'], ['num', F1]]], ['counts', 'hh', 4],
             ['counts', 'amount', 5], ['count', 'hh', f2b(73001208.0)], ['panel', 'id'], ['flatten', None], ['counts', 'amount', 6]]},
]


def is_dup_case(case):
    idx = ((case or {}).get('table') or {}).get('index') or []
    return len(set(idx)) != len(idx)


def remove_after_panel(case):
    ops = (case or {}).get('ops') or []
    seen = False
    for op in ops:
        if op[0] == 'panel':
            seen = True
        if op[0] == 'remove' and seen:
            return True
    return False


def has_panel(case):
    return any(op[0] == 'panel' for op in (case or {}).get('ops') or [])


MATCHERS = {'duplicate_labels': is_dup_case, 'remove_after_panel': remove_after_panel, 'has_panel': has_panel}


def run_case(ctx, res, case):
    try:
        run_ops_case(ctx, res, case)
    except core.LeanError:
        raise
    except Exception as e:  # noqa: BLE001
        import traceback

        tb = traceback.extract_tb(e.__traceback__)
        site = next((f'{os.path.basename(f.filename)}:{f.lineno} {f.name}' for f in reversed(tb)), '')
        res.diverge(f'the case raised {type(e).__name__}: {str(e)[:200]} ({site})', case, 'no exception', type(e).__name__)


def strip_order_known(case):
    """main stream: the panel order finding is excluded by comparing the rows of an individual as a multiset — done in the oracle/canonicalisation, see W_PANEL_ORDER"""
    return case


def _guard_batch(ctx, res):
    """no exception inside a model-comparison callback may end the run: it is recorded as a divergence"""
    if getattr(ctx.batch, '_guarded', False):
        return
    add, add_many = ctx.batch.add, ctx.batch.add_many

    def wrap(cb, req):
        def guarded(ans):
            try:
                cb(ans)
            except core.LeanError:
                raise
            except Exception as e:  # noqa: BLE001
                res.diverge(f'comparison with the model failed: {type(e).__name__}: {str(e)[:150]}', {'kind': 'model-answer'}, str(ans)[:300], str(req)[:300])

        return guarded

    ctx.batch.add = lambda req, cb: add(req, wrap(cb, req))
    ctx.batch.add_many = lambda reqs, cb: add_many(reqs, wrap(cb, reqs))
    ctx.batch._guarded = True


def check(ctx) -> Result:
    res = Result(rule=RULE, tolerance='exact (bit patterns of doubles, labels, names)')
    _guard_batch(ctx, res)
    rng = ctx.rng
    for c in CORPUS:
        run_case(ctx, res, c)
        res.tally('corpus')
    for _ in range(ctx.n(2500, 30000)):
        run_case(ctx, res, gen_case(rng))
    # dedicated streams for the shapes of the known findings
    for _ in range(ctx.n(60, 600)):
        t = gen_table(rng, dup=True)
        ops = gen_ops(rng, t)[:4] + [['split', rng.choice([2, 3, 4]), None], ['split', rng.choice([2, 3]), 'id'], ['remove', gen_cond(rng, t['cols'])],
                                     ['split', 2, rng.choice([None, 'id'])]]
        run_case(ctx, res, {'kind': 'ops', 'table': t, 'ops': ops, 'np_seed': rng.randint(0, 2**31 - 1)})
    for _ in range(ctx.n(80, 1000)):
        t = gen_table(rng, panelable=True)
        ops = [['panel', 'id']] + gen_ops(rng, t, allow_known=True)
        run_case(ctx, res, {'kind': 'ops', 'table': t, 'ops': ops, 'np_seed': rng.randint(0, 2**31 - 1)})
    for _ in range(ctx.n(30, 300)):
        t = gen_table(rng, panelable=False)
        run_case(ctx, res, {'kind': 'ops', 'table': t, 'ops': [['panel', 'id']] + gen_ops(rng, t)[:3], 'np_seed': rng.randint(0, 2**31 - 1)})
    # values of different magnitudes: count / remove / panel / flatten must tell nearly equal values apart, also after earlier operations
    for _ in range(ctx.n(150, 1500)):
        t = gen_table(rng, wide=True)
        ops = gen_ops(rng, t)[: rng.randint(0, 3)] + [['counts', c, rng.randint(0, 10**6)] for c in rng.sample(t['cols'], min(3, len(t['cols'])))]
        if t['panelable'] and rng.random() < 0.5:
            ops += [['panel', 'id'], ['flatten', None], ['split', 2, None], ['groups', 'id']]
        run_case(ctx, res, {'kind': 'ops', 'table': t, 'ops': ops, 'np_seed': rng.randint(0, 2**31 - 1)})
        res.tally('stream: magnitudes')
    check_split_model(ctx, res, rng, ctx.n(200, 2000))
    check_array_split(ctx, res)
    ctx.batch.flush()
    ctx.batch.flush()  # callbacks of the split model queue a second round
    return res


def search(ctx, res, broken):
    rng = core.rng_for('C13-search', ctx.seed)
    for _ in range(1500):
        r2 = Result()
        run_case(ctx, r2, gen_case(rng))
        ctx.batch.items.clear()
        fresh = [v for v in r2.violations if not _is_known(ctx, v)]
        if fresh:
            res.violations.extend(fresh[:1])
            return


def _is_known(ctx, v):
    for f in getattr(ctx, 'findings', []) or []:
        if f.get('kind') != 'known' or f.get('where') != v.get('where'):
            continue
        pred = MATCHERS.get(f.get('match', ''))
        if f.get('match') and pred is None:
            continue
        if pred is None or pred(v.get('case')):
            return f['id']
    return None


def replay(ctx, obj):
    case = obj.get('case') or {}
    out = {'replayed': obj.get('what')}
    if not isinstance(case, dict) or case.get('kind') != 'ops':
        out.update({'property_fails': False, 'note': 'nothing to replay (no concrete input in this file)'})
        return out
    r = Result()
    run_case(ctx, r, {k: case[k] for k in ('kind', 'table', 'ops', 'np_seed')})
    ctx.batch.items.clear()
    fresh = [v for v in r.violations if not _is_known(ctx, v)]
    out.update({'property_fails': bool(fresh), 'violations': [{k: v[k] for k in ('what', 'observed', 'expected', 'where')} for v in fresh[:3]],
                'known_findings_also_seen': sorted({_is_known(ctx, v) for v in r.violations if _is_known(ctx, v)})})
    return out
