"""C14 — what is written to disk reads back unchanged and never overwrites earlier output.

Tie: translator (T) + correspondence (C).

* T: `Generated/DefaultParams.lean` is rewritten on every run from
  `biogeme.default_parameters.all_parameters_tuple()` and `biogeme.optimization.algorithms`;
  the table obligation (`tableOK`, by `decide`) and the instances of the generic theorems
  for the live table are re-checked and audited.
* C (all in scratch directories, real code through its public API):
  (i)   `Parameters` + generated `set_value` chains -> `dump_file` -> file parsed by an independent
        TOML parser (tomllib) -> `read_file` into a fresh `Parameters()`; outcomes, document and
        values compared with the Lean model; hand-written files (8 Boolean spellings, native
        TOML Booleans, unknown sections/entries) read by the real code and by the model;
  (ii)  results objects (real estimations and generated `RawResults`) -> `write_pickle` ->
        `bioResults(pickle_file=...)`: every statistic and every report compared;
  (iii) every report parsed for every parameter name and value (oracle: value at the report's
        precision) and compared with the model rows;
  (iv)  histories of 1-120 `write_html/write_latex/write_f12/write_pickle/dump_on_file`, deletions
        and `create_backup` in one directory: produced names and final directory compared with
        the model, content hashes of every existing file before/after each step (oracle);
        `estimate(recycle=True)` must load the pickle written last; `validate` writes only new files;
  (v)   backup histories: repeated `create_backup` (copy / rename) of one file where the backup numbers in use are arbitrary
        (backups removed by the user, look-alike names, file re-created or missing): same oracle and model comparison as (iv);
  (vi)  recycling with several models in one directory: saved results of a model interleaved with those of models whose
        names contain its name (prefix, suffix, other case) and with files that are not saved results:
        `estimate(recycle=True)` / `recycled_estimation()` must return the results the model saved last (an estimation of
        the model itself when it saved nothing), `files_of_type` is compared with `Files.ofType`;
  (vii) every KIND of results object (round 3): RawResults built with / without hessian+BHHH, gradient, bootstrap sample, null and initial log
        likelihood, user notes, 1-5 parameters (all 2^5 combinations in every run), real quick_estimate() results (also after an estimation
        with bootstrap on the same object), report files written before saving: attributes present / None / set and the outcome (text or
        kind of exception) of twelve reports / tables compared with `ResObj` (Lean) before saving, after saving and after loading; EVERY
        attribute of the stored object and every report, table, printed form, compile_estimation_results / compile_results_in_directory
        (which load the file themselves), likelihood_ratio_test, get_betas_for_sensitivity_analysis compared between the saved and the
        re-loaded object (same text or same kind of exception); the pickle estimate() itself wrote is loaded and compared with the object
        it returned.
* T (round 3): `Generated/ResultsAttrs.lean` is rewritten on every run from the AST of biogeme.results: every assignment to an attribute of
  the stored object (RawResults.__init__, _calculate_stats with the `is not None` guards around it, the writers, pickling hooks) must be
  the table of the Lean model (`ResObj.sourceTable`, by decide).
* parameters (round 3): values read back through get_value(name[, section]) (compared with `Params.resolve`), the printed form, a BIOGEME
  object built on the dumped file (its parameter set and attributes, old names included), user-added parameters that share the name of an
  existing one in another section (ambiguity of the bare name; known finding FC14-6).
* histories of ONE Parameters object (follow-up of round 3): read_file of incomplete / empty / partly unknown files and of a missing file,
  set_value, add_parameter, dump_file in any order: per operation the outcome, per dump the file (parsed by tomllib) compared with
  `Params.stepP` / `Params.dumpDoc`; oracle: every dumped file read into a fresh object gives every parameter its CURRENT value.
* the NAME of the file as an input (round 5): ~45 fixed + generated parameter-file names (several dots, device-like names, case, spaces, unicode, leading dot /
  dash, long names, characters some systems refuse, sub-directory): whatever name dump_file accepted must read back (also through BIOGEME(parameters=name)),
  is_valid_filename compared with `Params.validFileName`, the reader's values with `Params.readNamed` (finding FC14-7, repaired in /repo by dc35f10: names with one of the characters < > : " backslash | ? *);
  model names of that kind for pickle / report files.  Report completeness at LARGE sizes: results with 15, 16, 40 (thorough: up to 64) parameters through
  every report, both option variants, before and after save / load.
"""

from __future__ import annotations

import datetime
import hashlib
import json
import math
import numbers
import os
import re
import tempfile
import types
from pathlib import Path

import numpy as np

from lib import core
from lib.core import Result, f2b, b2f

READY = True
MANIFEST = dict(
    text='Proof (Lean 4, core): get_new_file_name terminates within |dir|+1 tries with the first free name of the injective sequence '
    'name.ext, name~00.ext, ... (C14.fresh_name, candidates_distinct); one write touches no other file (write_untouched); k successive outputs create k '
    'pairwise different new names and leave every earlier file untouched, by induction over histories (k_writes_distinct); in arbitrary histories with '
    'deletions and backups no later output modifies a file and every produced name is new at that moment (history_never_modifies, produced_name_is_new); '
    'k outputs of one model are named name.ext, name~00.ext, ... in order and the repaired recycling reads the last one (same_name_sequence, recycle_reads_last; '
    'the string order used today is wrong beyond 101 files: recycle_lex_not_latest); create_backup (backup_fresh; backup_first_free: first free number whatever numbers are in use); '
    'files_of_type lists exactly name.ext and name~*.ext (files_of_type_exact), every saved output of the model (files_of_type_lists_own) and no output of another model unless one name is the '
    'other followed by ~... (files_of_type_ignores_other_models, files_of_type_tilde_overlap). Parameter file: decode(encode v) = v for every value of the declared kind (param_roundtrip, bool coded "True"/"False", '
    'bool_spellings), lifted to every admitted value of every entry of the GENERATED default table (table_roundtrip + Generated.defaultParams_ok by decide); '
    'dump-then-read returns exactly the dumped set for all keys (file_roundtrip, keys_preserved, unknown_entry_ignored; Generated.default_file_roundtrip); '
    'the Parameters object as state (values + the document it holds) under any history of read_file / set_value / add_parameter / dump_file: every operation keeps the keys distinct and the '
    'values admitted (Proofs/ParamsHistory.lean), the file dumped at any moment is regenerated from the current values and reads back with the current value of every parameter, a second dump '
    'writes the same file (history_dump_roundtrip, history_value_in_dump; domain: no read_file raising half-way, no value of another kind stored). '
    'Reports list every parameter (reports_list_every_parameter; F12 label = first ten characters: f12_label_short / f12_label_collision); statistics after '
    'loading = statistics before saving given pickle identity (pickle_rederive). Round 3 — the results object as a set of attributes (Model/ResultsObj.lean: '
    'RawResults.__init__, _calculate_stats with its guards, writers, write_pickle, bioResults(pickle_file=), and what each of twelve reports reads): _calculate_stats is '
    'idempotent (stats_idempotent); for EVERY kind of results object (with/without hessian, gradient, bootstrap, null/initial log likelihood, notes; any number of parameters; '
    'any report files written before) the object loaded from the pickle has exactly the attributes of the saved one, hence the same reports or the same error '
    '(results_roundtrip, every_view_same, build_ok_iff); not every attribute is recomputed on load: without hessian secondOrderTable must come from the file, a pickle that '
    'drops the computed attributes loads into an object whose printed form raises (dropping_statistics_loses_information, printed_form_needs_secondOrderTable); which report '
    'exists for which kind (printed_form_total, html_iff_second_derivatives = FC14-4, latex_outcome, f12_outcome: F12 needs the hessian only from two parameters on). '
    'Tie: translators for the default table and for the attribute table of biogeme.results (AST) + correspondence on real Parameters '
    'files, real results objects of every kind (estimated, quick-estimated and generated RawResults), parsed reports, and histories of 1-120 outputs with content hashes.',
    design='DESIGN.md §5 C14',
    technique='Lean 4 theorems over executable models (file-name search, directory histories, parameter coding and document import) + translator-regenerated '
    'default table with decide obligations + differential correspondence with the real code in scratch directories',
    note='Trusted: tomlkit dumps/parse inverse pair on TOML values (validated here against tomllib), pickle identity on RawResults, CPython number formatting, '
    'OS file system (no concurrent writers between the existence test and open). Partial: F12 identifies a parameter by the first ten characters of its name '
    '(format); "admissible" = accepted by the checks and of the declared kind (a Python bool stored in an int/float parameter is accepted by set_value but '
    'not read back: C14.param_roundtrip_needs_type). The numerical content of the statistics is abstract in ResObj (a function of the raw attributes; their values are compared '
    'bit for bit between saved and loaded objects by the harness); results built by hand without gradient / initial log likelihood cannot produce the LaTeX report and the '
    'general-statistics text (modelled: latex_outcome; estimate() never produces such objects). FC14-6 (read_file failed when a user-added parameter is called optimization_algorithm) is fixed in /repo. FC14-7 (dump_file wrote under names, containing one of < > : " backslash | ? *, for which read_file only warns and keeps its own values: witness C14.refused_name_keeps_reader_values; repaired behaviour C14.named_roundtrip_repaired) is fixed in /repo by dc35f10; for every name read_file accepts the round trip is proved (named_roundtrip). Defects found by this check and repaired in /repo (see KNOWN_FINDINGS.json): recycle picked the lexicographically last pickle (FC14-1), generate_flat_panel_dataframe(save_on_file=True) overwrote (FC14-2), LaTeX cells in exponent notation got ".0" appended (FC14-3), files_of_type read the model name as a glob pattern (FC14-5); still listed as known finding: reports of quick_estimate results raise (FC14-4).',
)

TRUSTED = [
    'tomlkit dumps/parse are an inverse pair on TOML values (cross-checked on every case against tomllib)',
    'pickle returns an object equal to the one dumped (hypothesis of C14.pickle_rederive and C14.results_roundtrip; observed on every case: the attributes returned by pickle.load '
    'are tallied against the stored ones, and the table of pickling hooks of RawResults/Beta is part of the generated obligation)',
    'CPython format specifications (.3g, .7g, +19.12e, :02d) — report values are compared at the precision of the format',
    'OS file system: a name reported absent by is_file()/exists() is still absent at open(); names compare byte-wise (case-sensitive)',
    'LAPACK (eigh, svd, pinv) is deterministic on identical input within one process (statistics before/after reload are compared exactly)',
]
ASSUMPTIONS = [
    'admissible parameter value = accepted by the check functions of the parameter and of its declared kind (Boolean only for bool parameters)',
    'a parameter is identified in the F12 report by the first ten characters of its name (ALOGIT format)',
    'directories contain regular files only; file names are compared as strings',
    'the statistics stored inside the Beta objects are modelled as two pseudo attributes (betaStats, betaBootStats) of the results object',
    'reports of results without second derivatives that raise are reported under the known finding FC14-4; what is demanded of them is that the loaded object behaves as the saved one',
]
RULE = (
    'parameter cases: 1-8 set_value calls with admissible/inadmissible values of every kind then dump+read (non-trivial = at least one accepted non-default value); '
    'results cases: generated RawResults (1-5 parameters, adversarial names, singular/non-finite Hessians, bootstrap) and real estimations, pickled and reloaded, '
    'all reports parsed; kinds of results: every combination of hessian / gradient / initial / null log likelihood / bootstrap present or None (32 per run, then random ones with '
    'BHHH missing, 1-5 parameters, report files written before saving) and quick estimations (alone, after an estimation with bootstrap), non-trivial = no hessian or bootstrap or >= 2 parameters; '
    'parameter histories: 3-10 operations on one object (read of an empty / incomplete / partly unknown / invalid file, read of a missing file, set_value with or without section, '
    'add_parameter, dump), always ending with a dump (non-trivial = at least one read and one set_value); '
    'parameter cases with 1-2 user-added parameters sharing a name with a default one (20 %), a BIOGEME object built on the dumped file (30 %); histories: 1-120 outputs of 1-3 models and a database with pre-existing decoy files, deletions, backups (non-trivial = some produced name carries a ~NN suffix '
    'or two or more backups were made); backup histories: 2-14 backups / removals of single backups / re-creations of one file in a directory where the backup numbers in use '
    'are arbitrary (gaps, look-alike names); recycling: 0-101 saved results of a model interleaved with saved results of 0-3 other models whose names contain the name of the '
    'model, plus files that are not saved results (non-trivial = at least two saved results or another model present)'
)

TOML = '[Estimation]\nsave_iterations = "False"\n[Output]\ngenerate_html = "True"\ngenerate_pickle = "True"\n'

GEN = core.LEAN / 'Generated' / 'DefaultParams.lean'
TYPES = ('bool', 'int', 'float', 'str')

W_LATEX = 'results.get_latex: cell formatting'
W_RECYCLE = 'BIOGEME.estimate(recycle=True): choice of the pickle file'
W_FLAT = 'Database.generate_flat_panel_dataframe(save_on_file=True)'
W_QUICK = 'bioResults reports without second derivatives (quick_estimate)'
W_GLOB = 'BIOGEME.files_of_type: the model name is used as a glob pattern'
W_READDBG = 'Parameters.read_file: debug message calls get_value("optimization_algorithm") without section'


def extra_optimization_algorithm(case):
    """MATCHER of FC14-6: the parameter set holds a user-added parameter called optimization_algorithm in a second section"""
    return (case or {}).get('kind') == 'params' and any(x.get('name') == 'optimization_algorithm' for x in (case or {}).get('extra') or [])


# ============================================================================ values


def py2val(v):
    """Python / tomlkit value -> tagged JSON value (type aware: True != 1 != 1.0)"""
    if hasattr(v, 'unwrap') and not isinstance(v, (int, float, str)):
        v = v.unwrap()
    if isinstance(v, (bool, np.bool_)):
        return {'b': bool(v)}
    if isinstance(v, numbers.Integral):
        return {'i': int(v)}
    if isinstance(v, (float, np.floating)):
        x = float(v)
        return {'f': f2b(float('nan')) if math.isnan(x) else f2b(x)}
    if isinstance(v, str):
        return {'s': str(v)}
    return {'other': type(v).__name__}


def val2py(d):
    if 'b' in d:
        return bool(d['b'])
    if 'i' in d:
        return int(d['i'])
    if 'f' in d:
        return b2f(d['f'])
    if 's' in d:
        return d['s']
    raise ValueError(d)


def kind_of(d):
    return next(iter(d))


def declared_kind_ok(tname, d):
    """the value is of the declared kind (property's 'admissible', second half)"""
    k = kind_of(d)
    if tname == 'bool':
        return k == 'b'
    if tname == 'int':
        return k == 'i'
    if tname == 'float':
        return k in ('f', 'i')
    if tname == 'str':
        return k == 's'
    return False


# ============================================================================ translator


def live_table():
    import biogeme.default_parameters as dp
    import biogeme.optimization as opt

    algos = ['automatic'] + list(opt.algorithms.keys())
    entries = []
    for p in dp.all_parameters_tuple():
        tname = getattr(p.type, '__name__', repr(p.type))
        checks = [getattr(c, '__name__', 'opaque-check') for c in (p.check or ())]
        v = py2val(p.value)
        if tname not in TYPES:
            checks.append('opaque-type:' + tname)
            tname = 'str'
        if 'other' in v:
            checks.append('opaque-value:' + v['other'])
            v = {'s': '<opaque>'}
        entries.append({'sec': p.section, 'name': p.name, 'type': tname, 'value': v, 'checks': checks})
    return algos, entries


def lean_str(s: str) -> str:
    out = ['"']
    for ch in s:
        o = ord(ch)
        if ch == '"':
            out.append('\\"')
        elif ch == '\\':
            out.append('\\\\')
        elif ch == '\n':
            out.append('\\n')
        elif ch == '\t':
            out.append('\\t')
        elif ch == '\r':
            out.append('\\r')
        elif o < 32 or o == 127:
            out.append('\\x%02x' % o)
        else:
            out.append(ch)
    out.append('"')
    return ''.join(out)


def lean_val(v) -> str:
    if 'b' in v:
        return '.b ' + ('true' if v['b'] else 'false')
    if 'i' in v:
        return f'.i ({v["i"]})'
    if 'f' in v:
        return '.f 0x%016X' % v['f']
    return '.s ' + lean_str(v['s'])


def render_generated(algos, entries) -> str:
    lines = [
        '/- GENERATED on every run by harness/props/c14.py (translate) from',
        '   biogeme.default_parameters.all_parameters_tuple() and biogeme.optimization.algorithms.',
        '   Do not edit. -/',
        'import Props.C14',
        '',
        'namespace Generated',
        'open Params',
        '',
        'def algos : List String := [' + ', '.join(lean_str(a) for a in algos) + ']',
        '',
        'def defaultParams : List Entry := [',
    ]
    rows = []
    for e in entries:
        rows.append(
            '  ⟨%s, %s, .%s, %s, [%s]⟩'
            % (lean_str(e['sec']), lean_str(e['name']), e['type'], lean_val(e['value']), ', '.join(lean_str(c) for c in e['checks']))
        )
    lines.append(',\n'.join(rows))
    lines += [
        ']',
        '',
        '/-- table obligation: keys pairwise different, every check known, every default of its declared',
        'kind and admitted by its own checks, `is_boolean` exactly on the `bool` entries -/',
        'theorem defaultParams_ok : tableOK algos defaultParams = true := by decide',
        '',
        '/-- every admitted value of every live entry round trips through the file coding -/',
        'theorem default_value_roundtrip (e : Entry) (he : e ∈ defaultParams) (v : Val)',
        '    (hadm : admitted algos e v = true) (hnb : e.type ≠ .bool → v.isBool = false) :',
        '    decode e.type (encode v) = .ok v :=',
        '  C14.table_roundtrip algos defaultParams defaultParams_ok e he v hadm hnb',
        '',
        '/-- the live default set dumped and read into any other values of the same table comes back unchanged -/',
        'theorem default_file_roundtrip (w : Entry → Val) :',
        '    importDocument algos (defaultParams.map fun e => { e with value := w e }) (generateDocument defaultParams)',
        '      = .ok defaultParams :=',
        '  C14.file_roundtrip algos defaultParams w (by decide) (by decide)',
        '',
        'end Generated',
        '',
    ]
    return '\n'.join(lines)


GEN_THEOREMS = ['Generated.defaultParams_ok', 'Generated.default_value_roundtrip', 'Generated.default_file_roundtrip']

GEN_ATTRS = core.LEAN / 'Generated' / 'ResultsAttrs.lean'
GEN_ATTRS_THEOREMS = ['Generated.results_attrs_ok']


def live_attr_table():
    """every assignment to an attribute of the stored results object, read from the live source of biogeme.results (AST):
    (name, 'ctor', []) for `self.<name> = …` in RawResults.__init__ (source order),
    (name, 'stats', guards) for `self.data.<name> = …` in bioResults._calculate_stats, guards = the attributes tested
    `self.data.<g> is not None` by the enclosing if statements,
    (name, 'writer:<method>', []) for such an assignment in any other method of bioResults,
    (class.method, 'pickle-hook', []) for a method that customises pickling / attribute access of RawResults or Beta"""
    import ast
    import inspect

    import biogeme.results as R

    tree = ast.parse(Path(inspect.getsourcefile(R)).read_text(encoding='utf-8'))
    rows = []

    def add(row):
        if row not in rows:
            rows.append(row)

    def targets_of(node):
        if isinstance(node, ast.Assign):
            ts = node.targets
        elif isinstance(node, (ast.AnnAssign, ast.AugAssign)):
            ts = [node.target]
        else:
            return []
        out = []
        for t in ts:
            out += list(t.elts) if isinstance(t, (ast.Tuple, ast.List)) else [t]
        return out

    def is_self(n):
        return isinstance(n, ast.Name) and n.id == 'self'

    def is_self_data(n):
        return isinstance(n, ast.Attribute) and n.attr == 'data' and is_self(n.value)

    def not_none_guard(test):
        if (isinstance(test, ast.Compare) and len(test.ops) == 1 and isinstance(test.ops[0], ast.IsNot) and isinstance(test.comparators[0], ast.Constant)
                and test.comparators[0].value is None and isinstance(test.left, ast.Attribute) and is_self_data(test.left.value)):
            return test.left.attr
        return None

    def walk(stmts, guards, kind, on_self_data, in_handler=False):
        for st in stmts:
            value = getattr(st, 'value', None)
            if in_handler and isinstance(value, ast.Constant) and value.value is None:
                continue   # `except ZeroDivisionError: self.data.x = None` — the case `F … = none` of the model
            extra = []
            if isinstance(value, ast.IfExp) and isinstance(value.orelse, ast.Constant) and value.orelse.value is None and not_none_guard(value.test):
                extra = ['?' + not_none_guard(value.test)]   # `… if self.data.g is not None else None`
            for t in targets_of(st):
                if isinstance(t, ast.Attribute) and (is_self_data(t.value) if on_self_data else is_self(t.value)):
                    add([t.attr, kind, list(guards) + extra])
                elif isinstance(t, ast.Subscript) and isinstance(t.value, ast.Attribute) and on_self_data and is_self_data(t.value.value):
                    pass   # an entry of a container assigned before (secondOrderTable[name] = …)
            if isinstance(st, ast.If):
                gd = not_none_guard(st.test)
                walk(st.body, guards + [gd] if gd else guards, kind, on_self_data)
                walk(st.orelse, guards, kind, on_self_data)
            elif isinstance(st, (ast.For, ast.While, ast.With)):
                walk(st.body, guards, kind, on_self_data)
                walk(getattr(st, 'orelse', []), guards, kind, on_self_data)
            elif isinstance(st, ast.Try):
                walk(st.body, guards, kind, on_self_data)
                for h in st.handlers:
                    walk(h.body, guards, kind, on_self_data, True)
                walk(st.orelse, guards, kind, on_self_data)
                walk(st.finalbody, guards, kind, on_self_data)

    hooks = {'__getstate__', '__setstate__', '__reduce__', '__reduce_ex__', '__getnewargs__', '__getnewargs_ex__', '__getattr__', '__getattribute__',
             '__setattr__', '__slots__', '__copy__', '__deepcopy__'}
    for cls in [n for n in tree.body if isinstance(n, ast.ClassDef)]:
        for item in cls.body:
            names = [item.name] if isinstance(item, (ast.FunctionDef, ast.AsyncFunctionDef)) else [getattr(t, 'id', None) for t in targets_of(item)]
            for nm in names:
                if cls.name in ('RawResults', 'Beta') and nm in hooks:
                    add([f'{cls.name}.{nm}', 'pickle-hook', []])
            if not isinstance(item, ast.FunctionDef):
                continue
            if cls.name == 'RawResults' and item.name == '__init__':
                walk(item.body, [], 'ctor', False)
            elif cls.name == 'RawResults':
                walk(item.body, [], f'method:{item.name}', False)
            elif cls.name == 'bioResults' and item.name == '_calculate_stats':
                walk(item.body, [], 'stats', True)
            elif cls.name == 'bioResults':
                walk(item.body, [], f'writer:{item.name}', True)
    return rows


def render_attrs(rows) -> str:
    body = ',\n'.join('  (%s, %s, [%s])' % (lean_str(n), lean_str(w), ', '.join(lean_str(g) for g in gs)) for n, w, gs in rows)
    return '\n'.join([
        '/- GENERATED on every run by harness/props/c14.py (translate) from the source of biogeme.results (AST):',
        '   every assignment to an attribute of the stored results object, with the `is not None` guards around it.',
        '   Do not edit. -/',
        'import Model.ResultsObj',
        '',
        'namespace Generated',
        '',
        'def liveAttrTable : List (String × String × List String) := [',
        body,
        ']',
        '',
        '/-- the attributes of the model, where each is assigned and under which guards = those of the live source',
        '(same rows, no duplicates on either side) -/',
        'theorem results_attrs_ok :',
        '    (liveAttrTable.all (ResObj.sourceTable.contains ·) && ResObj.sourceTable.all (liveAttrTable.contains ·)',
        '      && decide (liveAttrTable.length = ResObj.sourceTable.length)) = true := by decide +kernel',
        '',
        'end Generated',
        '',
    ])


def translate(ctx):
    algos, entries = live_table()
    text = render_generated(algos, entries)
    GEN.parent.mkdir(exist_ok=True)
    if not GEN.exists() or GEN.read_text() != text:
        GEN.write_text(text)
    atext = render_attrs(live_attr_table())
    if not GEN_ATTRS.exists() or GEN_ATTRS.read_text() != atext:
        GEN_ATTRS.write_text(atext)
    obl = []
    groups = (('Generated.DefaultParams', GEN, GEN_THEOREMS, 'Generated/DefaultParams.lean (live default table)'),
              ('Generated.ResultsAttrs', GEN_ATTRS, GEN_ATTRS_THEOREMS, 'Generated/ResultsAttrs.lean (attributes assigned by the live source of biogeme.results: '
               'constructor, _calculate_stats with its guards, writers, pickling hooks) differs from ResObj.sourceTable or'))
    built = []
    for module, path, theorems, label in groups:
        ok, log = core.lean_build([module])
        if not ok:
            err = next((l.strip()[:300] for l in log.splitlines() if 'error' in l.lower()), log.strip()[-300:])
            obl += [{'name': n, 'ok': False, 'why': f'{label} no longer checks: ' + err} for n in theorems]
        else:
            built.append((module, path, theorems))
    if built:
        with tempfile.NamedTemporaryFile('w', suffix='.lean', dir=core.LEAN, delete=False) as tf:
            for module, _, theorems in built:
                tf.write(f'import {module}\n')
            for _, _, theorems in built:
                for n in theorems:
                    tf.write(f'#print axioms {n}\n')
            tname = tf.name
        try:
            p = core.lake(['env', 'lean', tname])
            out = (p.stdout or '') + (p.stderr or '')
        finally:
            os.unlink(tname)
        for _, path, theorems in built:
            for n in theorems:
                m = re.search(r"'" + re.escape(n) + r"' (does not depend on any axioms|depends on axioms: \[([^\]]*)\])", out, flags=re.S)
                if not m:
                    obl.append({'name': n, 'ok': False, 'why': 'no #print axioms output: ' + out[:200]})
                    continue
                axs = {x.strip() for x in (m.group(2) or '').replace('\n', ' ').split(',') if x.strip()}
                bad = axs - core.ALLOWED_AXIOMS
                obl.append({'name': n, 'ok': not bad, 'why': f'axioms {sorted(bad)}' if bad else ''})
            src = core.strip_comments(path.read_text())
            if core.FORBIDDEN.search(src):
                obl.append({'name': f'{path.stem}:forbidden', 'ok': False, 'why': 'forbidden construct in generated file'})
    return obl


# ============================================================================ (i) parameter files

ODD_STRINGS = ['', 'True', 'False', 'yes', 'a"b', 'x\\y', 'line\nbreak', 'tab\t', 'é≠', "'''", '"""', '#', ' = ', '[s]', '\x01', '\x7f', 'a b', '😀', '3.2.14', 'automatic ']
INTS = [0, 1, -1, 2, 7, 100, 2**31, 2**63 - 1, 2**63, 2**64, -(2**63) - 1, 10**30, -(10**25), 99999]
FLOATS = [0.0, -0.0, 1.0, 0.5, 1e-5, 1e300, 5e-324, 2.2250738585072014e-308, 1.7976931348623157e308, float('inf'), float('-inf'),
          float('nan'), 0.1 + 0.2, 1e22, 1e16, 123456.789, -2.5, 1.0000000000000002, 0.9999999999999999, 1e-7, 99999.5]


def gen_value(rng, tname, algos, mode):
    """mode: 'typed' (value of the declared kind), 'cross' (other kind)"""
    if mode == 'cross':
        tname = rng.choice([t for t in TYPES if t != tname])
    if tname == 'bool':
        return {'b': rng.random() < 0.5}
    if tname == 'int':
        return {'i': rng.choice(INTS + [rng.randint(-1000, 100000)])}
    if tname == 'float':
        r = rng.random()
        if r < 0.6:
            return {'f': f2b(rng.choice(FLOATS))}
        if r < 0.8:
            return {'f': f2b(rng.uniform(-2, 2))}
        if r < 0.9:
            return {'i': rng.choice(INTS)}
        x = b2f(rng.getrandbits(64))
        return {'f': f2b(float('nan')) if math.isnan(x) else f2b(x)}
    if rng.random() < 0.6:
        return {'s': rng.choice(algos)}
    return {'s': rng.choice(ODD_STRINGS)}


def gen_admissible(rng, e, algos):
    """a value of the declared kind that passes the checks of the entry"""
    t, ch = e['type'], e['checks']
    if t == 'bool':
        return {'b': rng.random() < 0.5}
    if t == 'str':
        return {'s': rng.choice(algos)} if 'check_algo_name' in ch else {'s': rng.choice(ODD_STRINGS)}
    if t == 'int':
        pool = [x for x in INTS + [rng.randint(0, 10**6)] if (x > 0 or 'is_positive' not in ch) and (x >= 0 or 'is_non_negative' not in ch)]
        return {'i': rng.choice(pool)}
    pool = [x for x in FLOATS + [rng.uniform(0, 1), rng.uniform(0, 1) * 10 ** rng.randint(-12, 12)]
            if (x > 0 or 'is_positive' not in ch) and (0 <= x <= 1 or 'zero_one' not in ch)]
    x = rng.choice(pool)
    if rng.random() < 0.1 and 'zero_one' not in ch:
        return {'i': rng.choice([1, 3, 10**20])}
    return {'f': f2b(x)}


def gen_param_case(rng, algos, entries):
    n = rng.choice([1, 1, 2, 3, 4, 6, 8])
    if rng.random() < 0.08:
        n = len(entries)
    assigns = []
    pool = list(entries)
    rng.shuffle(pool)
    for k in range(n):
        e = pool[k % len(pool)]
        r = rng.random()
        v = gen_admissible(rng, e, algos) if r < 0.6 else gen_value(rng, e['type'], algos, 'typed' if r < 0.85 else 'cross')
        assigns.append({'sec': e['sec'] if rng.random() < 0.5 else None, 'name': e['name'], 'value': v})
    case = {'kind': 'params', 'assigns': assigns, 'biogeme': rng.random() < 0.3}
    if rng.random() < 0.2:
        # parameters added by the user (Parameters.add_parameter) under the name of an existing one in another section: get_value / set_value
        # without section become ambiguous; the file holds the same name in two tables
        secs = sorted({e['sec'] for e in entries})
        extra = []
        for e in rng.sample(entries, rng.randint(1, 2)):
            extra.append({'name': e['name'], 'from': e['sec'], 'sec': rng.choice([x for x in secs if x != e['sec']] + ['UserSection', 'Zeta', 'A'])})
        case['extra'] = extra
        for x in extra:
            e = next(t for t in entries if t['name'] == x['name'] and t['sec'] == x['from'])
            for sec in (x['sec'], None, x['from']):
                if rng.random() < 0.6:
                    case['assigns'].insert(rng.randint(0, len(case['assigns'])), {'sec': sec, 'name': x['name'], 'value': gen_admissible(rng, e, algos)})
        case['biogeme'] = False
    return case


def with_extras(case, entries):
    """the table of the case: the default entries plus the user-added ones (same type, default and checks as their source)"""
    out = list(entries)
    for x in case.get('extra') or []:
        src = next(t for t in entries if t['name'] == x['name'] and t['sec'] == x['from'])
        if not any(t['name'] == x['name'] and t['sec'] == x['sec'] for t in out):
            out.append({**src, 'sec': x['sec']})
    return out


def add_extras(P, case):
    import biogeme.default_parameters as dp

    for x in case.get('extra') or []:
        src = next(p for p in dp.all_parameters_tuple() if p.name == x['name'] and p.section == x['from'])
        P.add_parameter(src._replace(section=x['sec']))


def outcome_of(fn):
    from biogeme.exceptions import BiogemeError

    try:
        fn()
        return 'ok'
    except BiogemeError:
        return 'refused'
    except TypeError:
        return 'typeError'
    except Exception as e:  # noqa: BLE001
        return 'other:' + type(e).__name__


def doc_of_text(text):
    """independent TOML parser -> [{'sec', 'entries':[{'name','value'}]}]"""
    import tomllib

    d = tomllib.loads(text)
    out = []
    for s, t in d.items():
        if not isinstance(t, dict):
            out.append({'sec': s, 'entries': [{'name': '<not a table>', 'value': py2val(t)}]})
            continue
        out.append({'sec': s, 'entries': [{'name': n, 'value': py2val(v)} for n, v in t.items()]})
    return out


def canon_doc(doc):
    return sorted(([d['sec'], [[e['name'], e['value']] for e in d['entries']]] for d in doc), key=lambda x: x[0])


def state_of(P):
    return {f'{k.section}/{k.name}': py2val(t.value) for k, t in P.all_parameters_dict.items()}


def run_param_case(case):
    """real code: set_value chain -> dump_file -> read_file (fresh object) -> second dump/read"""
    from biogeme.parameters import Parameters

    with core.scratch(None):
        P = Parameters()
        add_extras(P, case)
        steps = []
        for a in case['assigns']:
            v = val2py(a['value'])
            steps.append(outcome_of(lambda: P.set_value(a['name'], v, section=a['sec'])))
        before = state_of(P)
        out = {'steps': steps, 'before': before}
        out['dump'] = outcome_of(lambda: P.dump_file('p.toml'))
        if out['dump'] != 'ok':
            return out
        text = Path('p.toml').read_text(encoding='utf-8')
        h0 = hashlib.sha1(Path('p.toml').read_bytes()).hexdigest()
        try:
            out['doc'] = doc_of_text(text)
        except Exception as e:  # noqa: BLE001
            out['doc_error'] = f'{type(e).__name__}: {e}'
        Q = Parameters()
        add_extras(Q, case)
        out['read'] = outcome_of(lambda: Q.read_file('p.toml'))
        out['after'] = state_of(Q)
        out['file_untouched_by_read'] = hashlib.sha1(Path('p.toml').read_bytes()).hexdigest() == h0
        out['others'] = sorted(p for p in os.listdir('.') if p != 'p.toml')
        if out['read'] == 'ok':
            # what the user reads back, through the public API: get_value with and without section, wrong section, unknown name; printed form
            out['queries'] = queries_for(case, Q)
            out['answers'] = [query(Q, q) for q in out['queries']]
            out['printed'] = [attempt(lambda: str(P)), attempt(lambda: str(Q))]
            out['dump2'] = outcome_of(lambda: Q.dump_file('q.toml'))
            R = Parameters()
            add_extras(R, case)
            out['read2'] = outcome_of(lambda: R.read_file('q.toml'))
            out['after2'] = state_of(R)
            nt = val2py(before.get('MultiThreading/number_of_threads', {'i': 0}))
            if case.get('biogeme') and isinstance(nt, int) and 0 <= nt <= 4096:
                # (a thread count of 2**31 read from the file makes the C++ engine abort the process with std::bad_alloc when the object is built)
                out['biogeme'] = biogeme_on_file('p.toml')
    return out


def queries_for(case, Q):
    keys = [(k.section, k.name) for k in Q.all_parameters_dict]
    qs = [{'sec': s, 'name': n} for s, n in keys] + [{'sec': None, 'name': n} for n in sorted({n for _, n in keys})]
    secs = sorted({s for s, _ in keys})
    for a in case['assigns']:
        qs.append({'sec': secs[(secs.index(a['sec']) + 1) % len(secs)] if a['sec'] in secs else 'NoSuchSection', 'name': a['name']})
    qs.append({'sec': None, 'name': 'not_a_biogeme_parameter'})
    return qs


def query(Q, q):
    from biogeme.exceptions import BiogemeError

    try:
        return {'ok': py2val(Q.get_value(q['name'], section=q['sec']))}
    except BiogemeError:
        return {'err': 'refused'}
    except Exception as e:  # noqa: BLE001
        return {'err': 'other:' + type(e).__name__}


def biogeme_on_file(fname):
    """secondary entry point of reading: a BIOGEME object built on the parameter file; its parameter set and the attributes it exposes"""
    import pandas as pd
    import biogeme.biogeme as bio
    import biogeme.database as db
    from biogeme.expressions import Beta, Variable

    d = db.Database('pdata', pd.DataFrame({'x': [1.0, 2.0], 'y': [1.0, 3.0]}))
    try:
        B = bio.BIOGEME(d, -((Variable('y') - Beta('b', 0, None, None, 0) * Variable('x')) ** 2), parameters=fname)
    except Exception as e:  # noqa: BLE001
        return {'error': type(e).__name__}
    out = {'state': state_of(B.biogeme_parameters), 'file': os.path.basename(B.parameter_file or ''), 'props': {}}
    for n in B.biogeme_parameters.parameter_names:
        if hasattr(type(B), n):
            out['props'][n] = attempt(lambda: py2val(getattr(B, n)))
    for old, new in (('numberOfThreads', 'number_of_threads'), ('numberOfDraws', 'number_of_draws'), ('generatePickle', 'generate_pickle')):
        out['props']['old:' + new] = attempt(lambda: py2val(getattr(B, old)))
    return out


def check_param_case(ctx, res, case, table):
    algos, entries = table
    entries = with_extras(case, entries)
    if case.get('extra'):
        res.tally('params:user-added parameter sharing the name of another one')
    types = {(e['sec'], e['name']): e['type'] for e in entries}
    byname = {}
    for e in entries:
        byname.setdefault(e['name'], []).append(e['sec'])
    real = run_param_case(case)
    accepted_nondefault = any(s == 'ok' for s in real['steps'])
    res.count(case, nontrivial=accepted_nondefault)
    for s in real['steps']:
        res.tally('set_value:' + s)
    # ---- property oracle: every parameter accepted with a value of its declared kind reads back equal
    if real.get('dump') != 'ok':
        res.violate('a parameter set cannot be dumped', case, real.get('dump'), 'file written', where='Parameters.dump_file')
        return
    all_kind_ok = all(declared_kind_ok(types[tuple(k.split('/', 1))], v) for k, v in real['before'].items())
    if all_kind_ok:
        if real.get('read') != 'ok':
            res.violate('a dumped parameter file cannot be read back', case, real.get('read'), 'ok',
                        where=W_READDBG if extra_optimization_algorithm(case) and real.get('read') == 'refused' else 'Parameters.read_file')
        else:
            for k, v in real['before'].items():
                if real['after'].get(k) != v:
                    res.violate(f'parameter {k} does not read back with the value that was dumped', case, real['after'].get(k), v, where='Parameters.dump_file/read_file')
                    break
            if real.get('read2') != 'ok' or real.get('after2') != real['after']:
                res.violate('second dump/read of the parameter set differs', case, real.get('after2'), real['after'], where='Parameters.dump_file/read_file')
            # the same through the public readers: get_value(name, section) and the printed form
            for q, a in zip(real.get('queries', []), real.get('answers', [])):
                exp = real['before'].get(f'{q["sec"]}/{q["name"]}')
                if q['sec'] is not None and exp is not None and a != {'ok': exp}:
                    res.violate(f'get_value({q["name"]!r}, section={q["sec"]!r}) after reading the file back', case, a, exp, where='Parameters.get_value after read_file')
                    break
                if q['sec'] is None and len(byname.get(q['name'], [])) == 1 and a != {'ok': real['before'][f'{byname[q["name"]][0]}/{q["name"]}']}:
                    res.violate(f'get_value({q["name"]!r}) after reading the file back', case, a, real['before'][f'{byname[q["name"]][0]}/{q["name"]}'], where='Parameters.get_value after read_file')
                    break
            pr = real.get('printed')
            if pr and pr[0] != pr[1]:
                res.violate('printed form of the parameter set read back differs from the one dumped', case, _short(pr[1]), _short(pr[0]), where='Parameters.__str__ after read_file')
            bg = real.get('biogeme')
            if bg is not None:
                if 'error' in bg:
                    res.tally('params:BIOGEME refuses the values of the file (' + bg['error'] + ')')
                else:
                    res.tally('params:BIOGEME built on the dumped file')
                    if bg['state'] != real['before']:
                        res.violate('the parameters of a BIOGEME object built on the dumped file differ from the dumped ones', case, _diff(bg['state'], real['before']), '',
                                    where='BIOGEME(parameters=<file>)')
                    for n, v in bg['props'].items():
                        name = n[4:] if n.startswith('old:') else n
                        if name == 'number_of_threads' and real['before'].get('MultiThreading/number_of_threads') == {'i': 0}:
                            continue   # documented: 0 stands for the number of processors, which is what the attribute shows
                        if len(byname.get(name, [])) == 1 and v != real['before'][f'{byname[name][0]}/{name}']:
                            res.violate(f'BIOGEME attribute {n} on the dumped file differs from the dumped value', case, v, real['before'][f'{byname[name][0]}/{name}'],
                                        where='BIOGEME(parameters=<file>)')
                            break
    else:
        res.tally('params:value of another kind accepted by set_value')
    if not real.get('file_untouched_by_read', True):
        res.violate('read_file modified an existing parameter file', case, 'changed', 'unchanged', where='Parameters.read_file')
    if real.get('others') not in ([], ['q.toml']):
        res.diverge('unexpected files next to the parameter file', case, [], real.get('others'))
    if 'doc_error' in real:
        res.violate('the dumped parameter file is not valid TOML', case, real['doc_error'], 'valid TOML', where='Parameters.dump_file')
    # ---- model
    req = {'op': 'param_case', 'algos': algos, 'defaults': entries, 'assigns': case['assigns']}

    def cb(ans):
        if ans.get('steps') != real['steps']:
            res.diverge('outcomes of the set_value calls', case, ans.get('steps'), real['steps'])
        mstate = {f'{e["sec"]}/{e["name"]}': e['value'] for e in ans.get('state', [])}
        if mstate != real['before']:
            res.diverge('parameter values after the set_value calls', case, _diff(mstate, real['before']), '')
        if 'doc' in real and canon_doc(ans.get('doc', [])) != canon_doc(real['doc']):
            res.diverge('content of the dumped file (parsed by tomllib) vs Params.generateDocument', case, canon_doc(ans.get('doc', []))[:2], canon_doc(real['doc'])[:2])

    def cb_read(ans):
        # the document is read in file order (the section order of the real file comes from a Python set)
        if 'ok' in ans:
            mafter = {f'{e["sec"]}/{e["name"]}': e['value'] for e in ans['ok']}
            if real.get('read') != 'ok' or mafter != real.get('after'):
                res.diverge('values after read_file', case, _diff(mafter, real.get('after', {})), real.get('read'),
                            where=W_READDBG if extra_optimization_algorithm(case) and real.get('read') == 'refused' else '')
        elif real.get('read') != ans.get('err'):
            res.diverge('outcome of read_file', case, ans, real.get('read'), where=W_READDBG if extra_optimization_algorithm(case) and real.get('read') == 'refused' else '')

    def cb_get(ans):
        if ans.get('values') != real.get('answers'):
            k = next((i for i, (a, b) in enumerate(zip(ans.get('values', []), real.get('answers', []))) if a != b), None)
            res.diverge('get_value after read_file vs Params.resolve', case, [real['queries'][k], ans['values'][k]] if k is not None else ans, real['answers'][k] if k is not None else '')

    if 'doc' in real:
        ctx.batch.add({'op': 'import_document', 'algos': algos, 'params': entries, 'doc': real['doc']}, cb_read)
    if real.get('queries'):
        after_entries = [{**e, 'value': real['after'][f'{e["sec"]}/{e["name"]}']} for e in entries]
        ctx.batch.add({'op': 'get_value', 'params': after_entries, 'queries': real['queries']}, cb_get)
    ctx.batch.add(req, cb)


def _diff(a, b):
    return {k: [a.get(k), b.get(k)] for k in sorted(set(a) | set(b)) if a.get(k) != b.get(k)}


# ---- histories of one Parameters object


def gen_param_history(rng, algos, entries):
    """one Parameters object through read_file (incomplete / empty / partly unknown files, a missing file), set_value, add_parameter and
    dump_file in any order; the last operation is a dump"""
    secs = sorted({e['sec'] for e in entries})
    ops, added = [], []
    for _ in range(rng.randint(2, 9)):
        r = rng.random()
        known = entries + added
        if r < 0.3:
            d = rng.random()
            if d < 0.2:
                doc = []                                    # an empty biogeme.toml
            elif d < 0.3:
                doc = [{'sec': 'UnknownSection', 'entries': [{'name': 'seed', 'value': {'i': 12}}]}]
            else:
                doc = gen_file_case(rng, algos, entries)['doc'] if rng.random() < 0.8 else gen_file_case(rng, algos, entries)['doc'][:1]
                if rng.random() < 0.8:
                    # a file a user could have written: every value valid
                    for sct in doc:
                        for en in sct['entries']:
                            e = next((t for t in entries if t['sec'] == sct['sec'] and t['name'] == en['name']), None)
                            if e is not None:
                                en['value'] = {'s': rng.choice(BOOL_SPELLINGS)} if e['type'] == 'bool' else gen_admissible(rng, e, algos)
                                if 's' in en['value'] and any(ord(c) < 32 for c in en['value']['s']):
                                    en['value'] = {'s': 'plain'}
            ops.append({'op': 'read', 'doc': doc})
        elif r < 0.38:
            ops.append({'op': 'read_missing'})
        elif r < 0.72:
            e = rng.choice(known)
            q = rng.random()
            v = gen_admissible(rng, e, algos) if q < 0.85 else gen_value(rng, e['type'], algos, 'typed' if q < 0.95 else 'cross')
            ops.append({'op': 'set', 'sec': e['sec'] if rng.random() < 0.6 else None, 'name': e['name'], 'value': v})
        elif r < 0.8:
            # (a second parameter called optimization_algorithm: known finding FC14-6, exercised by the other stream)
            src = rng.choice([e for e in entries if e['name'] != 'optimization_algorithm'])
            sec = rng.choice([x for x in secs if x != src['sec']] + ['UserSection', 'A'])
            if not any(t['sec'] == sec and t['name'] == src['name'] for t in known):
                added.append({**src, 'sec': sec})
                ops.append({'op': 'add', 'name': src['name'], 'from': src['sec'], 'sec': sec})
        else:
            ops.append({'op': 'dump'})
    ops.append({'op': 'dump'})
    return {'kind': 'param_history', 'ops': ops}


def run_param_history(case, entries):
    """real code; returns per operation the outcome, per dump the parsed file and what a fresh object reads from it"""
    import biogeme.default_parameters as dp
    from biogeme.parameters import Parameters

    out = {'steps': [], 'dumps': [], 'model_ops': []}
    adds = []
    with core.scratch(None):
        P = Parameters()
        for i, op in enumerate(case['ops']):
            k = op['op']
            if k == 'read':
                Path(f'in{i}.toml').write_text(text_of_doc(op['doc']), encoding='utf-8')
                if canon_doc(doc_of_text(text_of_doc(op['doc']))) != canon_doc(op['doc']):
                    out['skipped'] = 'harness TOML writer and tomllib disagree'
                    break
                o = outcome_of(lambda: P.read_file(f'in{i}.toml'))
                out['model_ops'].append({'op': 'read', 'doc': op['doc']})
            elif k == 'set':
                o = outcome_of(lambda: P.set_value(op['name'], val2py(op['value']), section=op['sec']))
                out['model_ops'].append(op)
            elif k == 'add':
                src = next(p for p in dp.all_parameters_tuple() if p.name == op['name'] and p.section == op['from'])
                o = outcome_of(lambda: P.add_parameter(src._replace(section=op['sec'])))
                adds.append(op)
                e = next(t for t in entries if t['name'] == op['name'] and t['sec'] == op['from'])
                out['model_ops'].append({'op': 'add', 'entry': [{**e, 'sec': op['sec']}]})
            else:
                fname = f'out{i}.toml'
                o = outcome_of(lambda: P.dump_file(fname)) if k == 'dump' else outcome_of(lambda: P.read_file(fname))   # read_file of a missing file dumps
                out['model_ops'].append({'op': 'dump'})
                rec = {'step': i, 'state': state_of(P), 'written': os.path.isfile(fname)}
                if rec['written']:
                    try:
                        rec['doc'] = doc_of_text(Path(fname).read_text(encoding='utf-8'))
                    except Exception as ex:  # noqa: BLE001
                        rec['doc_error'] = f'{type(ex).__name__}: {ex}'
                    Q = Parameters()
                    for a in adds:
                        src = next(p for p in dp.all_parameters_tuple() if p.name == a['name'] and p.section == a['from'])
                        outcome_of(lambda: Q.add_parameter(src._replace(section=a['sec'])))
                    rec['read'] = outcome_of(lambda: Q.read_file(fname))
                    rec['after'] = state_of(Q)
                out['dumps'].append(rec)
            out['steps'].append(o)
            if k == 'read' and o != 'ok':
                break   # read_file raised half-way: the entries before the bad one are imported, the rest is not (outside the statement)
    return out


W_PHIST = 'Parameters: dump_file after a history of read_file / set_value / add_parameter'


def check_param_history(ctx, res, case, table):
    algos, entries = table
    real = run_param_history(case, entries)
    if 'skipped' in real:
        res.notes.append('parameter history: ' + real['skipped'])
        return
    kinds = [op['op'] for op in case['ops']]
    res.count(case, nontrivial='read' in kinds and 'set' in kinds)
    for k in kinds:
        res.tally('param history op:' + k)
    types = {}
    for e in entries:
        types[(e['sec'], e['name'])] = e['type']
    for op in case['ops']:
        if op['op'] == 'add':
            types[(op['sec'], op['name'])] = types[(op['from'], op['name'])]
    # ---- oracle, from the property: what is dumped now reads back with the current value of every parameter
    for rec in real['dumps']:
        if not rec['written'] or 'doc_error' in rec:
            res.violate(f'history step {rec["step"]}: the parameter set cannot be dumped / the file is not valid TOML', case, rec.get('doc_error'), 'a TOML file', where=W_PHIST)
            break
        if all(declared_kind_ok(types[tuple(k.split('/', 1))], v) for k, v in rec['state'].items()):
            bad = _diff(rec.get('after', {}), rec['state'])
            if rec.get('read') != 'ok' or bad:
                res.violate(f'history step {rec["step"]}: the dumped file does not read back with the current values: {sorted(bad)[:4]}', case, [rec.get('read'), bad], 'every parameter with its current value',
                            where=W_PHIST)
                break
    # ---- model
    def cb(ans):
        n = len(ans.get('steps', []))
        if ans.get('steps') != real['steps'][:n] or (not ans.get('stopped') and n != len(real['steps'])):
            res.diverge('outcomes of the operations of a Parameters history vs Params.stepP', case, ans.get('steps'), real['steps'])
            return
        mdocs = ans.get('docs', [])
        for rec, md in zip(real['dumps'], mdocs):
            if 'doc' in rec and canon_doc(md) != canon_doc(rec['doc']):
                res.diverge(f'file dumped at step {rec["step"]} of a Parameters history vs Params.dumpDoc', case, _diff(dict(map(lambda x: (x[0], x[1]), canon_doc(md))), dict(map(lambda x: (x[0], x[1]), canon_doc(rec['doc'])))), '')
                return
        if not ans.get('stopped') and real['dumps'] and real['steps'] and len(real['steps']) == len(case['ops']):
            mstate = {f'{e["sec"]}/{e["name"]}': e['value'] for e in ans.get('state', [])}
            if mstate != real['dumps'][-1]['state']:
                res.diverge('values at the end of a Parameters history', case, _diff(mstate, real['dumps'][-1]['state']), '')

    ctx.batch.add({'op': 'param_history', 'algos': algos, 'defaults': entries, 'ops': real['model_ops']}, cb)


# ---- the NAME of the parameter file

W_NAME = 'Parameters.dump_file / read_file: name of the file'
W_NAME_CHARS = 'Parameters.read_file silently keeps its values for a file name is_valid_filename refuses, dump_file writes under it'
PARAM_FILE_NAMES = ['p.toml', 'aux.toml', 'con.toml', 'Aux.v2.toml', 'NUL', 'nul.txt', 'prn', 'com1.toml', 'LPT9.x.toml', 'a.b.c.toml', '.hidden.toml', '.toml', '-dash.toml',
                    'sp ace.toml', ' lead.toml', 'trail.toml ', 'β-ü.toml', 'UPPER.TOML', 'x' * 200 + '.toml', 'y' * 250 + '.toml', 'z' * 251 + '.toml', 'toml', '~tilde.toml',
                    'dot.', 'a:b.toml', 'q?.toml', 's*.toml', 'pipe|.toml', 'lt<.toml', 'gt>.toml', 'quo".toml', 'back\\slash.toml', 'sub/aux.toml', 'sub/p.toml', 'sub/a:b.toml',
                    "apo'.toml", 'hash#.toml', 'semi;.toml', 'eq=.toml', 'biogeme.toml', 'Biogeme.TOML', 'con', 'auxiliary.toml', 'com10.toml', 'con .toml']
NAME_PIECES = ['a', 'B', '.', '.', '..', ' ', '-', '_', 'aux', 'CON', 'nul', 'com1', 'lpt2', 'é', '≠', '~', ':', '?', '*', '"', 'toml', '.toml', '0', 'x' * 60]


def invalid_name_chars(case):
    """MATCHER of FC14-7: the base name of the file holds one of the characters is_valid_filename refuses"""
    return (case or {}).get('kind') == 'param_name' and any(c in '<>:"/\\|?*' for c in os.path.basename((case or {}).get('name', '')))


def gen_param_name_case(rng, algos, entries, name=None):
    if name is None:
        name = ''.join(rng.choice(NAME_PIECES) for _ in range(rng.randint(1, 5)))
        if rng.random() < 0.15:
            name = 'sub/' + name
    assigns = []
    for e in rng.sample(entries, 3):
        assigns.append({'sec': e['sec'], 'name': e['name'], 'value': gen_admissible(rng, e, algos)})
    return {'kind': 'param_name', 'name': name, 'assigns': assigns, 'biogeme': rng.random() < 0.25}


def run_param_name_case(case):
    from biogeme.parameters import Parameters

    name = case['name']
    with core.scratch(None):
        os.mkdir('sub')
        P = Parameters()
        for a in case['assigns']:
            outcome_of(lambda: P.set_value(a['name'], val2py(a['value']), section=a['sec']))
        out = {'before': state_of(P), 'defaults': state_of(Parameters())}
        try:
            out['dump'] = outcome_of(lambda: P.dump_file(name))
        except BaseException as e:  # noqa: BLE001
            out['dump'] = 'other:' + type(e).__name__
        out['written'] = os.path.isfile(name)
        if out['written']:
            Q = Parameters()
            out['read'] = outcome_of(lambda: Q.read_file(name))
            out['after'] = state_of(Q)
            out['others'] = sorted(p for p in os.listdir('.') + ['sub/' + q for q in os.listdir('sub')] if p not in (name, 'sub'))
            nt = val2py(out['before'].get('MultiThreading/number_of_threads', {'i': 0}))
            if case.get('biogeme') and isinstance(nt, int) and 0 <= nt <= 4096:
                out['biogeme'] = biogeme_on_file(name)
    return out


def check_param_name_case(ctx, res, case, table):
    from biogeme.tools.files import is_valid_filename

    real = run_param_name_case(case)
    base = os.path.basename(case['name'])
    res.count(case, nontrivial=case['name'] != 'p.toml')
    res.tally('param file name:' + ('written' if real['written'] else f'dump refused ({real["dump"]})'))
    changed = real['before'] != real['defaults']
    w = W_NAME_CHARS if invalid_name_chars(case) else W_NAME
    # ---- oracle: whatever name dump_file accepted reads back (or dump_file refuses the name)
    if real['written']:
        if real.get('read') != 'ok':
            res.violate(f'the parameter file {case["name"]!r} written by dump_file cannot be read: {real.get("read")}', case, real.get('read'), 'ok', where=w)
        elif real['after'] != real['before']:
            res.violate(f'the parameter file {case["name"]!r} written by dump_file does not read back: {sorted(_diff(real["after"], real["before"]))[:3]}'
                        + (' (the defaults are kept)' if real['after'] == real['defaults'] else ''), case, _diff(real['after'], real['before']), 'the dumped values', where=w)
        bg = real.get('biogeme')
        if bg is not None and 'error' not in bg and bg['state'] != real['before']:
            res.violate(f'a BIOGEME object built on the parameter file {case["name"]!r} does not hold the dumped values', case, _diff(bg['state'], real['before']), '', where=w)
        if real.get('others'):
            res.violate(f'reading {case["name"]!r} created other files: {real["others"]}', case, real['others'], [], where=w)
    elif real['dump'] == 'ok':
        res.violate(f'dump_file({case["name"]!r}) reports success but wrote no file of that name', case, real['dump'], 'a file', where=w)
    valid = bool(is_valid_filename(base)[0])

    def cb(ans):
        mv = ans.get('valid', [None])[0]
        if mv != valid:
            res.diverge('is_valid_filename vs Params.validFileName', case, mv, valid)
        elif real['written'] and real.get('read') == 'ok' and changed:
            # model of the code as it is: a refused name leaves the reader with its own values, an accepted one gives the dumped ones
            exp = real['before'] if mv else real['defaults']
            if real['after'] != exp:
                res.diverge('values after read_file(name) vs Params.readNamed', case, 'dumped values' if mv else 'values of the reader', _diff(real['after'], exp), where=w if not mv else '')

    ctx.batch.add({'op': 'valid_names', 'names': [base]}, cb)


# ---- hand-written files


def toml_scalar(v):
    if 'b' in v:
        return 'true' if v['b'] else 'false'
    if 'i' in v:
        return str(v['i'])
    if 'f' in v:
        x = b2f(v['f'])
        if math.isnan(x):
            return 'nan'
        if math.isinf(x):
            return 'inf' if x > 0 else '-inf'
        r = repr(x)
        return r if ('.' in r or 'e' in r) and not r.startswith('.') else r + '.0'
    return json.dumps(v['s'], ensure_ascii=False) if all(ord(c) >= 32 and ord(c) != 127 for c in v['s']) else json.dumps(v['s'])


def text_of_doc(doc):
    lines = []
    for d in doc:
        lines.append(f'[{d["sec"]}]')
        for e in d['entries']:
            lines.append(f'{e["name"]} = {toml_scalar(e["value"])}')
        lines.append('')
    return '\n'.join(lines)


BOOL_SPELLINGS = ['True', 'true', 'Yes', 'yes', 'False', 'false', 'No', 'no']
BAD_BOOL = ['TRUE', 'on', '1', '', 'y', 'nope', ' True']


def gen_file_case(rng, algos, entries):
    secs = {}
    for e in entries:
        secs.setdefault(e['sec'], []).append(e)
    names = list(secs)
    rng.shuffle(names)
    doc = []
    clean = rng.random() < 0.6   # a file a user could have written: every value valid
    for s in names[: rng.randint(1, len(names))]:
        es = []
        pool = list(secs[s])
        rng.shuffle(pool)
        for e in pool[: rng.randint(1, len(pool))]:
            r = rng.random() * (0.7 if clean else 1.0)
            if e['type'] == 'bool':
                if r < 0.75:
                    v = {'s': rng.choice(BOOL_SPELLINGS)}
                elif r < 0.85:
                    v = {'b': rng.random() < 0.5}
                elif r < 0.95:
                    v = {'s': rng.choice(BAD_BOOL)}
                else:
                    v = {'i': rng.choice([0, 1])}
            else:
                v = gen_admissible(rng, e, algos) if r < 0.8 else gen_value(rng, e['type'], algos, 'typed' if r < 0.9 else 'cross')
                if 's' in v and any(ord(c) < 32 for c in v['s']):
                    v = {'s': 'plain'}
            es.append({'name': e['name'], 'value': v})
        if rng.random() < 0.3:
            es.insert(rng.randint(0, len(es)), {'name': 'not_a_biogeme_parameter', 'value': {'i': 3}})
        doc.append({'sec': s, 'entries': es})
    if rng.random() < 0.4:
        doc.insert(rng.randint(0, len(doc)), {'sec': 'UnknownSection', 'entries': [{'name': 'seed', 'value': {'i': 12}}]})
    return {'kind': 'file', 'doc': doc}


def run_file_case(case):
    from biogeme.parameters import Parameters

    text = text_of_doc(case['doc'])
    with core.scratch(None):
        Path('f.toml').write_text(text, encoding='utf-8')
        h0 = hashlib.sha1(Path('f.toml').read_bytes()).hexdigest()
        Q = Parameters()
        out = {'read': outcome_of(lambda: Q.read_file('f.toml')), 'after': state_of(Q)}
        out['untouched'] = hashlib.sha1(Path('f.toml').read_bytes()).hexdigest() == h0 and os.listdir('.') == ['f.toml']
    out['parsed'] = doc_of_text(text)
    return out


def check_file_case(ctx, res, case, table):
    algos, entries = table
    real = run_file_case(case)
    res.count(case, nontrivial=True)
    res.tally('file read:' + real['read'])
    if canon_doc(real['parsed']) != canon_doc(case['doc']):
        res.notes.append('harness TOML writer and tomllib disagree on a hand-written file (case skipped)')
        return
    if not real['untouched']:
        res.violate('read_file modified the directory of an existing parameter file', case, 'changed', 'unchanged', where='Parameters.read_file')
    # oracle: every known entry written with an accepted spelling / value must be what get_value returns
    if real['read'] == 'ok':
        types = {(e['sec'], e['name']): e['type'] for e in entries}
        last = {}
        for d in case['doc']:
            for e in d['entries']:
                if (d['sec'], e['name']) in types:
                    last[(d['sec'], e['name'])] = e['value']
        for (s, n), v in last.items():
            exp = v
            if types[(s, n)] == 'bool' and 's' in v:
                exp = {'b': v['s'] in BOOL_SPELLINGS[:4]}
            if real['after'].get(f'{s}/{n}') != exp:
                res.violate(f'parameter {s}/{n} read from a file differs from the file', case, real['after'].get(f'{s}/{n}'), exp, where='Parameters.read_file')
                break
    req = {'op': 'import_document', 'algos': algos, 'params': entries, 'doc': case['doc']}

    def cb(ans):
        if 'ok' in ans:
            mafter = {f'{e["sec"]}/{e["name"]}': e['value'] for e in ans['ok']}
            if real['read'] != 'ok' or mafter != real['after']:
                res.diverge('values after reading a hand-written file', case, _diff(mafter, real['after']), real['read'])
        elif ans.get('err') != real['read']:
            res.diverge('outcome of reading a hand-written file', case, ans, real['read'])

    ctx.batch.add(req, cb)


def check_missing_file(ctx, res):
    """read_file of a missing file creates exactly that file with the defaults, readable again"""
    from biogeme.parameters import Parameters

    with core.scratch(None):
        P = Parameters()
        o = outcome_of(lambda: P.read_file('biogeme.toml'))
        files = sorted(os.listdir('.'))
        Q = Parameters()
        o2 = outcome_of(lambda: Q.read_file('biogeme.toml'))
        case = {'kind': 'missing_file'}
        res.count(case, nontrivial=False)
        if o != 'ok' or files != ['biogeme.toml'] or o2 != 'ok' or state_of(Q) != state_of(Parameters()):
            res.violate('default parameter file is not created / not readable', case, [o, files, o2], 'biogeme.toml with the default values', where='Parameters.read_file')
        # the defaults through the module-level reader, with and without section
        from biogeme.parameters import get_default_value

        for e in live_table()[1]:
            got = [attempt(lambda: py2val(get_default_value(e['name'], section=e['sec']))), attempt(lambda: py2val(get_default_value(e['name'])))]
            if got != [e['value'], e['value']]:
                res.violate(f'get_default_value({e["name"]!r}) is not the default of the table', case, got, e['value'], where='parameters.get_default_value')
                break


# ============================================================================ (ii)+(iii) results objects

NAME_POOL = ['b10', 'b2', 'asc-2', 'B<3>', 'β_coût', 'beta_time_car', 'beta_time_bus', 'a b', 'Z', 'a', 'mu&lambda', 'x' * 17, 'b_1', 'ASC_TRAIN']
SAFE_VALUES = [0.5, -1.25, 2.0, 0.0, -0.0, 1234.5, -0.001953125, 3.75e-7, 1.5e10, 7.25, -3.0, 0.1, 1e-3, 12.0, 999.0]


def fmt3_is_safe(x):
    s = f'{x:.3g}'
    return '.' in s or re.fullmatch(r'-?\d+', s) is not None


def gen_results_spec(rng, tag, safe=True):
    k = rng.randint(1, 5)
    names = rng.sample(NAME_POOL, k)
    values = []
    for _ in range(k):
        r = rng.random()
        x = rng.choice(SAFE_VALUES) if r < 0.5 else (rng.uniform(-3, 3) if r < 0.9 else rng.uniform(-1, 1) * 10 ** rng.randint(-8, 8))
        if safe and not fmt3_is_safe(x):
            x = 0.75
        values.append(x)
    bounds = []
    for i in range(k):
        r = rng.random()
        if r < 0.7:
            bounds.append([None, None])
        elif r < 0.85:
            bounds.append([values[i], values[i] + 10.0])  # active lower bound
        else:
            bounds.append([values[i] - 5.0, values[i] + 5.0])
    A = [[rng.randint(-8, 8) / 4.0 for _ in range(k)] for _ in range(k)]
    hk = rng.random()
    if hk < 0.15 and k >= 2:
        A[1] = list(A[0])  # singular
        shift = 0.0
        hkind = 'singular'
    elif hk < 0.22:
        A = [[0.0] * k for _ in range(k)]
        shift = 0.0
        hkind = 'zero'
    else:
        shift = 0.5
        hkind = 'regular'
    An = np.array(A)
    H = -(An @ An.T + shift * np.eye(k))
    if hk > 0.95:
        H[0, 0] = float('nan')
        hkind = 'nan'
    Bm = np.array([[rng.randint(-8, 8) / 4.0 for _ in range(k)] for _ in range(k + 1)])
    bhhh = Bm.T @ Bm
    boot = None
    if rng.random() < 0.3 and k >= 2:  # (K = 1 with bootstrap: np.cov returns a 0-d array and _calculate_stats raises — C08's domain)
        R = rng.choice([2, 5, 10])
        boot = [[values[j] + rng.randint(-8, 8) / 16.0 for j in range(k)] for _ in range(R)]
    ll = -rng.randint(10, 4000) / 8.0
    init = ll - rng.randint(1, 800) / 8.0
    n = rng.randint(k + 1, 500)
    return {
        'kind': 'results',
        'model': tag,
        'names': names,
        'values': values,
        'bounds': bounds,
        'H': H.tolist(),
        'hkind': hkind,
        'bhhh': bhhh.tolist(),
        'g': [rng.randint(-8, 8) / 1024.0 for _ in range(k)],
        'bootstrap': boot,
        'logLike': ll,
        'initLogLike': init,
        'nullLogLike': None if rng.random() < 0.4 else init - rng.randint(0, 80) / 8.0,
        'sampleSize': n,
        'numberOfObservations': n if rng.random() < 0.7 else n * 3,
        'userNotes': rng.choice([None, 'notes: first run', 'a <b> & c_d']),
        'convergence': rng.random() < 0.85,
        'threshold': rng.choice([None, None, 1e-5, 1.0, 1e-12]),
    }


def make_results(spec):
    """a real bioResults built through the public constructors RawResults / bioResults"""
    from biogeme.function_output import BiogemeFunctionOutput
    from biogeme.results import RawResults, bioResults

    names = list(spec['names'])
    bounds = {n: tuple(b) for n, b in zip(names, spec['bounds'])}
    model = types.SimpleNamespace(
        modelName=spec['model'],
        user_notes=spec.get('userNotes'),
        id_manager=types.SimpleNamespace(free_betas=types.SimpleNamespace(names=names)),
        initLogLike=spec['initLogLike'],
        nullLogLike=spec['nullLogLike'],
        get_bounds_on_beta=lambda n: bounds[n],
        database=types.SimpleNamespace(
            name='stubdata',
            get_sample_size=lambda: spec['sampleSize'],
            get_number_of_observations=lambda: spec['numberOfObservations'],
            typesOfDraws={},
            excludedData=spec.get('excluded', 0),
        ),
        monte_carlo=False,
        number_of_draws=0,
        drawsProcessingTime=datetime.timedelta(0),
        optimizationMessages={
            'Relative projected gradient': 1.25e-7,
            'Relative change': 3.5e-9,
            'Number of iterations': 7,
            'Algorithm': 'generated by the harness',
            'Optimization time': datetime.timedelta(seconds=1, microseconds=250),
        },
        convergence=spec.get('convergence', True),
        number_of_threads=4,
        bootstrap_time=datetime.timedelta(seconds=2),
    )
    def arr(x):
        return None if x is None else np.array(x, dtype=float)

    out = BiogemeFunctionOutput(function=spec['logLike'], gradient=arr(spec['g']), hessian=arr(spec['H']), bhhh=arr(spec['bhhh']))
    boot = None if spec.get('bootstrap') is None else np.array(spec['bootstrap'], dtype=float)
    raw = RawResults(model, [float(v) for v in spec['values']], out, bootstrap=boot)
    return bioResults(raw, identification_threshold=spec.get('threshold'))


def tiny_biogeme(model_name, names=('b_x', 'asc'), rows=12, seed=1, bounds=None):
    """a real (fast) binary logit"""
    import pandas as pd
    import biogeme.biogeme as bio
    import biogeme.database as db
    from biogeme import models
    from biogeme.expressions import Beta, Variable

    rs = np.random.RandomState(seed)
    x1 = rs.randint(1, 9, size=rows).astype(float)
    x2 = rs.randint(1, 9, size=rows).astype(float)
    ch = np.where(rs.rand(rows) < 0.5, 1, 2)
    ch[0], ch[1] = 1, 2
    df = pd.DataFrame({'x1': x1, 'x2': x2, 'ch': ch})
    d = db.Database('tinydata', df)
    lb, ub = bounds or (None, None)
    b = Beta(names[0], 0, lb, ub, 0)
    V = {1: b * Variable('x1'), 2: b * Variable('x2')}
    if len(names) > 1:
        V[2] = V[2] + Beta(names[1], 0, None, None, 0)
    if len(names) > 2:
        V[1] = V[1] + Beta(names[2], 0, None, None, 0) * Variable('x2') * 0.125
    B = bio.BIOGEME(d, models.loglogit(V, None, Variable('ch')))
    B.modelName = model_name
    return B


TS = re.compile(r'\d{4}-\d\d-\d\d \d\d:\d\d:\d\d(\.\d+)?')


def canon(v):
    if isinstance(v, (bool, np.bool_)):
        return ['b', bool(v)]
    if isinstance(v, numbers.Integral):
        return ['i', int(v)]
    if isinstance(v, (float, np.floating)):
        x = float(v)
        return ['f', 'nan' if math.isnan(x) else f2b(x)]
    if v is None or isinstance(v, str):
        return v
    if isinstance(v, np.ndarray):
        return [canon(x) for x in v.tolist()] if v.ndim <= 1 else [[canon(x) for x in row] for row in v.tolist()]
    if isinstance(v, (list, tuple)):
        return [canon(x) for x in v]
    if isinstance(v, dict):
        return {str(k): canon(x) for k, x in v.items()}
    return repr(v)


def attempt(fn):
    try:
        return fn()
    except Exception as e:  # noqa: BLE001
        return f'EXC:{type(e).__name__}'


def frame(df):
    if isinstance(df, str) or df is None:
        return df
    return {'index': [str(i) for i in df.index], 'columns': [str(c) for c in df.columns], 'values': [[canon(x) for x in row] for row in df.to_numpy().tolist()]}


def mask(s):
    return TS.sub('<time>', s) if isinstance(s, str) else s


def snapshot(r):
    """everything a user can read from a results object, canonicalised"""
    d = r.data
    snap = {
        'betas': [[b.name] + [canon(getattr(b, a, '<absent>')) for a in ('value', 'lb', 'ub', 'stdErr', 'tTest', 'pValue', 'robust_stdErr', 'robust_tTest',
                                                           'robust_pValue', 'bootstrap_stdErr', 'bootstrap_tTest', 'bootstrap_pValue')] for b in d.betas],
        'beta_values': attempt(lambda: canon(r.get_beta_values())),
        'general': attempt(lambda: {k: [canon(v.value), v.format] for k, v in r.get_general_statistics().items()}),
        'estimated_robust': attempt(lambda: frame(r.get_estimated_parameters(only_robust=True))),
        'estimated_all': attempt(lambda: frame(r.get_estimated_parameters(only_robust=False))),
        'correlation': attempt(lambda: frame(r.get_correlation_results())),
        'varcovar': attempt(lambda: frame(r.get_var_covar())),
        'robust_varcovar': attempt(lambda: frame(r.get_robust_var_covar())),
        'bootstrap_varcovar': attempt(lambda: frame(r.get_bootstrap_var_covar())),
        'raw': {a: canon(getattr(d, a, '<absent>')) for a in ('nparam', 'betaValues', 'betaNames', 'logLike', 'initLogLike', 'nullLogLike', 'g', 'H', 'bhhh',
                                                            'sampleSize', 'numberOfObservations', 'excludedData', 'gradientNorm', 'convergence', 'userNotes',
                                                            'dataname', 'modelName', 'bootstrap', 'htmlFileName', 'latexFileName', 'F12FileName', 'pickleFileName')},
        'derived': {a: canon(getattr(d, a, '<absent>')) for a in ('likelihoodRatioTest', 'likelihoodRatioTestNull', 'rhoSquare', 'rhoSquareNull', 'rhoBarSquare',
                                                                'rhoBarSquareNull', 'akaike', 'bayesian', 'eigenValues', 'singularValues', 'varCovar',
                                                                'robust_varCovar', 'correlation', 'robust_correlation', 'smallestEigenValue',
                                                                'largestEigenValue', 'conditionNumber', 'secondOrderTable')},
        'short_summary': attempt(r.short_summary),
        'str': attempt(lambda: str(r)),
        'general_text': attempt(r.print_general_statistics),
        'f12': mask(attempt(r.get_f12)),
        'f12_raocramer': mask(attempt(lambda: r.get_f12(robust_std_err=False))),
        'html': mask(attempt(r.get_html)),
        'html_all': mask(attempt(lambda: r.get_html(only_robust=False))),
        'latex': mask(attempt(r.get_latex)),
        'latex_all': mask(attempt(lambda: r.get_latex(only_robust=False))),
        # every attribute of the stored object (r.data.<name> is the documented way to read a statistic)
        'attrs': {k: canon_attr(k, v) for k, v in sorted(d.__dict__.items())},
        'flags': attempt(lambda: [bool(r.variance_covariance_missing()), bool(r.algorithm_has_converged()), int(r.number_of_free_parameters())]),
        'beta_subset': attempt(lambda: canon(r.get_beta_values(my_betas=list(d.betaNames)[-1:]))),
        'correlation_subset': attempt(lambda: frame(r.get_correlation_results(subset=list(d.betaNames)[:2]))),
        'lr_self': attempt(lambda: canon(tuple(r.likelihood_ratio_test(r)))),
        'sens_boot': attempt(lambda: canon(r.get_betas_for_sensitivity_analysis(list(d.betaNames)[:2]))),
        'sens_sim': attempt(lambda: seeded_numpy(lambda: canon(r.get_betas_for_sensitivity_analysis(list(d.betaNames)[:2], size=3, use_bootstrap=False)))),
    }
    for tag, kw in COMPILE_OPTIONS.items():
        snap['compile:' + tag] = attempt(lambda: compiled({'the model': r}, kw))
    return snap


COMPILE_OPTIONS = {
    'default': {},
    'numbers': {'formatted': False, 'include_robust_stderr': True},
    'short': {'use_short_names': True, 'include_robust_stderr': True, 'include_robust_ttest': False,
              'statistics': ('Sample size', 'Final log likelihood', 'Rho-square for the init. model', 'Final gradient norm')},
}


def compiled(dict_of_results, kw):
    """compile_estimation_results: the table and the description of the columns"""
    from biogeme.results import compile_estimation_results

    df, conf = compile_estimation_results(dict_of_results, **kw)
    return [frame(df), canon(conf)]


def seeded_numpy(fn):
    """run fn with numpy's global generator in a fixed state, and put the state back"""
    st = np.random.get_state()
    np.random.seed(20240607)
    try:
        return fn()
    finally:
        np.random.set_state(st)


def canon_attr(name, v):
    if name == 'betas':
        return [{k: canon(x) for k, x in sorted(b.__dict__.items())} for b in v]
    if isinstance(v, dict):
        return {str(k): canon_attr('', x) for k, x in v.items()}
    if isinstance(v, (datetime.timedelta, datetime.datetime)):
        return repr(v)
    return canon(v)


REPORTS = ('html', 'latex', 'f12', 'str')


def value_agrees(text, x, digits):
    """oracle: the printed text is the value at the precision of the report"""
    try:
        y = float(text)
    except ValueError:
        return False
    if math.isnan(x) or math.isnan(y):
        return math.isnan(x) and math.isnan(y)
    if math.isinf(x) or math.isinf(y):
        return x == y
    if x == 0:
        return y == 0
    # rounding to `digits` significant digits moves a number by at most half a unit of the last digit kept
    return abs(y - x) <= 0.5000001 * 10.0 ** (1 - digits) * abs(x)


def parse_reports(snap, names, values):
    """for every parameter: the value text found in each report (None = parameter not listed)"""
    found = {rep: [] for rep in REPORTS}
    html, latex, f12, text = snap['html'], snap['latex'], snap['f12'], snap['str']
    for n, x in zip(names, values):
        # HTML: row of the parameter table
        t = None
        if isinstance(html, str) and not html.startswith('EXC:'):
            i = html.find('<h1>Estimated parameters</h1>')
            j = html.find('<h2>Correlation of coefficients</h2>')
            key = f'<tr class=biostyle><td>{n}</td><td>'
            p = html.find(key, i, j if j >= 0 else len(html)) if i >= 0 else -1
            if p >= 0:
                q = html.find('</td>', p + len(key))
                t = html[p + len(key): q]
        found['html'].append(t)
        # LaTeX: row of the first tabular after "Parameter estimates"
        t = None
        if isinstance(latex, str) and not latex.startswith('EXC:'):
            i = latex.find('\\section{Parameter estimates}')
            j = latex.find('\\section{Correlation}')
            if i >= 0:
                for line in latex[i: j if j >= 0 else len(latex)].split('\n'):
                    if line.startswith(n + ' & '):
                        t = line[len(n) + 3:].split(' & ')[0].replace('\\\\', '').strip()
                        break
        found['latex'].append(t)
        # F12: '   0 ' + label(10) + ' F' / ' T' + '  ' + value(19)
        t = None
        if isinstance(f12, str) and not f12.startswith('EXC:'):
            label = f'{n[:10]: >10}'
            for line in f12.split('\n'):
                if line.startswith('   0 ' + label + ' ') and len(line) >= 38:
                    cand = line[18:38].strip()
                    if t is None or value_agrees(cand, x, 13):
                        t = cand
        found['f12'].append(t)
        # printed form: f'{name:15}: {value:.3g}' followed by '[' or end of line
        t = None
        if isinstance(text, str) and not text.startswith('EXC:'):
            key = f'{n:15}: '
            for line in text.split('\n'):
                if line.startswith(key):
                    t = line[len(key):].split('[')[0]
                    break
        found['str'].append(t)
    return found


def latex_suffix_case(case):
    """MATCHER of the LaTeX finding: some parameter value prints in .3g without '.' and is not an integer literal"""
    vals = (case or {}).get('values') or (case or {}).get('values_printed') or []
    return any(not fmt3_is_safe(float(v)) for v in vals)


W_ROUNDTRIP = 'bioResults.write_pickle / bioResults(pickle_file=...)'
# names of models = names of the result, report and pickle files: several dots, device-like names, other case, spaces, unicode, leading dot / dash,
# characters that some systems refuse, long names
MODEL_TAGS = ['r', 'res ults', 'r~00', 'β', 'aux', 'CON', 'nul.v2', 'Com1', 'a.b.c', '.hidden', '-dash', 'a:b', 'q?', 's*r', 'UPPER', 'ünï çode', 'm' * 120, 'x.pickle', 'lpt9.toml']

# view of the Lean model (ResObj.views) -> key of the snapshot
MODEL_VIEWS = {'short_summary': 'short_summary', 'str': 'str', 'general': 'general', 'general_text': 'general_text', 'estimated': 'estimated_all',
               'correlation': 'correlation', 'varcovar': 'varcovar', 'robust_varcovar': 'robust_varcovar', 'bootstrap_varcovar': 'bootstrap_varcovar',
               'html': 'html', 'latex': 'latex', 'f12': 'f12'}
BETA_STATS = ('stdErr', 'tTest', 'pValue', 'robust_stdErr', 'robust_tTest', 'robust_pValue')
BETA_BOOT_STATS = ('bootstrap_stdErr', 'bootstrap_tTest', 'bootstrap_pValue')
WRITER_OF = {'html': 'write_html', 'latex': 'write_latex', 'f12': 'write_f12'}


def object_kind(r):
    """which of the optional inputs of RawResults are there (read from the real object: they are never assigned after the constructor)"""
    d = r.data
    return {'userNotes': d.userNotes is not None, 'initLogLike': d.initLogLike is not None, 'nullLogLike': d.nullLogLike is not None, 'g': d.g is not None,
            'H': d.H is not None, 'bhhh': d.bhhh is not None, 'bootstrap': d.bootstrap is not None, 'k': int(d.nparam)}


def slots_of(r):
    """attribute -> 'none' / 'val' for the stored object (absent attributes are not listed), with the two pseudo attributes of the model"""
    out = {k: ('none' if v is None else 'val') for k, v in r.data.__dict__.items()}
    for pseudo, fields in (('betaStats', BETA_STATS), ('betaBootStats', BETA_BOOT_STATS)):
        if any(not hasattr(b, f) for b in r.data.betas for f in fields):
            out[pseudo] = 'absent'
            continue
        nones = [getattr(b, f) is None for b in r.data.betas for f in fields]
        out[pseudo] = 'none' if all(nones) else 'val' if not any(nones) else 'mixed'
    return out


def outcome_kind(v):
    return v[4:] if isinstance(v, str) and v.startswith('EXC:') else 'ok'


def view_outcomes(snap):
    return {mv: outcome_kind(snap[key]) for mv, key in MODEL_VIEWS.items()}


def check_results_object(ctx, res, case, r, names, values, active=None, stub=True):
    """(ii) pickle round trip + (iii) reports, on one real results object in the current (scratch) directory; the object may be of any
    kind (with / without second derivatives, gradient, bootstrap, null / initial log likelihood, one parameter)"""
    import pickle

    from biogeme.results import bioResults

    kind = object_kind(r)
    complete = kind['H'] and kind['g'] and kind['initLogLike']   # what estimate() produces
    res.tally('results kind:' + ''.join(c if kind[f] else '-' for c, f in (('H', 'H'), ('g', 'g'), ('i', 'initLogLike'), ('n', 'nullLogLike'), ('b', 'bootstrap'), ('u', 'userNotes')))
              + (':K=1' if kind['k'] == 1 else ''))
    pre_writes = [f for f, a in (('html', 'htmlFileName'), ('latex', 'latexFileName'), ('f12', 'F12FileName'), ('pickle', 'pickleFileName')) if getattr(r.data, a, None) is not None]
    before = snapshot(r)
    slots = {'before': slots_of(r)}
    outcomes = {'before': view_outcomes(before)}
    # --- (iii) reports list every parameter with its value (oracle) and agree with the model rows
    for rep in ('html', 'latex', 'f12', 'str', 'short_summary'):
        if outcome_kind(before[rep]) != 'ok':
            if not kind['H']:
                res.violate(f'report {rep} of results without second derivatives cannot be generated: {before[rep]}', case, before[rep], 'a report listing every parameter', where=W_QUICK)
            elif not complete:
                # a RawResults built by hand without gradient / initial log likelihood: estimate() never produces one
                res.tally(f'results:report {rep} needs the gradient and the initial log likelihood')
            else:
                res.violate(f'report {rep} cannot be generated: {before[rep]}', case, before[rep], 'a report listing every parameter', where=f'bioResults.{rep}')
    found = parse_reports(before, names, values)
    digits = {'html': 3, 'latex': 3, 'str': 3, 'f12': 13}
    for rep in REPORTS:
        if outcome_kind(before[rep]) != 'ok':
            continue
        for n, x, t in zip(names, values, found[rep]):
            if t is None:
                res.violate(f'{rep} report does not list parameter {n!r}', case, mask(before[rep])[-600:], f'a row for {n!r}', where=f'bioResults report {rep}')
                break
            if not value_agrees(t, x, digits[rep]):
                where = W_LATEX if rep == 'latex' and not fmt3_is_safe(x) else f'bioResults report {rep}'
                res.violate(f'{rep} report lists parameter {n!r} with {t!r}, which is not its value {x!r}', {**case, 'values_printed': values}, t, f'{x:.{digits[rep]}g}', where=where)
                break
    # the same reports with their other option (all statistics instead of the robust ones only; Rao-Cramer standard errors in F12)
    alt = {'html': 'html_all', 'latex': 'latex_all', 'f12': 'f12_raocramer'}
    found_alt = parse_reports({'html': before['html_all'], 'latex': before['latex_all'], 'f12': before['f12_raocramer'], 'str': ''}, names, values)
    for rep, key in alt.items():
        if outcome_kind(before[key]) != 'ok':
            if outcome_kind(before[rep]) == 'ok':
                res.violate(f'report {key} cannot be generated although {rep} can: {before[key]}', case, before[key], 'a report listing every parameter', where=f'bioResults.{key}')
            continue
        for n, x, t in zip(names, values, found_alt[rep]):
            if t is None or not value_agrees(t, x, digits[rep]):
                where = W_LATEX if rep == 'latex' and t is not None and not fmt3_is_safe(x) else f'bioResults report {key}'
                res.violate(f'{key} report does not list parameter {n!r} with its value (found {t!r})', {**case, 'values_printed': values}, t, f'{x:.{digits[rep]}g}', where=where)
                break
    rows = [{'name': n, 'value': f'{x:.3g}', 'active': bool(a)} for n, x, a in zip(names, values, active or [False] * len(names))]
    rows12 = [{'name': n, 'value': f'{x: >+19.12e}'.strip(), 'active': bool(a)} for n, x, a in zip(names, values, active or [False] * len(names))]

    def cb(ans):
        a3, a12 = ans
        texts = {'html': before['html'], 'str': before['str'], 'latex': before['latex'], 'f12': before['f12']}
        for rep, mrows in (('html', a3.get('html')), ('str', a3.get('str')), ('latex', a3.get('latex_fixed')), ('f12', a12.get('f12'))):
            t = texts[rep]
            if not isinstance(t, str) or t.startswith('EXC:'):
                continue
            for n, x, row in zip(names, values, mrows or []):
                ok = (row in t) if rep != 'latex' else any(l.startswith(row + ' & ') or l.startswith(row + ' \\\\') for l in t.split('\n'))
                if not ok:
                    where = W_LATEX if rep == 'latex' and not fmt3_is_safe(x) else ''
                    res.diverge(f'{rep} report: model row not found', {**case, 'values_printed': values}, row, '(row absent from the report)', where=where)
                    break

    ctx.batch.add_many([{'op': 'rows', 'rows': rows}, {'op': 'rows', 'rows': rows12}], cb)
    # --- report files written before the results are saved: the saved object remembers their names
    writes = []
    for w in case.get('writes') or []:
        if outcomes['before'].get(w) != 'ok':
            continue   # the writer would raise half-way (known shape, reported above)
        there = listing()
        out = attempt(getattr(r, WRITER_OF[w]))
        now = listing()
        if isinstance(out, str) and out.startswith('EXC:'):
            res.violate(f'{WRITER_OF[w]} raises although the report can be generated: {out}', case, out, 'a report file', where=f'bioResults.{WRITER_OF[w]}')
        else:
            writes.append(w)
        # the object may already have written this report (estimate() does): the second file gets a new name
        changed = sorted(p for p in there if now.get(p) != there[p])
        added = sorted(set(now) - set(there))
        recorded = getattr(r.data, {'html': 'htmlFileName', 'latex': 'latexFileName', 'f12': 'F12FileName'}[w], None)
        if changed or added != [recorded]:
            res.violate(f'{WRITER_OF[w]} on an object that may have been written before: modified {changed}, added {added}, recorded name {recorded!r}', case,
                        [changed, added], 'exactly one new file, nothing modified', where=f'bioResults.{WRITER_OF[w]}')
    # --- (ii) pickle -> load -> compare everything
    existing = {p: hashlib.sha1(Path(p).read_bytes()).hexdigest() for p in os.listdir('.') if os.path.isfile(p)}
    fname = attempt(r.write_pickle)
    if not isinstance(fname, str) or fname.startswith('EXC:') or not os.path.isfile(fname):
        res.violate('results cannot be pickled', case, fname, 'a pickle file', where='bioResults.write_pickle')
        return
    if fname in existing:
        res.violate('write_pickle replaced an existing file', case, fname, 'a new name', where='bioResults.write_pickle')
    for p, h in existing.items():
        if p != fname and hashlib.sha1(Path(p).read_bytes()).hexdigest() != h:
            res.violate(f'write_pickle modified {p}', case, p, 'unchanged', where='bioResults.write_pickle')
    saved = snapshot(r)  # the object now knows its pickle name
    slots['saved'] = slots_of(r)
    outcomes['saved'] = view_outcomes(saved)
    # the hypothesis of C14.results_roundtrip, observed: what pickle returns is the stored object (before any statistic is recomputed)
    try:
        with open(fname, 'rb') as f:
            back = pickle.load(f)
        same = sorted(back.__dict__) == sorted(r.data.__dict__) and all(canon_attr(k, v) == saved['attrs'][k] for k, v in back.__dict__.items())
        res.tally('pickle returns the stored attributes' if same else 'pickle returns other attributes than stored (customised pickling)')
    except Exception as e:  # noqa: BLE001
        res.tally(f'pickle file not readable by pickle.load: {type(e).__name__}')
    try:
        r2 = bioResults(pickle_file=fname, identification_threshold=r.identification_threshold)
    except Exception as e:  # noqa: BLE001
        res.violate(f'saved results cannot be loaded: {type(e).__name__}: {e}', case, fname, 'results loaded', where=W_ROUNDTRIP)
        return
    loaded = snapshot(r2)
    slots['loaded'] = slots_of(r2)
    outcomes['loaded'] = view_outcomes(loaded)
    bad = [k for k in saved if saved[k] != loaded[k]]
    if bad:
        k = bad[0]
        what = f'{k}.{next(a for a in sorted(set(saved[k]) | set(loaded[k])) if saved[k].get(a, "<absent>") != loaded[k].get(a, "<absent>"))}' if k == 'attrs' else k
        res.violate(f'results loaded from the pickle differ from the saved ones in: {bad} (first: {what})', case, _short(loaded[k]), _short(saved[k]), where=W_ROUNDTRIP)
    # secondary entry point of loading: compile_estimation_results reads the file itself (and swallows every error of the loading)
    for tag, kw in COMPILE_OPTIONS.items():
        direct = attempt(lambda: compiled({'the model': r}, kw))
        via_file = attempt(lambda: compiled({'the model': fname}, kw))
        if direct != via_file:
            res.violate(f'compile_estimation_results({tag}) of the pickle file differs from the table of the results object', case, _short(via_file), _short(direct), where=W_ROUNDTRIP)
            break
    # … and compile_results_in_directory reads every saved results of the directory: the column of this file is the column of the object
    from biogeme.results import compile_results_in_directory

    def column(fr, col):
        if not isinstance(fr, list) or not isinstance(fr[0], dict) or col not in fr[0]['columns']:
            return fr
        j = fr[0]['columns'].index(col)
        return {i: row[j] for i, row in zip(fr[0]['index'], fr[0]['values']) if row[j] != ''}

    direct = column(attempt(lambda: compiled({'the model': r}, {})), 'the model')
    in_dir = column(attempt(lambda: [frame(compile_results_in_directory()[0]), None]), fname)
    if fname.startswith('.'):
        # compile_results_in_directory lists the directory with glob('*.pickle'), which by convention leaves out hidden files (like files_of_type(all_files=True))
        res.tally('results:hidden pickle file, not listed by compile_results_in_directory')
    elif direct != in_dir:
        res.violate('compile_results_in_directory: the column of the saved file differs from the table of the results object', case, _short(in_dir), _short(direct), where=W_ROUNDTRIP)
    # the statistics did not change by being saved either
    drift = [k for k in before if k not in ('raw', 'attrs') and before[k] != saved[k]]
    drift += [f'attrs.{a}' for a in before['attrs'] if a not in ('pickleFileName', 'htmlFileName', 'latexFileName', 'F12FileName') and before['attrs'][a] != saved['attrs'].get(a)]
    if drift and not writes:
        res.diverge('saving changed what the results object reports', case, drift, '')
    # --- the model of the object: attributes present / None / set at the three moments, which view can be produced
    req = {'op': 'resobj', **kind, 'pre_writes': pre_writes, 'writes': writes}

    def cb_obj(ans):
        if ans.get('built') != 'ok':
            res.diverge('ResObj.build fails on an object the real constructor accepted', case, ans.get('built'), 'ok')
            return
        if ans.get('loaded_equals_saved') is not True:
            res.diverge('ResObj: loaded object differs from the saved one in the model', case, ans.get('loaded_equals_saved'), True)
        for moment in ('before', 'saved', 'loaded'):
            m = {n: sl for n, sl in ans.get(moment, []) if sl != 'absent'}
            if m != slots[moment]:
                res.diverge(f'attributes of the results object ({moment}): ResObj vs RawResults.__dict__', case, _diff(m, slots[moment]), '')
                break
            mo = dict(ans.get('views_' + moment, []))
            if mo != outcomes[moment]:
                res.diverge(f'which reports can be produced ({moment}): ResObj.runView vs the real reports', case, _diff(mo, outcomes[moment]), '')
                break

    ctx.batch.add(req, cb_obj)
    res.traces_validated += 1


def _short(x):
    s = json.dumps(x, default=str)
    return s if len(s) < 700 else s[:700] + '…'


def spec_kind(spec):
    return {'userNotes': spec.get('userNotes') is not None, 'initLogLike': spec['initLogLike'] is not None, 'nullLogLike': spec['nullLogLike'] is not None,
            'g': spec['g'] is not None, 'H': spec['H'] is not None, 'bhhh': spec['bhhh'] is not None, 'bootstrap': spec['bootstrap'] is not None, 'k': len(spec['names'])}


def gen_kind_spec(rng, tag, flags=None):
    """a results object of one of the kinds the constructor of RawResults admits: each of hessian (+ BHHH), gradient, bootstrap, null and initial
    log likelihood, user notes present or None; 1-4 parameters; some report files written before the results are saved"""
    spec = gen_results_spec(rng, tag)
    k = len(spec['names'])
    if flags is None:
        flags = {f: rng.random() < p for f, p in (('H', 0.45), ('g', 0.6), ('initLogLike', 0.65), ('nullLogLike', 0.5), ('bootstrap', 0.5), ('userNotes', 0.5))}
        flags['bhhh'] = flags['H'] if rng.random() < 0.93 else not flags['H']
    if flags['bootstrap'] and spec['bootstrap'] is None:
        spec['bootstrap'] = [[spec['values'][j] + rng.randint(-8, 8) / 16.0 for j in range(k)] for _ in range(rng.choice([2, 3, 6]))]
    if not flags['bootstrap']:
        spec['bootstrap'] = None
    if flags['nullLogLike'] and spec['nullLogLike'] is None:
        spec['nullLogLike'] = (spec['initLogLike'] or spec['logLike']) - rng.randint(0, 80) / 8.0
    if not flags['nullLogLike']:
        spec['nullLogLike'] = None
    spec['userNotes'] = 'notes of the user' if flags['userNotes'] else None
    for f in ('H', 'bhhh', 'g', 'initLogLike'):
        if not flags[f]:
            spec[f] = None
    if spec['H'] is None:
        spec['hkind'] = 'none'
    spec['writes'] = [w for w in ('html', 'latex', 'f12') if rng.random() < 0.3]
    return spec


def gen_large_spec(rng, tag, k, flags=None):
    """a results object with MANY parameters (the reports must list every one of them, whatever their number)"""
    spec = gen_results_spec(rng, tag)
    stems = ['b', 'beta_time_', 'asc', 'B', 'β', 'x y ', 'mu&']
    names = []
    for i in range(k):
        names.append(f'{stems[i % len(stems)]}{i + 1}')
    rng.shuffle(names)   # appearance order is neither alphabetical nor numerical (b10 before b2)
    values = [rng.choice(SAFE_VALUES) if rng.random() < 0.6 else round(rng.uniform(-3, 3), 3) for _ in range(k)]
    A = np.array([[rng.randint(-8, 8) / 4.0 for _ in range(k)] for _ in range(k)])
    Bm = np.array([[rng.randint(-8, 8) / 4.0 for _ in range(k)] for _ in range(k + 1)])
    spec.update({'names': names, 'values': values, 'bounds': [[None, None] if rng.random() < 0.85 else [values[i], values[i] + 1.0] for i in range(k)],
                 'H': (-(A @ A.T + 0.5 * np.eye(k))).tolist(), 'hkind': 'regular', 'bhhh': (Bm.T @ Bm).tolist(), 'g': [0.0] * k,
                 'bootstrap': None if rng.random() < 0.5 else [[values[j] + rng.randint(-8, 8) / 16.0 for j in range(k)] for _ in range(3)],
                 'sampleSize': 10 * k + 7, 'numberOfObservations': 10 * k + 7, 'large': True})
    if flags and not flags.get('H', True):
        spec['H'] = spec['bhhh'] = spec['g'] = None
        spec['hkind'] = 'none'
    return spec


def results_case_stub(ctx, res, spec):
    with core.scratch(TOML):
        try:
            r = make_results(spec)
        except Exception as e:  # noqa: BLE001
            # the constructor refuses this combination (a hessian without BHHH matrix): the model must refuse it with the same kind of error
            kind, ek = spec_kind(spec), type(e).__name__
            res.count(spec, nontrivial=False)
            res.tally(f'results:constructor raises {ek}')

            def cb(ans):
                if ans.get('built') != ek:
                    res.diverge('RawResults / bioResults constructor raises, ResObj.build does not (or another kind of error)', spec, ans.get('built'), ek)

            ctx.batch.add({'op': 'resobj', **kind, 'pre_writes': [], 'writes': []}, cb)
            return
        active = [bool(b.is_bound_active()) for b in r.data.betas]
        res.count(spec, nontrivial=len(spec['names']) >= 2 or spec['bootstrap'] is not None or spec['H'] is None)
        res.tally('results:' + spec['hkind'])
        res.tally('results:K=%d' % len(spec['names']))
        check_results_object(ctx, res, spec, r, spec['names'], [float(v) for v in spec['values']], active)
        if spec.get('large'):
            # the short summary speaks of the model as a whole: it must at least state the number of parameters
            summary = attempt(r.short_summary)
            if f'Nbr of parameters:\t\t{len(spec["names"])}' not in str(summary):
                res.violate('short_summary does not state the number of estimated parameters', spec, _short(summary), len(spec['names']), where='bioResults.short_summary')


def results_case_estimation(ctx, res, case):
    with core.scratch(TOML):
        B = tiny_biogeme(case['model'], tuple(case['names']), rows=case.get('rows', 12), seed=case.get('seed', 1), bounds=case.get('bounds'))
        if case.get('null'):
            B.calculate_null_loglikelihood({1: 1, 2: 1})
        B.bootstrap_samples = 5
        B.generate_html = bool(case.get('html', True))
        B.generate_pickle = bool(case.get('pickle', True))
        if case.get('quick') and not case.get('after_estimate'):
            r = B.quick_estimate()
        else:
            r = B.estimate(run_bootstrap=bool(case.get('bootstrap')) and len(case['names']) >= 2)
            if case.get('quick'):
                # a quick estimation on the object that has just been estimated (the bootstrap sample of the first estimation is still there)
                r = B.quick_estimate()
        names = list(r.data.betaNames)
        values = [float(v) for v in r.data.betaValues]
        res.count(case, nontrivial=True)
        res.tally('results:estimated' + (':quick' if case.get('quick') else '') + (':after estimate' if case.get('quick') and case.get('after_estimate') else ''))
        active = [bool(b.is_bound_active()) for b in r.data.betas]
        # the file estimate() itself saved holds the results it returned
        own = r.data.pickleFileName
        if own is not None:
            from biogeme.results import bioResults

            res.tally('results:pickle written by estimate() loaded')
            try:
                mine, theirs = snapshot(r), snapshot(bioResults(pickle_file=own, identification_threshold=r.identification_threshold))
                bad = [k for k in mine if mine[k] != theirs[k]]
                if bad:
                    res.violate(f'the results saved by estimate() in {own!r} differ from the results it returned in: {bad}', case, _short(theirs[bad[0]]), _short(mine[bad[0]]),
                                where='BIOGEME.estimate: write_pickle')
            except Exception as e:  # noqa: BLE001
                res.violate(f'the results saved by estimate() cannot be loaded: {type(e).__name__}: {e}', case, own, 'results loaded', where='BIOGEME.estimate: write_pickle')
        check_results_object(ctx, res, case, r, names, values, active, stub=False)
        # what estimate() itself wrote: html lists the parameters; pickle written by estimate loads to the same estimates
        if not case.get('quick') and case.get('html', True) and os.path.isfile(case['model'] + '.html'):
            html = Path(case['model'] + '.html').read_text(encoding='utf-8')
            f = parse_reports({'html': html, 'latex': '', 'f12': '', 'str': ''}, names, values)
            for n, x, t in zip(names, values, f['html']):
                if t is None or not value_agrees(t, x, 3):
                    res.violate(f'the HTML file written by estimate() does not list {n!r} with its value', case, t, f'{x:.3g}', where='BIOGEME.estimate: write_html')


# ============================================================================ (iv) histories

MODEL_NAMES = ['m', 'mod', 'm~00', 'a.b', 'β', 'x y', 'm_1', 'Model-2']
DECOYS = ['m.html', 'm~00.html', 'm~02.html', 'm~1.html', 'm~001.html', 'M.html', 'm.htm', '.x', 'noext', '..a.b.c', 'm.pickle.bak', 'mod.tex', 'mod~00.tex',
          'd_dumped.dat', 'd_dumped~00.dat', 'a.b.html', 'a.F12', 'm_1.html', 'm~00~00.html', 'x y.F12']
WRITERS = {'html': 'html', 'tex': 'tex', 'f12': 'F12', 'pickle': 'pickle'}


def gen_history(rng, long=False):
    models = rng.sample(MODEL_NAMES, rng.randint(1, 3))
    pre = rng.sample(DECOYS, rng.randint(0, 8))
    n = rng.randint(1, 30) if not long else rng.randint(106, 125)
    ops = []
    focus = (rng.choice(models), rng.choice(list(WRITERS)))
    for _ in range(n):
        r = rng.random()
        if long and r < 0.96:
            ops.append(['write', focus[1], focus[0]])
        elif r < 0.62:
            ops.append(['write', rng.choice(list(WRITERS)), rng.choice(models)])
        elif r < 0.72:
            ops.append(['dump', 'd'])
        elif r < 0.84:
            ops.append(['delete', rng.randint(0, 10**6)])
        elif r < 0.94:
            ops.append(['backup', rng.choice([0, 0, 1, 2, rng.randint(0, 10**6)]), rng.random() < 0.35])
        else:
            ops.append(['backup_missing', rng.choice(['nothing.txt', 'm~77.html']), rng.random() < 0.5])
    if rng.random() < 0.3:
        # repeated backups of one file: base_1, base_2, base_3 ... must all be new
        target = rng.choice(pre + [f'{models[0]}.html', 'd_dumped.dat'])
        at = rng.randint(0, len(ops))
        ops[at:at] = [['backup_missing', target, False] for _ in range(rng.randint(2, 5))]
    return {'kind': 'history', 'pre': pre, 'ops': ops}


BACKUP_TARGETS = ['estimates.txt', 'm.html', 'mod.pickle', 'noext', '.hidden', 'a.b.c', 'x y.dat', 'm~00.pickle', 'data[1].csv', 'q*.txt', 'r?.log', 'β.tex',
                  'archive.tar.gz', 'm_1.html', 'UPPER.TXT', 'd_dumped.dat', 'm_2.html', '_', 'a_.b']


def gen_backup_history(rng):
    """repeated backups of one file in a directory where the backup numbers already in use are arbitrary: some were removed by the
    user, some names of that shape were put there by the user (gaps, 10 without 9, `01`), the file itself is re-created after a
    renaming backup or is missing"""
    target = rng.choice(BACKUP_TARGETS)
    base, ext = os.path.splitext(target)
    numbers = [1, 2, 3, 4, 5, 6, 9, 10, 11]
    pre = {f'{base}_{k}{ext}' for k in rng.sample(numbers, rng.choice([0, 1, 1, 2, 2, 3, 4, 6]))}
    if rng.random() < 0.4:
        pre |= set(rng.sample([f'{base}_01{ext}', f'{base}_{ext}', f'{base}_1', f'{base}_x{ext}', f'{base}_1{ext}.bak', f'{base}-1{ext}', f'{base}_0{ext}',
                               f'{base}1{ext}', f'{base}_1_1{ext}', f'{base}_ 2{ext}', f'{base.upper()}_1{ext}'], rng.randint(1, 4)))
    pre.discard(target)
    pre = sorted(p for p in pre if p not in ('', '.', '..'))
    rng.shuffle(pre)
    if rng.random() < 0.85:
        pre.insert(rng.randint(0, len(pre)), target)
    ops = []
    if rng.random() < 0.12:
        # many generations: the numbers go past 9 (two digits) while some early ones are removed on the way
        for k in range(rng.randint(10, 24)):
            ops.append(['backup_missing', target, False])
            if rng.random() < 0.15:
                ops.append(['delete_name', f'{base}_{rng.randint(1, k + 1)}{ext}'])
        return {'kind': 'history', 'pre': pre, 'ops': ops}
    for _ in range(rng.randint(2, 14)):
        r = rng.random()
        if r < 0.55:
            rename = rng.random() < 0.4
            ops.append(['backup_missing', target, rename])
            if rename and rng.random() < 0.8:
                ops.append(['create', target])
        elif r < 0.78:
            ops.append(['delete_name', f'{base}_{rng.choice([1, 1, 2, 2, 3, 4, 5, 10])}{ext}'])
        elif r < 0.88:
            ops.append(['create', rng.choice([target, target, f'{base}_{rng.randint(1, 6)}{ext}'])])
        elif r < 0.94:
            ops.append(['delete_name', target])
        else:
            # a backup of a backup
            ops.append(['backup_missing', f'{base}_{rng.randint(1, 3)}{ext}', rng.random() < 0.5])
    return {'kind': 'history', 'pre': pre, 'ops': ops}


def listing():
    return {p: hashlib.sha1(Path(p).read_bytes()).hexdigest() for p in os.listdir('.') if os.path.isfile(p) and p != 'biogeme.toml'}


def run_history(case, res=None):
    """real code; returns the abstract trace for the model, the produced names, the final directory as name->token,
    and the oracle's complaints"""
    import pandas as pd
    import biogeme.database as db
    from biogeme.tools.files import create_backup

    complaints = []
    with core.scratch(TOML):
        tokens = {}
        for p in case['pre']:
            Path(p).write_text('pre-existing ' + p, encoding='utf-8')
            tokens[p] = 'pre:' + p
        model_ops, produced = [], []
        database = db.Database('d', pd.DataFrame({'x': [1.0, 2.0], 'y': [3.0, 4.0]}))
        cur = listing()
        for i, op in enumerate(case['ops']):
            tok = f'op{i}'
            expect_new = False
            target = None
            if op[0] == 'write':
                spec = {'kind': 'results', 'model': op[2], 'names': ['b'], 'values': [float(i)], 'bounds': [[None, None]], 'H': [[-2.0]], 'hkind': 'regular',
                        'bhhh': [[1.0]], 'g': [0.0], 'bootstrap': None, 'logLike': -10.0, 'initLogLike': -12.0, 'nullLogLike': None, 'sampleSize': 9,
                        'numberOfObservations': 9, 'userNotes': tok, 'convergence': True, 'threshold': None}
                r = make_results(spec)
                fn = {'html': r.write_html, 'tex': r.write_latex, 'f12': r.write_f12, 'pickle': r.write_pickle}[op[1]]
                fn()
                name = {'html': r.data.htmlFileName, 'tex': r.data.latexFileName, 'f12': r.data.F12FileName, 'pickle': r.data.pickleFileName}[op[1]]
                model_ops.append(['write', op[2], WRITERS[op[1]], tok])
                expect_new = True
            elif op[0] == 'dump':
                name = database.dump_on_file()
                model_ops.append(['write', 'd_dumped', 'dat', tok])
                expect_new = True
            elif op[0] == 'delete':
                files = sorted(cur)
                if not files:
                    produced.append(None)
                    model_ops.append(['delete', 'no-such-file'])
                    continue
                target = files[op[1] % len(files)]
                os.remove(target)
                name = None
                model_ops.append(['delete', target])
            elif op[0] == 'delete_name':
                # the user removes one particular file (e.g. the oldest backup), if it is there
                target = op[1]
                model_ops.append(['delete', target])
                if target not in cur:
                    produced.append(None)
                    continue
                os.remove(target)
                name = None
            elif op[0] == 'create':
                # the user (or another program) creates or replaces a file: not an output of biogeme
                target = op[1]
                Path(target).write_text('user file ' + tok, encoding='utf-8')
                name = None
                model_ops.append(['create', target, tok])
            elif op[0] in ('backup', 'backup_missing'):
                if op[0] == 'backup':
                    files = sorted(cur)
                    target = files[op[1] % len(files)] if files else 'no-such-file'
                else:
                    target = op[1]
                name = create_backup(target, rename=bool(op[2]))
                model_ops.append(['backup', target, bool(op[2])])
            else:
                raise ValueError(op)
            produced.append(name)
            new = listing()
            added = sorted(set(new) - set(cur))
            removed = sorted(set(cur) - set(new))
            changed = sorted(p for p in cur if p in new and cur[p] != new[p])
            # ---- oracle, from the property: nothing existing is modified or replaced; each new output has a new name
            if op[0] == 'create':
                if [p for p in changed + added if p != target] or removed:
                    complaints.append({'step': i, 'op': op, 'what': 'harness: create went wrong'})
                tokens[target] = tok
                cur = new
                continue
            if changed:
                complaints.append({'step': i, 'op': op, 'what': f'existing file(s) modified: {changed}'})
            if expect_new:
                if name in cur:
                    complaints.append({'step': i, 'op': op, 'what': f'output written under the existing name {name!r}'})
                if added != [name] or removed:
                    complaints.append({'step': i, 'op': op, 'what': f'an output must add exactly one new file: added {added}, removed {removed}, reported {name!r}'})
                else:
                    tokens[name] = tok
            elif op[0] in ('delete', 'delete_name'):
                tokens.pop(target, None)
                if added or removed != [target]:
                    complaints.append({'step': i, 'op': op, 'what': 'harness: delete went wrong'})
            else:
                if name is None:
                    if added or removed:
                        complaints.append({'step': i, 'op': op, 'what': f'create_backup of a missing file changed the directory: +{added} -{removed}'})
                else:
                    if name in cur or added != [name]:
                        complaints.append({'step': i, 'op': op, 'what': f'backup name {name!r} is not new (added {added})'})
                    elif new[name] != cur.get(target):
                        complaints.append({'step': i, 'op': op, 'what': 'backup does not hold the content of the file'})
                    elif op[2] and removed != [target] or (not op[2] and removed):
                        complaints.append({'step': i, 'op': op, 'what': f'backup removed {removed}'})
                    else:
                        tokens[name] = tokens.get(target, '?')
                        if op[2]:
                            tokens.pop(target, None)
            cur = new
        final = sorted([n, t] for n, t in tokens.items())
        if sorted(tokens) != sorted(cur):
            complaints.append({'step': len(case['ops']), 'op': None, 'what': f'directory listing {sorted(cur)} differs from the tracked files {sorted(tokens)}'})
    return model_ops, produced, final, complaints


def check_history(ctx, res, case):
    model_ops, produced, final, complaints = run_history(case)
    suffixed = any(isinstance(p, str) and re.search(r'~\d\d+\.', p) for p in produced)
    backups = [p for p, op in zip(produced, case['ops']) if isinstance(p, str) and op[0] in ('backup', 'backup_missing')]
    res.count(case, nontrivial=suffixed or len(backups) >= 2)
    if len(backups) >= 2:
        res.tally('history:two or more backups made')
    if any(not re.search(r'_1(\.[^.]*)?$', b) for b in backups):
        res.tally('history:backup number other than 1')
    res.tally('history:len<=10' if len(case['ops']) <= 10 else 'history:len<=40' if len(case['ops']) <= 40 else 'history:len>40')
    for op in case['ops']:
        res.tally('op:' + op[0])
    if any(isinstance(p, str) and re.search(r'~\d\d\d+\.', p) for p in produced):
        res.tally('history:three-digit suffix reached')
    for c in complaints[:1]:
        res.violate(f'history step {c["step"]}: {c["what"]}', case, c, 'no existing file is modified or replaced; every output gets a new name', where='get_new_file_name / create_backup users')
    req = {'op': 'history', 'dir': [[p, 'pre:' + p] for p in case['pre']], 'ops': model_ops}

    def cb(ans):
        if ans.get('names') != produced:
            k = next((i for i, (a, b) in enumerate(zip(ans.get('names', []), produced)) if a != b), None)
            res.diverge(f'names produced by the history (first difference at step {k})', case, ans.get('names'), produced)
        elif sorted(ans.get('dir', [])) != final:
            res.diverge('final directory (name -> content) of the history', case, sorted(ans.get('dir', [])), final)

    ctx.batch.add(req, cb)
    res.traces_validated += 1


# ---- names with a directory component


def tree_listing():
    out = {}
    for root, _, files in os.walk('.'):
        for f in files:
            q = os.path.normpath(os.path.join(root, f))
            if q != 'biogeme.toml':
                out[q] = hashlib.sha1(Path(q).read_bytes()).hexdigest()
    return out


def gen_path_history(rng):
    """fresh-name histories where the base name carries a directory: a sub-directory, './', '../<cwd>/', an absolute path"""
    kinds = ['sub', 'dot', 'abs', 'deep', 'plain']
    ops = []
    for _ in range(rng.randint(3, 9)):
        ops.append([rng.choice(['newname', 'newname', 'dump', 'html', 'pickle']), rng.choice(kinds), rng.choice(['m', 'survey', 'a.b']), rng.choice(['html', 'dat', 'pickle'])])
    return {'kind': 'path_history', 'ops': ops, 'pre': rng.random() < 0.5}


def check_path_history(ctx, res, case):
    import pandas as pd
    import biogeme.database as db
    from biogeme.filenames import get_new_file_name

    res.count(case, nontrivial=True)
    with core.scratch(TOML):
        os.makedirs('out/deep er')
        cwd = os.getcwd()
        prefix = {'sub': 'out/', 'dot': './', 'abs': cwd + '/out/', 'deep': 'out/deep er/', 'plain': ''}
        if case.get('pre'):
            for q in ('out/m.html', 'm.html', 'out/survey_dumped.dat', 'out/deep er/m~00.html'):
                Path(q).write_text('pre-existing ' + q, encoding='utf-8')
        cur = tree_listing()
        for i, (what, kind, base, ext) in enumerate(case['ops']):
            name = prefix[kind] + base
            res.tally(f'path history:{what}:{kind}')
            try:
                if what == 'newname':
                    got = get_new_file_name(name, ext)
                    if os.path.exists(got):
                        res.violate(f'step {i}: get_new_file_name({name!r}, {ext!r}) returns {got!r}, which exists', case, got, 'a name that does not exist', where='get_new_file_name: name with a directory')
                        return
                    Path(got).write_text(f'op{i}', encoding='utf-8')
                elif what == 'dump':
                    got = db.Database(name, pd.DataFrame({'x': [1.0, float(i)]})).dump_on_file()
                else:
                    spec = {'kind': 'results', 'model': name, 'names': ['b'], 'values': [float(i)], 'bounds': [[None, None]], 'H': [[-2.0]], 'hkind': 'regular', 'bhhh': [[1.0]],
                            'g': [0.0], 'bootstrap': None, 'logLike': -10.0, 'initLogLike': -12.0, 'nullLogLike': None, 'sampleSize': 9, 'numberOfObservations': 9,
                            'userNotes': f'op{i}', 'convergence': True, 'threshold': None}
                    r = make_results(spec)
                    if what == 'html':
                        r.write_html()
                        got = r.data.htmlFileName
                    else:
                        got = r.write_pickle()
            except Exception as e:  # noqa: BLE001
                res.diverge(f'step {i} of a history with directory names raised {type(e).__name__}: {str(e)[:120]}', case, 'a new file', type(e).__name__)
                return
            new = tree_listing()
            changed = sorted(q for q in cur if new.get(q) != cur[q])
            added = sorted(set(new) - set(cur))
            if changed or added != [os.path.normpath(os.path.relpath(got, cwd))]:
                res.violate(f'step {i} ({what} {name!r}): existing files modified {changed}, files added {added}, name reported {got!r}', case, [changed, added],
                            'exactly one new file, nothing modified', where='get_new_file_name: name with a directory')
                return
            cur = new
    res.traces_validated += 1


# ---- recycle


OTHER_MODEL_SHAPES = ['{glob}', '{m}_income', '{m}2', '{m}_validation', '{m} (2)', '{m}-old', '{m}.v2', '{m}x', '{m}_1', 'x{m}', '{M}', '{m-}', '{m}{m}', '{m}_']
JUNK_SHAPES = ['{m}_validation.pickle', '{m}.pickle.bak', '{m}.pickle~', '{m}x.pickle', 'x{m}.pickle', '{m}~00.pickle.old', '{m}.pickles', 'other.pickle', 'zzz.pickle',
               '{m}_pickle', '{m}pickle', '{m}.html.pickle.txt']


def glob_special(m):
    """the model name holds a character that glob reads as a pattern (and that biogeme's is_valid_filename accepts)"""
    return any(c in m for c in '[]')


def glob_special_case(case):
    """MATCHER of the glob finding"""
    return (case or {}).get('kind') == 'recycle' and glob_special((case or {}).get('model', ''))


def shape_name(shape, m):
    # '{glob}': a name that the name of the model, read as a glob pattern, matches ('m[1]' -> 'm1'); the name itself otherwise
    shape = shape.replace('{glob}', re.sub(r'\[(.)[^\]]*\]', r'\1', m))
    return shape.replace('{m-}', m[:-1] or 'q').replace('{M}', m.upper() if m.upper() != m else m + 'Q').replace('{m}', m)


def tilde_related(a, b):
    """the output names of models a and b overlap by design (a = b + '~...' or the reverse, or a = b)"""
    return a == b or a.startswith(b + '~') or b.startswith(a + '~')


def gen_recycle(rng, n=None):
    """saved results of one model, possibly interleaved with those of other models in the same directory whose names contain the
    name of this model (as a prefix, a suffix, in another case), and with files that are not saved results"""
    m = rng.choice(['m', 'mod', 'a.b', 'x y', 'logit', 'β', 'Model-2', 'm_1'])
    if rng.random() < 0.08:
        m = rng.choice(['m[1]', 'logit[v2]', 'a[bc]'])
    if n is None:
        n = rng.choice([0, 1, 1, 2, 3, 5, 11])
    others = [o for o in (shape_name(sh, m) for sh in rng.sample(OTHER_MODEL_SHAPES, rng.choice([0, 1, 1, 2, 3]))) if not tilde_related(o, m)]
    order = [0] * n
    for k in range(len(others)):
        order += [k + 1] * rng.choice([1, 1, 2, 3])
    if n > 20:
        tail = order[n:]
        rng.shuffle(tail)
        order = order[:n] + tail if rng.random() < 0.5 else tail + order[:n]
    else:
        rng.shuffle(order)
    junk = sorted({shape_name(sh, m) for sh in rng.sample(JUNK_SHAPES, rng.choice([0, 0, 1, 2, 3]))})
    return {'kind': 'recycle', 'model': m, 'n': n, 'other_models': others, 'order': order, 'other_files': junk, 'html': rng.random() < 0.5,
            'via': rng.choice(['estimate', 'estimate', 'recycled_estimation'])}


def run_recycle(case):
    """successive saved results of one model (and of other models in the same directory), then estimate(recycle=True); returns what
    was written for the model, what was loaded, the directory, the lists given by files_of_type"""
    with core.scratch(TOML):
        B = tiny_biogeme(case['model'])
        B.generate_html = False
        B.generate_pickle = False
        written = []
        others = case.get('other_models', [])
        order = case.get('order')
        if order is None:
            order = [0] * case['n']
        counts = {}
        for who in order:
            i = counts.get(who, 0)
            counts[who] = i + 1
            own = who == 0
            spec = {'kind': 'results', 'model': case['model'] if own else others[who - 1], 'names': ['b_x', 'asc'] if own else ['b_other', 'zz', 'b_x'],
                    'values': [float(i), 0.5] if own else [1000.0 + i, -7.0, 2000.0 + who], 'bounds': [[None, None]] * (2 if own else 3),
                    'H': [[-2.0, 0.0], [0.0, -1.0]] if own else [[-2.0, 0.0, 0.0], [0.0, -1.0, 0.0], [0.0, 0.0, -4.0]], 'hkind': 'regular',
                    'bhhh': [[1.0, 0.0], [0.0, 1.0]] if own else [[1.0, 0.0, 0.0], [0.0, 1.0, 0.0], [0.0, 0.0, 1.0]], 'g': [0.0] * (2 if own else 3), 'bootstrap': None,
                    'logLike': -10.0, 'initLogLike': -12.0, 'nullLogLike': None, 'sampleSize': 9, 'numberOfObservations': 9,
                    'userNotes': f'run {i}' if own else f'other model {others[who - 1]} run {i}', 'convergence': True, 'threshold': None}
            r = make_results(spec)
            name = r.write_pickle()
            if case.get('html'):
                r.write_html()
            if own:
                written.append([name, f'run {i}', float(i)])
        for extra in case.get('other_files', []):
            Path(extra).write_bytes(b'not a pickle of this model')
        before = listing()
        listed = {}
        for ext in ('pickle', 'html'):
            listed[ext] = attempt(lambda: sorted(B.files_of_type(ext)))
            listed[ext + ':all'] = attempt(lambda: sorted(B.files_of_type(ext, all_files=True)))
        try:
            r = B.recycled_estimation() if case.get('via') == 'recycled_estimation' else B.estimate(recycle=True)
            got = [r.data.userNotes, float(r.data.betaValues[0]), r.data.pickleFileName, list(r.data.betaNames)]
        except Exception as e:  # noqa: BLE001
            got = [f'EXC:{type(e).__name__}: {e}', None, None, None]
        after = listing()
        names = sorted(before)
    return written, got, names, before == after, listed


def more_than_101_pickles(case):
    return (case or {}).get('kind') == 'recycle' and (case or {}).get('n', 0) > 101


def check_recycle(ctx, res, case):
    written, got, names, untouched, listed = run_recycle(case)
    special = glob_special(case['model'])
    w_rec = W_GLOB if special else W_RECYCLE
    w_fot = W_GLOB if special else 'BIOGEME.files_of_type'
    w_div = W_GLOB if special else ''
    if special:
        res.tally('recycle:model name with glob characters')
    res.count(case, nontrivial=case['n'] >= 2 or bool(case.get('other_models')))
    res.tally('recycle:n>101' if case['n'] > 101 else 'recycle:n<=101')
    if case.get('other_models'):
        res.tally('recycle:other models saved in the same directory')
    if case['n'] == 0:
        res.tally('recycle:nothing saved for the model')
    if not untouched:
        res.violate('estimate(recycle=True) changed the directory', case, 'changed', 'unchanged', where=w_rec)
    if written:
        # the property: saved results loaded again are the same results — those this model saved last
        last = written[-1]
        if got[0] != last[1] or got[1] != last[2]:
            res.violate(f'estimate(recycle=True) after {case["n"]} saved results of model {case["model"]!r} loads {got[2]!r} ({got[0]}), not the results it saved last ({last[0]!r})',
                        case, got, last, where=w_rec)
    else:
        # nothing was saved for this model: whatever is returned, it is not the saved results of another model nor a file that holds no results
        last = [None, None, None]
        if got[3] != ['asc', 'b_x'] and got[3] != ['b_x', 'asc']:
            res.violate(f'estimate(recycle=True) of model {case["model"]!r}, for which nothing was saved, returns {got[2]!r} ({got[0]})', case, got,
                        'an estimation of the model itself', where=w_rec)
    own_names = [w[0] for w in written]
    for ext in ('pickle', 'html'):
        exp_all = sorted(p for p in names if p.endswith('.' + ext) and not p.startswith('.'))
        if listed[ext + ':all'] != exp_all:
            res.diverge(f'files_of_type({ext!r}, all_files=True) vs the files with that extension', case, exp_all, listed[ext + ':all'])
    # every file the model saved is listed (oracle: otherwise saved results can never be loaded again through recycling)
    if isinstance(listed['pickle'], list) and not set(own_names) <= set(listed['pickle']):
        res.violate(f'files_of_type("pickle") of model {case["model"]!r} does not list the results it saved: {sorted(set(own_names) - set(listed["pickle"]))}', case,
                    listed['pickle'], own_names, where=w_fot)
    reqs = [{'op': 'recycle', 'names': names, 'model': case['model'], 'ext': ext} for ext in ('pickle', 'html')]

    def cb(answers):
        ans, ans_html = answers
        for ext, a in (('pickle', ans), ('html', ans_html)):
            if sorted(a.get('of_type', [])) != listed[ext]:
                res.diverge(f'files_of_type({ext!r}) vs Files.ofType', case, sorted(a.get('of_type', [])), listed[ext], where=w_div)
        if ans.get('latest') != last[0]:
            res.diverge('Files.recycleChoice (repaired choice) vs the file written last', case, ans.get('latest'), last[0], where=W_RECYCLE if case['n'] > 101 else w_div)
        if ans.get('lenlex') != ans.get('latest'):
            res.diverge('order (length, name) of the proposed repair vs the largest index of the sequence', case, ans.get('lenlex'), ans.get('latest'))
        # the real code follows either the model of the code as it is (string order) or the repaired choice
        if got[2] not in (ans.get('lex'), ans.get('latest')) and written:
            res.diverge('file loaded by estimate(recycle=True) vs Files.recycleChoiceLex / Files.recycleChoice', case, [ans.get('lex'), ans.get('latest')], got[2], where=w_div)

    ctx.batch.add_many(reqs, cb)


# ---- validate, flat panel


def check_validate(ctx, res, case):
    import biogeme.database as db  # noqa: F401

    with core.scratch(TOML):
        B = tiny_biogeme(case['model'], rows=16)
        for p in case['pre']:
            Path(p).write_text('pre-existing ' + p, encoding='utf-8')
        r = B.estimate()
        cur = listing()
        folds = B.database.split(case['slices'])
        B.validate(r, folds)
        new = listing()
    changed = sorted(p for p in cur if p not in new or new[p] != cur[p])
    added = sorted(set(new) - set(cur))
    res.count(case, nontrivial=bool(case['pre']))
    res.tally('validate')
    if changed:
        res.violate(f'validate() modified or removed existing files: {changed}', case, changed, 'existing files untouched', where='BIOGEME.validate')
    m = case['model']
    ops = []
    for k in range(1, case['slices'] + 1):
        ops += [['write', f'{m}_val_est_{k}', 'html', f'h{k}'], ['write', f'{m}_val_est_{k}', 'pickle', f'p{k}']]
    ops.append(['write', f'{m}_validation', 'pickle', 'v'])
    req = {'op': 'history', 'dir': [[p, cur[p]] for p in sorted(cur)], 'ops': ops}

    def cb(ans):
        exp = sorted(n for n in ans.get('names', []) if n)
        if exp != added:
            res.diverge('files created by validate()', case, exp, added)

    ctx.batch.add(req, cb)


def run_flat(case):
    import pandas as pd
    import biogeme.database as db

    with core.scratch(TOML):
        hist = []
        for i in range(case['n']):
            df = pd.DataFrame({'id': [1, 1, 2, 2, 3], 'x': [float(i), 1.0, 2.0, 3.0, 4.0]})
            d = db.Database('pan', df)
            d.panel('id')
            before = listing()
            d.generate_flat_panel_dataframe(save_on_file=True)
            after = listing()
            hist.append({'changed': sorted(p for p in before if after.get(p) != before[p]), 'added': sorted(set(after) - set(before))})
    return hist


def check_flat(ctx, res, case):
    hist = run_flat(case)
    res.count(case, nontrivial=case['n'] >= 2)
    res.tally('flat panel save')
    for i, h in enumerate(hist):
        if h['changed'] or len(h['added']) != 1:
            res.violate(f'generate_flat_panel_dataframe(save_on_file=True), call {i + 1}: replaced {h["changed"]}, added {h["added"]}', case, h,
                        'exactly one new file, nothing replaced', where=W_FLAT)
            break
    req = {'op': 'history', 'dir': [], 'ops': [['write', 'pan_flatten', 'csv', f'c{i}'] for i in range(case['n'])]}

    def cb(ans):
        exp = ans.get('names', [])
        got = [(h['added'] or [None])[0] for h in hist]
        if exp != got:
            res.diverge('names of the flat panel files vs the model of the repaired code', case, exp, got, where=W_FLAT)

    ctx.batch.add(req, cb)


# ---- splitext


def check_splitext(ctx, res, rng, n):
    alphabet = ['.', '.', 'a', 'b', '~', '_', '1', ' ']
    names = ['', '.', '..', 'a', 'a.', '.a', '..a', 'a.b', 'a..b', '.a.b', '...', 'a.b.c', 'ab.tar.gz', '.hidden.txt', 'x.', '..x.y']
    for _ in range(n):
        names.append(''.join(rng.choice(alphabet) for _ in range(rng.randint(1, 7))))
    reqs = [{'op': 'splitext', 'p': p} for p in names]

    def cb(ans):
        for p, a in zip(names, ans):
            root, ext = os.path.splitext(p)
            res.count({'kind': 'splitext', 'p': p}, nontrivial=False)
            if [a.get('root'), a.get('ext')] != [root, ext]:
                res.diverge('os.path.splitext vs Files.splitext', {'kind': 'splitext', 'p': p}, a, [root, ext])

    ctx.batch.add_many(reqs, cb)


# ============================================================================ corpus / check / search / replay

CORPUS = [
    # extreme admissible values of every kind in one file
    {'kind': 'params', 'assigns': [
        {'sec': 'SimpleBounds', 'name': 'tolerance', 'value': {'f': f2b(5e-324)}},
        {'sec': None, 'name': 'steptol', 'value': {'f': f2b(float('inf'))}},
        {'sec': None, 'name': 'identification_threshold', 'value': {'f': f2b(float('nan'))}},
        {'sec': None, 'name': 'missing_data', 'value': {'i': -(2**70)}},
        {'sec': 'MonteCarlo', 'name': 'seed', 'value': {'i': 2**64}},
        {'sec': None, 'name': 'version', 'value': {'s': 'a"b\\c\nd\té≠'}},
        {'sec': None, 'name': 'dogleg', 'value': {'b': False}},
        {'sec': None, 'name': 'optimization_algorithm', 'value': {'s': 'TR-BFGS'}}]},
    # a Python bool accepted for an int parameter is not read back (outside 'admissible': model and code must agree)
    {'kind': 'params', 'assigns': [{'sec': None, 'name': 'number_of_threads', 'value': {'b': True}}]},
    {'kind': 'params', 'assigns': [{'sec': None, 'name': 'second_derivatives', 'value': {'i': 1}}, {'sec': None, 'name': 'initial_radius', 'value': {'f': f2b(-0.0)}}]},
    # user-added parameters under the name of an existing one: ambiguity of the name without section; known finding FC14-6 (second case)
    {'kind': 'params', 'assigns': [{'sec': None, 'name': 'seed', 'value': {'i': 7}}, {'sec': 'UserSection', 'name': 'seed', 'value': {'i': 8}}, {'sec': 'MonteCarlo', 'name': 'seed', 'value': {'i': 9}}],
     'extra': [{'name': 'seed', 'from': 'MonteCarlo', 'sec': 'UserSection'}]},
    {'kind': 'params', 'assigns': [], 'extra': [{'name': 'optimization_algorithm', 'from': 'Estimation', 'sec': 'UserSection'}]},
    # one Parameters object: an empty file is read, a parameter absent from it is changed, a user parameter is added after a first dump
    {'kind': 'param_history', 'ops': [{'op': 'read', 'doc': []}, {'op': 'set', 'sec': None, 'name': 'seed', 'value': {'i': 7}}, {'op': 'dump'},
                                      {'op': 'add', 'name': 'seed', 'from': 'MonteCarlo', 'sec': 'UserSection'}, {'op': 'set', 'sec': 'UserSection', 'name': 'seed', 'value': {'i': 9}},
                                      {'op': 'read_missing'}, {'op': 'set', 'sec': 'Output', 'name': 'generate_html', 'value': {'b': False}}, {'op': 'dump'}]},
    # known finding FC14-7: a file name dump_file accepts and read_file silently ignores
    {'kind': 'param_name', 'name': 'a:b.toml', 'assigns': [{'sec': 'MonteCarlo', 'name': 'seed', 'value': {'i': 7}}], 'biogeme': True},
    # known findings
    {'kind': 'results_latex', 'value': 200000.0},
    {'kind': 'flat', 'n': 2},
    {'kind': 'recycle', 'model': 'm', 'n': 102},
    {'kind': 'estimation', 'model': 'quick', 'names': ['b_x', 'asc'], 'quick': True},
    # results without second derivatives are saved and loaded like the others: one parameter; after an estimation with bootstrap on the same object
    {'kind': 'estimation', 'model': 'quick1', 'names': ['b_x'], 'quick': True, 'null': True},
    {'kind': 'estimation', 'model': 'quick b', 'names': ['b_x', 'asc'], 'quick': True, 'after_estimate': True, 'bootstrap': True, 'writes': ['html']},
    # names: F12 label collision, '-' in a name, html characters
    {'kind': 'estimation', 'model': 'mod', 'names': ['beta_time_car', 'asc-2', 'B<3>'], 'null': True, 'bootstrap': True},
    {'kind': 'history', 'pre': ['m.html', 'm~00.html', 'm~02.html'], 'ops': [['write', 'html', 'm'], ['write', 'html', 'm'], ['delete', 0], ['write', 'html', 'm'], ['backup', 1, True], ['backup', 0, False]]},
    # backup numbers in use are not 1..n: the oldest backup was removed / only a later number is there / the file is re-created after a renaming backup
    {'kind': 'history', 'pre': ['e.txt'], 'ops': [['backup_missing', 'e.txt', False], ['backup_missing', 'e.txt', False], ['backup_missing', 'e.txt', False],
                                                   ['delete_name', 'e_1.txt'], ['backup_missing', 'e.txt', False], ['backup_missing', 'e.txt', True], ['create', 'e.txt'],
                                                   ['backup_missing', 'e.txt', True]]},
    {'kind': 'history', 'pre': ['noext_2', 'noext', 'noext_10'], 'ops': [['backup_missing', 'noext', False], ['backup_missing', 'noext', False], ['backup_missing', 'noext_2', True]]},
    # two models in one directory, the name of one starting with / ending with the name of the other; a validation file; nothing saved for the model
    {'kind': 'recycle', 'model': 'logit', 'n': 2, 'other_models': ['logit_income', 'xlogit'], 'order': [0, 1, 0, 2, 1], 'other_files': ['logit_validation.pickle'], 'html': True, 'via': 'estimate'},
    {'kind': 'recycle', 'model': 'm', 'n': 0, 'other_models': ['m2'], 'order': [1], 'other_files': [], 'html': False, 'via': 'recycled_estimation'},
    # known finding FC14-5: a model name that glob reads as a pattern
    {'kind': 'recycle', 'model': 'm[1]', 'n': 2, 'other_models': ['m1'], 'order': [0, 1, 0], 'other_files': [], 'html': False, 'via': 'estimate'},
]


def run_case(ctx, res, case, table):
    """one case; an exception escaping from the real code on a generated (valid) case is recorded as a
    divergence (the model never raises there), so that the run continues and the search looks for a failing input"""
    try:
        _run_case(ctx, res, case, table)
    except core.LeanError:
        raise
    except Exception as e:  # noqa: BLE001
        import traceback

        tb = traceback.extract_tb(e.__traceback__)
        site = next((f'{Path(f.filename).name}:{f.lineno} {f.name}' for f in reversed(tb) if 'biogeme' in f.filename and 'harness' not in f.filename), '')
        res.diverge(f'the real code raised {type(e).__name__}: {str(e)[:200]} ({site})', case, 'no exception', f'{type(e).__name__}')


def _run_case(ctx, res, case, table):
    k = case['kind']
    if k == 'params':
        check_param_case(ctx, res, case, table)
    elif k == 'file':
        check_file_case(ctx, res, case, table)
    elif k == 'param_history':
        check_param_history(ctx, res, case, table)
    elif k == 'path_history':
        check_path_history(ctx, res, case)
    elif k == 'param_name':
        check_param_name_case(ctx, res, case, table)
    elif k == 'results':
        results_case_stub(ctx, res, case)
    elif k == 'results_latex':
        spec = gen_results_spec(core.rng_for('C14-latex', 0), 'lx', safe=True)
        spec['values'][0] = float(case['value'])
        spec['bounds'][0] = [None, None]
        results_case_stub(ctx, res, spec)
    elif k == 'estimation':
        results_case_estimation(ctx, res, case)
    elif k == 'history':
        check_history(ctx, res, case)
    elif k == 'recycle':
        check_recycle(ctx, res, case)
    elif k == 'validate':
        check_validate(ctx, res, case)
    elif k == 'flat':
        check_flat(ctx, res, case)
    elif k == 'missing_file':
        check_missing_file(ctx, res)
    else:
        raise ValueError(k)


MATCHERS = {'invalid_name_chars': invalid_name_chars, 'extra_optimization_algorithm': extra_optimization_algorithm, 'latex_suffix': latex_suffix_case, 'more_than_101_pickles': more_than_101_pickles, 'glob_special_model_name': glob_special_case}


def _guard_batch(ctx, res):
    """no exception inside a model-comparison callback may end the run: it is recorded as a divergence"""
    if getattr(ctx.batch, '_guarded', False):
        return
    add, add_many = ctx.batch.add, ctx.batch.add_many

    def wrap(cb, req):
        def guarded(ans):
            try:
                cb(ans)
            except core.LeanError:
                raise
            except Exception as e:  # noqa: BLE001
                res.diverge(f'comparison with the model failed: {type(e).__name__}: {str(e)[:150]}', {'kind': 'model-answer'}, str(ans)[:300], str(req)[:300])

        return guarded

    ctx.batch.add = lambda req, cb: add(req, wrap(cb, req))
    ctx.batch.add_many = lambda reqs, cb: add_many(reqs, wrap(cb, reqs))
    ctx.batch._guarded = True


def check(ctx) -> Result:
    res = Result(rule=RULE, tolerance='exact (bit patterns, strings, content hashes); report values at the precision of their format (.3g, .12e)')
    _guard_batch(ctx, res)
    rng = ctx.rng
    table = live_table()
    # the table handed to the driver is the one the Generated obligations are about
    if not GEN.exists() or GEN.read_text() != render_generated(*table):
        res.extra_obligations.append({'name': 'Generated.DefaultParams is current', 'ok': False, 'why': 'generated file differs from the live table'})
    live_attrs = live_attr_table()
    if not GEN_ATTRS.exists() or GEN_ATTRS.read_text() != render_attrs(live_attrs):
        res.extra_obligations.append({'name': 'Generated.ResultsAttrs is current', 'ok': False, 'why': 'generated file differs from the live source of biogeme.results'})

    def cb_attrs(a):
        got, exp = sorted(map(json.dumps, a.get('table', []))), sorted(json.dumps(r) for r in live_attrs)
        if got != exp:
            res.diverge('attributes assigned by biogeme.results (AST of the live source) vs ResObj.sourceTable (driver)', {'kind': 'attr-table'},
                        sorted(set(got) - set(exp)), sorted(set(exp) - set(got)))

    ctx.batch.add({'op': 'attr_table'}, cb_attrs)
    ctx.batch.add({'op': 'table_ok', 'algos': table[0], 'params': table[1]},
                  lambda a: None if a.get('ok') is True else res.diverge('Params.tableOK on the live default table (driver)', {'kind': 'table'}, a, True))
    for c in CORPUS:
        run_case(ctx, res, c, table)
        res.tally('corpus')
    check_missing_file(ctx, res)
    for _ in range(ctx.n(250, 3500)):
        run_case(ctx, res, gen_param_case(rng, *table), table)
    for _ in range(ctx.n(120, 2000)):
        run_case(ctx, res, gen_file_case(rng, *table), table)
    for _ in range(ctx.n(150, 2000)):
        run_case(ctx, res, gen_param_history(rng, *table), table)
    for nm in PARAM_FILE_NAMES:
        run_case(ctx, res, gen_param_name_case(rng, *table, name=nm), table)
    for _ in range(ctx.n(60, 800)):
        run_case(ctx, res, gen_param_name_case(rng, *table), table)
    for i in range(ctx.n(80, 1200)):
        run_case(ctx, res, gen_results_spec(rng, MODEL_TAGS[i % len(MODEL_TAGS)] if i < 2 * len(MODEL_TAGS) else rng.choice(MODEL_TAGS)), table)
    # every kind of results object the constructor admits (2^6 combinations of optional inputs, 1-5 parameters)
    combos = [(h, g, i, n, b) for h in (False, True) for g in (False, True) for i in (False, True) for n in (False, True) for b in (False, True)]
    rng.shuffle(combos)
    for j in range(ctx.n(40, 500)):
        flags = None
        if j < len(combos):
            h, g, i, n, b = combos[j]
            flags = {'H': h, 'bhhh': h, 'g': g, 'initLogLike': i, 'nullLogLike': n, 'bootstrap': b, 'userNotes': rng.random() < 0.5}
        run_case(ctx, res, gen_kind_spec(rng, rng.choice(['k', 'k k', 'k~00']), flags), table)
    # report completeness at large sizes: around the default of max_number_parameters_to_report (15) and well above
    for k in ([15, 16, 40] if ctx.quick else [15, 16, 17, 24, 31, 40, 40, 64]):
        run_case(ctx, res, gen_large_spec(rng, rng.choice(MODEL_TAGS), k), table)
    run_case(ctx, res, gen_large_spec(rng, 'big q', rng.choice([16, 20]), {'H': False}), table)
    for i in range(ctx.n(5, 40)):
        names = rng.sample(NAME_POOL, rng.randint(1, 3))
        run_case(ctx, res, {'kind': 'estimation', 'model': rng.choice(['qm', 'q m']), 'names': names, 'rows': rng.randint(8, 40), 'seed': rng.randint(1, 10**6),
                            'null': rng.random() < 0.5, 'quick': True, 'after_estimate': rng.random() < 0.5, 'bootstrap': rng.random() < 0.6,
                            'html': rng.random() < 0.5, 'pickle': rng.random() < 0.5, 'writes': [w for w in ('html', 'latex', 'f12') if rng.random() < 0.3]}, table)
    for i in range(ctx.n(8, 60)):
        names = rng.sample(NAME_POOL, rng.randint(1, 3))
        run_case(ctx, res, {'kind': 'estimation', 'model': rng.choice(['em', 'e m', 'e.m']), 'names': names, 'rows': rng.randint(8, 40), 'seed': rng.randint(1, 10**6),
                            'null': rng.random() < 0.5, 'bootstrap': rng.random() < 0.4, 'html': rng.random() < 0.7, 'pickle': rng.random() < 0.7,
                            'bounds': rng.choice([None, None, [0.0, 1.0], [-0.001, 0.001]]), 'writes': [w for w in ('html', 'latex', 'f12') if rng.random() < 0.3]}, table)
    for i in range(ctx.n(80, 900)):
        run_case(ctx, res, gen_history(rng), table)
    for i in range(ctx.n(4, 40)):
        run_case(ctx, res, gen_history(rng, long=True), table)
    for i in range(ctx.n(60, 700)):
        run_case(ctx, res, gen_backup_history(rng), table)
    for i in range(ctx.n(40, 500)):
        run_case(ctx, res, gen_path_history(rng), table)
    for i in range(ctx.n(5, 30)):
        n = rng.choice([1, 2, 3, 11, 50, 100, 101]) if i else 101
        run_case(ctx, res, gen_recycle(rng, n), table)
    for i in range(ctx.n(14, 150)):
        run_case(ctx, res, gen_recycle(rng), table)
    for i in range(ctx.n(2, 8)):
        m = rng.choice(['vm', 'v m'])
        run_case(ctx, res, {'kind': 'validate', 'model': m, 'slices': rng.randint(2, 3),
                            'pre': rng.sample([f'{m}_validation.pickle', f'{m}_val_est_1.html', f'{m}_val_est_1.pickle', f'{m}_val_est_2~00.html', f'{m}.html'], 5 if i == 0 else rng.randint(0, 4))}, table)
    check_splitext(ctx, res, rng, ctx.n(60, 600))
    ctx.batch.flush()
    return res


def search(ctx, res, broken):
    """something broke without a concrete failing input: apply the property oracles to the real code on a widened stream
    (no Lean needed: the callbacks of the model are dropped)"""
    rng = core.rng_for('C14-search', ctx.seed)
    table = live_table()
    gens = [lambda: gen_param_case(rng, *table) if rng.random() < 0.4 else gen_param_history(rng, *table) if rng.random() < 0.6 else gen_param_name_case(rng, *table, name=rng.choice(PARAM_FILE_NAMES + [None])), lambda: gen_file_case(rng, *table), lambda: gen_results_spec(rng, 's'),
            lambda: gen_history(rng), lambda: gen_recycle(rng, rng.choice([1, 2, 12, 101])),
            lambda: gen_history(rng, long=True), lambda: gen_backup_history(rng), lambda: gen_recycle(rng), lambda: gen_kind_spec(rng, 's k')]
    weights = [40, 20, 25, 25, 3, 2, 20, 10, 30]
    for i in range(500):
        g = rng.choices(gens, weights)[0]
        r2 = Result()
        try:
            run_case(ctx, r2, g(), table)
        except Exception as e:  # noqa: BLE001
            res.notes.append(f'search: case raised {type(e).__name__}: {e}')
        ctx.batch.items.clear()
        fresh = [v for v in r2.violations if not _is_known(ctx, v)]
        if fresh:
            res.violations.extend(fresh[:1])
            return


def replay(ctx, obj):
    case = obj.get('case') or {}
    out = {'replayed': obj.get('what')}
    if not isinstance(case, dict) or 'kind' not in case:
        out.update({'property_fails': False, 'note': 'nothing to replay (no concrete input in this file)'})
        return out
    case = {k: v for k, v in case.items() if k != 'values_printed'}
    r = Result()
    try:
        run_case(ctx, r, case, live_table())
    finally:
        ctx.batch.items.clear()
    fresh = [v for v in r.violations if not _is_known(ctx, v)]
    out.update({'property_fails': bool(fresh), 'violations': [{k: v[k] for k in ('what', 'observed', 'expected', 'where')} for v in fresh[:3]],
                'known_findings_also_seen': sorted({_is_known(ctx, v) for v in r.violations if _is_known(ctx, v)})})
    return out


def _is_known(ctx, v):
    """id of the listed known finding this violation is an instance of (same call site and matcher), else None"""
    for f in getattr(ctx, 'findings', []) or []:
        if f.get('kind') != 'known' or f.get('where') != v.get('where'):
            continue
        pred = MATCHERS.get(f.get('match', ''))
        if f.get('match') and pred is None:
            continue
        if pred is None or pred(v.get('case')):
            return f['id']
    return None
