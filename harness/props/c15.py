"""C15 — the saved-iteration file is always a sound restart point.

Tie: correspondence (C).  Real `BIOGEME` objects with `save_iterations` on receive generated
histories of `calculate_likelihood_and_derivatives`; the file `__<model>.iter` is read after
every call and compared with the Lean model (`IterFile.trace`) and with the property oracle
(best finite point so far, complete lines, bit-for-bit values).  Sessions: ONE object receives generated sequences
of public calls (direct evaluations with every combination of scaled/hessian/bhhh, check_derivatives, the
finite-difference hessian, estimate, quick_estimate) interleaved with assignments of modelName; every derivative
evaluation is recorded (wrapped public method) with all iteration files after it, and compared with the session model
(`IterFile.strace`) and with the session oracle (`oracle_session`).  The write protocol is recorded
from the real code (harness-side wrapping of `open`/`write`/`os.replace`), checked to be the
protocol of theorem `C15.crash_safe`, and every crash point is injected for real.
"""

from __future__ import annotations

import json
import math
import os
import subprocess
import sys
from pathlib import Path

import numpy as np

from lib import core
from lib.core import Result, f2b

READY = True
MANIFEST = dict(
    text='Proof (Lean 4): for every history of evaluations the iteration file holds the best evaluated point with finite gradient '
    '(invariant by induction, C15.file_is_best / every_prefix_is_best / never_below_start); re-reading a rendered line returns name and value '
    '(C15.parse_render, names may contain "="); restart overrides exactly the saved names; the write protocol tmp-then-rename is safe at every crash point '
    '(C15.crash_safe, all k, all chunk lists). Tie: correspondence on real BIOGEME objects (file read after every call, real restart, recorded write protocol '
    'compared with the model protocol, every crash point injected for real). Sessions on one object (every entry point that evaluates derivatives, '
    'scaled and unscaled calls mixed, model renamed before/after first use): the best point is in the file of the name the object had when it was evaluated, '
    'the scaled flag is irrelevant, an evaluation touches only the file of the current name (C15.session_*), compared with the real files after every recorded evaluation.',
    design='DESIGN.md §5 C15',
    technique='Lean 4 theorems over an executable state-machine model + differential correspondence with real BIOGEME runs and crash injection',
    note='Partial: CPython float repr/parse round trip and OS rename atomicity are trusted; f and the finite-gradient flag come from the engine.',
)

TRUSTED = [
    'CPython str(float)/float() round trip (values are opaque tokens in the model)',
    'the engine computes f and the gradient; the model receives the real f and the finite-gradient flag',
    'OS: rename is atomic; a stopped process leaves a prefix of the issued write operations',
]
ASSUMPTIONS = [
    'likelihood values compared by >= are not NaN (GeOK hypothesis of the theorems)',
    'sessions: the sample size is 4, so the value returned by a scaled call times N is exactly the log likelihood on the data '
    '(checked against calculate_likelihood on every recorded point)',
]
RULE = (
    'histories of 1-8 evaluations (improving, worsening, tied, non-finite) on 1-3 parameter concave '
    'likelihoods with adversarial names; non-trivial = history with >= 1 worsening or non-finite step after a finite one; '
    'sessions of 3-9 public operations on one object (eval with random scaled/hessian/bhhh flags, check_derivatives, finite-difference hessian, '
    'estimate, quick_estimate, modelName assignments): non-trivial = >= 2 recorded evaluations and (finite evaluations with both scaled flags, or a rename after the first evaluation)'
)

TOML = '[Estimation]\nsave_iterations = "True"\n'

NAME_POOL = ['b10', 'b2', 'alpha', 'zeta', 'B_TIME', 'asc=1', 'β_coût', 'x y', 'a=b=c', 'Z', 'a']


def build(names, tag, rows=3):
    """a concave likelihood in the given free parameters; parameter k is non-finite beyond ~1.01.
    `tag` None: the model is not named (default model name).  `rows` = 4: a sample size that is a power of
    two, so that the value returned by a scaled call times N is exactly the log likelihood on the data."""
    import pandas as pd
    import biogeme.biogeme as bio
    import biogeme.database as db
    from biogeme.expressions import Beta, Variable, exp

    df = pd.DataFrame({'X': [0.25, 0.5, -0.25, 0.375][:rows], 'Y': [700.0] * rows})
    d = db.Database('t', df)
    X = Variable('X')
    Y = Variable('Y')
    ll = None
    for k, n in enumerate(names):
        b = Beta(n, 0.3 + 0.1 * k, None, None, 0)
        if n == sorted(names)[-1]:
            term = -((b + 0.9 - X * 0.1) ** 2)       # optimum of the last parameter near -0.88, next to the singularity at -1
        else:
            term = -((b - X * (k + 1)) ** 2)
        ll = term if ll is None else ll + term
    b0 = Beta(names[0], 0.3, None, None, 0)
    ll = ll - exp(b0 * Y) * 1e-300
    # a term with a finite value but an infinite derivative at b_last = -1 (a point with non-finite gradient whose
    # likelihood is NOT low), zero contribution elsewhere up to 1e-3
    bl = Beta(sorted(names)[-1], 0.3 + 0.1 * names.index(sorted(names)[-1]), None, None, 0)
    ll = ll + ((bl + 1.0) ** 0.5) * 0.001
    B = bio.BIOGEME(d, ll)
    if tag is not None:
        B.modelName = tag
    return B


def read_file(path):
    if not os.path.exists(path):
        return None
    return Path(path).read_text(encoding='utf-8')


def oracle_file(sorted_names, text, evals):
    """property oracle, written from the statement: None when the file is acceptable, else why"""
    finite = [e for e in evals if e['finite']]
    if text is None:
        return None if not finite else 'no file although a finite point was evaluated'
    if not finite:
        return 'file exists although no finite point was evaluated'
    vals, why = parse_iter(sorted_names, text)
    if why:
        return why
    best = max(e['f'] for e in finite)
    for e in finite:
        if e['f'] == best and [f2b(v) for v in e['x']] == [f2b(v) for v in vals]:
            return None
    for e in evals:
        if [f2b(v) for v in e['x']] == [f2b(v) for v in vals]:
            return f'file holds an evaluated point with f={e["f"]}, finite={e["finite"]}; best finite f so far is {best}'
    return 'file holds a point that was never evaluated (bit-for-bit)'


def gen_history(rng, k):
    n = rng.randint(1, 8)
    pts = []
    if rng.random() < 0.3:
        # poor start, then a high point with infinite gradient, then points in between (must be saved)
        opt = [0.16 * (j + 1) for j in range(k)]
        opt[-1] = -0.88
        pts.append([0.5] * k)
        sing = list(opt)
        sing[-1] = -1.0
        pts.append(sing)
        mid = list(opt)
        mid[-1] = -0.5
        pts.append(mid)
        mid2 = list(opt)
        mid2[-1] = -0.8
        pts.append(mid2)
    for i in range(n):
        kind = rng.choice(['rand', 'rand', 'rand', 'repeat', 'nonfinite', 'better'])
        if kind == 'repeat' and pts:
            pts.append(list(rng.choice(pts)))
        elif kind == 'nonfinite':
            x = [rng.uniform(-1, 0.9) for _ in range(k)]
            if rng.random() < 0.5:
                x[0] = rng.choice([2.0, 5.0, 1.5])      # overflow: f = -inf
            else:
                x = [0.16 * (j + 1) for j in range(k)]   # near the optimum in the other coordinates ...
                x[-1] = -1.0                              # ... and on the singularity: f finite and high, gradient infinite
                if k == 1:
                    pass
            pts.append(x)
        elif kind == 'better':
            x = [0.16 * (j + 1) + rng.uniform(-0.05, 0.05) for j in range(k)]
            x[-1] = -0.88 + rng.uniform(-0.05, 0.05)
            pts.append(x)
        else:
            pts.append([rng.choice([rng.uniform(-1, 0.9), rng.randint(-8, 7) / 8.0]) for _ in range(k)])
    return pts


def run_history(names, pts, tag, second=True):
    """real code: returns per step (f, finite, file text), then what a restart reads"""
    out = []
    with core.scratch(TOML):
        B = build(names, tag)
        fname = f'__{tag}.iter'
        sorted_names = list(B.free_beta_names)
        for x in pts:
            r = B.calculate_likelihood_and_derivatives(np.array(x, dtype=float), scaled=False, hessian=False, bhhh=False)
            g = np.linalg.norm(r.gradient)
            out.append({'x': list(map(float, x)), 'f': float(r.function), 'finite': bool(np.isfinite(g)), 'file': read_file(fname)})
        restart = None
        if second:
            B2 = build(names, tag)
            before = dict(zip(B2.free_beta_names, map(float, B2.id_manager.free_betas_values)))
            try:
                B2._load_saved_iteration()
                restart = {'ok': True, 'values': dict(zip(B2.free_beta_names, map(float, B2.id_manager.free_betas_values))), 'before': before}
            except Exception as e:  # noqa: BLE001
                restart = {'ok': False, 'error': f'{type(e).__name__}: {e}', 'before': before}
        others = sorted(p for p in os.listdir('.') if p not in ('biogeme.toml', fname))
    return sorted_names, out, restart, others


def tokens_of_file(text, sorted_names):
    """value tokens of a well-formed file (used for the comparison with the model), else None"""
    if text is None:
        return None
    lines = text.split('\n')[:-1]
    toks = []
    for n, l in zip(sorted_names, lines):
        pre = f'{n} = '
        if not l.startswith(pre):
            return ['<malformed>']
        toks.append(l[len(pre):])
    if len(lines) != len(sorted_names):
        return ['<malformed>']
    return toks


# ----- sessions: several public entry points, option combinations and renames on ONE object --------------

MODEL_NAMES = ['pilot', 'final', 'm', 'M', 'm2', 'run 1', 'modèle', 'a.iter', 'b=1', 'x.tmp', '__m']


def parse_iter(sorted_names, text):
    """complete `name = value` lines, one per free parameter: (values, None) or (None, why)"""
    lines = text.split('\n')
    if lines[-1] != '':
        return None, 'last line incomplete'
    lines = lines[:-1]
    if len(lines) != len(sorted_names):
        return None, f'{len(lines)} lines for {len(sorted_names)} free parameters'
    vals = []
    for n, l in zip(sorted_names, lines):
        pre = f'{n} = '
        if not l.startswith(pre):
            return None, f'line {l!r} does not start with {pre!r}'
        try:
            vals.append(float(l[len(pre):]))
        except ValueError:
            return None, f'value of line {l!r} is not a float'
    return vals, None


def iter_files():
    """model name -> text of __<name>.iter, for every iteration file of the working directory"""
    return {p[2:-5]: read_file(p) for p in sorted(os.listdir('.')) if p.startswith('__') and p.endswith('.iter')}


def gen_point(rng, k, pts, kinds=('rand', 'rand', 'rand', 'repeat', 'nonfinite', 'better', 'better')):
    kind = rng.choice(kinds)
    if kind == 'repeat' and pts:
        return list(rng.choice(pts))
    if kind == 'nonfinite':
        x = [rng.uniform(-1, 0.9) for _ in range(k)]
        if rng.random() < 0.5:
            x[0] = rng.choice([2.0, 5.0, 1.5])           # overflow: f = -inf
        else:
            x = [0.16 * (j + 1) for j in range(k)]
            x[-1] = -1.0                                   # f finite and high, gradient infinite
        return x
    if kind == 'better':
        x = [0.16 * (j + 1) + rng.uniform(-0.05, 0.05) for j in range(k)]
        x[-1] = -0.88 + rng.uniform(-0.05, 0.05)
        return x
    return [rng.choice([rng.uniform(-1, 0.9), rng.randint(-8, 7) / 8.0]) for _ in range(k)]


def gen_session(rng, k):
    """operations on one BIOGEME object: direct evaluations with every combination of scaled/hessian/bhhh (array
    or list argument), check_derivatives, finite-difference hessian, estimate, quick_estimate, and assignments of
    modelName at any moment (before the first use, after it, back to an earlier name)"""
    name0 = None if rng.random() < 0.45 else rng.choice(MODEL_NAMES)
    shape = rng.choice(['free', 'free', 'late_name', 'mixed_scale'])
    n = rng.randint(3, 9)
    ops, pts = [], []
    first_scaled = rng.random() < 0.5
    n_est = 0
    for i in range(n):
        r = rng.random()
        if shape == 'late_name' and i == 0:
            r = rng.choice([0.0, 0.0, 0.75])
        if shape == 'late_name' and i == 1:
            r = 0.6
        if shape == 'mixed_scale':
            r = r * 0.62                                     # evaluations and renames only
        if r < 0.55:
            x = gen_point(rng, k, pts)
            pts.append(x)
            scaled = rng.random() < 0.5
            if shape == 'mixed_scale':
                scaled = first_scaled if len(pts) % 2 else not first_scaled
            ops.append({'k': 'eval', 'x': x, 'scaled': scaled, 'hessian': rng.random() < 0.3, 'bhhh': rng.random() < 0.2,
                        'aslist': rng.random() < 0.3})
        elif r < 0.72:
            ops.append({'k': 'rename', 'name': rng.choice(MODEL_NAMES)})
        elif r < 0.81:
            x = gen_point(rng, k, pts, kinds=('rand', 'better', 'nonfinite'))
            ops.append({'k': 'check', 'x': x})
        elif r < 0.88:
            x = gen_point(rng, k, pts, kinds=('rand', 'better'))
            ops.append({'k': 'fdh', 'x': x})
        elif n_est < 1:
            n_est += 1
            ops.append({'k': rng.choice(['estimate', 'estimate', 'quick_estimate'])})
        else:
            ops.append({'k': 'rename', 'name': rng.choice(MODEL_NAMES)})
    return name0, ops


def run_session(names, name0, ops, rows=4):
    """real code: every derivative evaluation of the object is recorded by wrapping the public method (point, flags,
    model name at the call, log likelihood on the data, finite gradient, all iteration files after the call)"""
    import biogeme.biogeme as bio

    events, errors = [], []
    with core.scratch(TOML):
        B = build(names, name0, rows=rows)
        B.generate_html = False
        B.generate_pickle = False
        sorted_names = list(B.free_beta_names)
        start_name = B.modelName
        n_obs = float(B.database.get_sample_size())
        cur = {'op': None, 'first': None}
        orig = bio.BIOGEME.calculate_likelihood_and_derivatives
        orig_l = bio.BIOGEME.calculate_likelihood

        def spy(self, x, scaled, hessian=False, bhhh=False, batch=None):
            if self is not B:
                return orig(self, x, scaled, hessian, bhhh, batch)
            name = self.modelName
            xs = [float(v) for v in x]
            if cur['first'] is None:
                cur['first'] = xs
            r = orig(self, x, scaled, hessian, bhhh, batch)
            f = float(r.function) * (n_obs if scaled else 1.0)
            g = np.linalg.norm(r.gradient)
            events.append({'k': 'eval', 'op': cur['op'], 'name': name, 'x': xs, 'scaled': bool(scaled), 'hessian': bool(hessian),
                           'bhhh': bool(bhhh), 'f': f, 'finite': bool(np.isfinite(g)), 'files': iter_files()})
            return r

        def spy_l(self, x, *a, **kw):
            if self is B and cur['first'] is None:
                cur['first'] = [float(v) for v in x]
            return orig_l(self, x, *a, **kw)

        bio.BIOGEME.calculate_likelihood_and_derivatives = spy
        bio.BIOGEME.calculate_likelihood = spy_l
        try:
            for i, op in enumerate(ops):
                cur['op'], cur['first'] = i, None
                k = op['k']
                ev = None
                try:
                    if k == 'eval':
                        x = list(op['x']) if op.get('aslist') else np.array(op['x'], dtype=float)
                        B.calculate_likelihood_and_derivatives(x, scaled=op['scaled'], hessian=op['hessian'], bhhh=op['bhhh'])
                    elif k == 'check':
                        B.check_derivatives(np.array(op['x'], dtype=float))
                    elif k == 'fdh':
                        B.likelihood_finite_difference_hessian(np.array(op['x'], dtype=float))
                    elif k == 'rename':
                        B.modelName = op['name']
                        events.append({'k': 'rename', 'op': i, 'name': op['name'], 'files': iter_files()})
                    elif k == 'estimate':
                        files = iter_files()
                        ev = {'k': 'reset', 'op': i, 'name': B.modelName, 'file_before': files.get(B.modelName), 'files': files, 'first': None}
                        events.append(ev)
                        B.estimate()
                    elif k == 'quick_estimate':
                        B.quick_estimate()
                    else:
                        raise ValueError(k)
                except Exception as e:  # noqa: BLE001
                    errors.append(f'op {i} ({k}): {type(e).__name__}: {e}')
                finally:
                    if ev is not None:
                        ev['first'] = cur['first']
        finally:
            bio.BIOGEME.calculate_likelihood_and_derivatives = orig
            bio.BIOGEME.calculate_likelihood = orig_l
        # reference values of the log likelihood on the data (no derivatives, nothing is saved), for the sanity
        # check of the recorded values
        ref = []
        for ev in events:
            if ev['k'] == 'eval':
                try:
                    ref.append(float(B.calculate_likelihood(np.array(ev['x'], dtype=float), scaled=False)))
                except Exception:  # noqa: BLE001
                    ref.append(None)
        others = sorted(p for p in os.listdir('.') if p != 'biogeme.toml' and not (p.startswith('__') and p.endswith('.iter')))
    return {'sorted_names': sorted_names, 'start_name': start_name, 'events': events, 'errors': errors, 'ref': ref, 'others': others}


def oracle_session(sorted_names, events):
    """property oracle on a session, written from the statement (independent of the Lean model).  After EVERY derivative
    evaluation of the object, whatever the entry point and the flags of the call:
      (a) every iteration file is complete and holds bit-for-bit a point evaluated with finite derivatives while the
          model had the name of that file;
      (b1) a point strictly better (log likelihood on the data) than every finite point evaluated since the start of
          the estimation is in the file of the CURRENT model name;
      (b2) a file is only ever replaced by a point at least as good as every finite point evaluated so far, and only
          the file of the current model name is touched;
      (c) estimate() starts from the values of the file of the current model name.
    Returns None or (what, index of the event, observed, expected)."""
    bits = lambda xs: [f2b(v) for v in xs]  # noqa: E731
    seg = []            # f of the finite points evaluated since the start of the estimation
    by_name = {}        # model name -> {bits of a finite point evaluated under that name: its best f}
    prev = {}
    for idx, ev in enumerate(events):
        if ev['k'] == 'reset':
            seg = []
            fb = ev.get('file_before')
            if fb is not None and ev.get('first') is not None:
                vals, why = parse_iter(sorted_names, fb)
                if why is None and bits(vals) != bits(ev['first']):
                    return ('estimate() does not start from the values saved in the file of the current model name '
                            f'{ev["name"]!r}', idx, ev['first'], vals)
            continue
        files = ev['files']
        if ev['k'] == 'rename':
            if files != prev:
                return (f'assigning modelName = {ev["name"]!r} changed the iteration files', idx, files, prev)
            continue
        name, xb, f = ev['name'], tuple(bits(ev['x'])), ev['f']
        finite = ev['finite']
        if finite and math.isnan(f):
            return None          # assumption of the property check (no NaN likelihood at a finite gradient) not met
        prior = max(seg) if seg else None
        if finite:
            d = by_name.setdefault(name, {})
            d[xb] = max(f, d.get(xb, -math.inf))
        content = {}
        for m, text in sorted(files.items()):
            vals, why = parse_iter(sorted_names, text)
            if why:
                return (f'iteration file of model {m!r}: {why}', idx, text, 'complete name = value lines')
            vb = tuple(bits(vals))
            content[m] = vb
            if vb not in by_name.get(m, {}):
                elsewhere = sorted(o for o, dd in by_name.items() if vb in dd)
                return (f'iteration file of model {m!r} holds a point that was not evaluated with finite derivatives under '
                        f'that model name' + (f' (it was evaluated under {elsewhere})' if elsewhere else ''), idx, text,
                        'an evaluated point of that model')
        for m in sorted(set(files) | set(prev)):
            if files.get(m) == prev.get(m):
                continue
            if m not in files:
                return (f'iteration file of model {m!r} disappeared', idx, None, prev.get(m))
            if m != name:
                return (f'an evaluation under the model name {name!r} rewrote the iteration file of model {m!r}', idx,
                        files[m], prev.get(m))
            fc = by_name[m][content[m]]
            if prior is not None and fc < prior:
                return (f'iteration file of model {m!r} replaced by a point with log likelihood {fc}, worse than the best '
                        f'finite point evaluated so far ({prior})', idx, files[m], 'the best point evaluated so far')
        if finite and (prior is None or f > prior):
            if name not in files:
                return (f'a new best point (log likelihood {f}, previous best {prior}) was evaluated under the model name '
                        f'{name!r} but __{name}.iter does not exist', idx, sorted(files), f'__{name}.iter holding the point')
            if content[name] != xb:
                return (f'a new best point (log likelihood {f}, previous best {prior}) was evaluated under the model name '
                        f'{name!r} but __{name}.iter does not hold it', idx, files[name], ev['x'])
        if finite:
            seg.append(f)
        prev = files
    return None


def session_case(names, name0, ops):
    return {'session': True, 'names': names, 'name0': name0, 'ops': ops}


def session_view(events, upto):
    """compact description of the recorded evaluations for a report"""
    return [
        {q: ev[q] for q in ('k', 'op', 'name', 'x', 'scaled', 'hessian', 'f', 'finite') if q in ev}
        for ev in events[: upto + 1]
    ][-12:]


def apply_session_oracle(res, case, out):
    """sanity of the recorded values, then the property oracle; True when a violation was reported"""
    evals = [ev for ev in out['events'] if ev['k'] == 'eval']
    for ev, rf in zip(evals, out['ref']):
        if rf is None or math.isnan(rf) or math.isnan(ev['f']):
            continue
        if not (ev['f'] == rf or core.close(ev['f'], rf, 1e-9, 1e-12)):
            res.diverge('value returned by an evaluation (times N when scaled) is not the log likelihood on the data; '
                        'session oracle not applied', case, rf, {q: ev[q] for q in ('x', 'scaled', 'f')})
            return False
    bad = oracle_session(out['sorted_names'], out['events'])
    if bad:
        what, idx, observed, expected = bad
        res.violate(what, {**case, 'event': idx, 'recorded': session_view(out['events'], idx)}, observed, expected,
                    where='iteration file over a session on one object (entry points, scaled flags, modelName)')
        return True
    return False


def check_session(ctx, res, names, name0, ops):
    out = run_session(names, name0, ops)
    case = session_case(names, name0, ops)
    events = out['events']
    evals = [ev for ev in events if ev['k'] == 'eval']
    mixed = len({ev['scaled'] for ev in evals if ev['finite']}) > 1
    renamed_after_use = any(e1['k'] == 'eval' and e2['k'] == 'rename' and e2['name'] != e1['name']
                            for i, e1 in enumerate(events) for e2 in events[i + 1:])
    res.count(case, nontrivial=len(evals) >= 2 and (mixed or renamed_after_use))
    res.tally('session')
    for ev in evals:
        res.tally('session eval scaled' if ev['scaled'] else 'session eval unscaled')
    for o in ops:
        res.tally('session op ' + o['k'])
    if mixed:
        res.tally('session with scaled and unscaled finite evaluations')
    if renamed_after_use:
        res.tally('session renamed after first use')
    for e in out['errors']:
        # an operation that raised (e.g. a list argument at a point with non-finite gradient: the warning text needs an
        # array) saved nothing; the files observed by the later operations are still checked
        res.tally('session op raised ' + e.split(': ')[1])
    if out['others'] and any(not o.endswith('.tmp') for o in out['others']):
        res.diverge('unexpected files next to the iteration files', case, [], out['others'])
    apply_session_oracle(res, case, out)
    # the Lean model on the same session (deferred)
    sn = out['sorted_names']
    ops_m = []
    for ev in events:
        if ev['k'] == 'eval':
            ops_m.append({'k': 'eval', 'x': [str(np.float64(v)) for v in ev['x']], 'f': f2b(ev['f']), 'finite': ev['finite'], 'scaled': ev['scaled']})
        elif ev['k'] == 'rename':
            ops_m.append({'k': 'rename', 'name': ev['name']})
        else:
            ops_m.append({'k': 'reset'})
    if not ops_m:
        return out
    observed = [[[m, tokens_of_file(t, sn)] for m, t in sorted(ev['files'].items())] for ev in events]

    def cb(ans):
        model = ans[0].get('files')
        if model is None or len(model) != len(observed):
            res.diverge('IterFile.strace on a session', case, ans[0], len(observed))
            return
        for i, (mo, ob) in enumerate(zip(model, observed)):
            if mo != ob:
                res.diverge(f'iteration files after recorded event {i} of a session ({events[i]["k"]})',
                            {**case, 'recorded': session_view(events, i)}, mo, ob)
                break

    ctx.batch.add_many([{'op': 'session', 'name': out['start_name'], 'ops': ops_m}], cb)
    return out


SESSION_CORPUS = [
    # the model is named after its first use: the better point belongs in the file of the new name
    {'names': ['b'], 'name0': None, 'ops': [
        {'k': 'eval', 'x': [0.5], 'scaled': False, 'hessian': False, 'bhhh': False},
        {'k': 'rename', 'name': 'final'},
        {'k': 'eval', 'x': [-0.5], 'scaled': False, 'hessian': False, 'bhhh': False},
        {'k': 'eval', 'x': [-0.8], 'scaled': False, 'hessian': True, 'bhhh': False}]},
    # derivatives checked before the model is named, then estimated under its name
    {'names': ['zeta', 'alpha'], 'name0': None, 'ops': [
        {'k': 'check', 'x': [0.5, 0.5]}, {'k': 'rename', 'name': 'run 1'}, {'k': 'estimate'}]},
    # scaled and unscaled calls mixed: the marker is on the scale of the data log likelihood
    {'names': ['b'], 'name0': 'm', 'ops': [
        {'k': 'eval', 'x': [0.75], 'scaled': True, 'hessian': False, 'bhhh': False},
        {'k': 'eval', 'x': [0.25], 'scaled': False, 'hessian': False, 'bhhh': False},
        {'k': 'eval', 'x': [0.5], 'scaled': True, 'hessian': False, 'bhhh': False},
        {'k': 'eval', 'x': [-0.8], 'scaled': False, 'hessian': False, 'bhhh': False}]},
    {'names': ['b10', 'b2'], 'name0': 'm', 'ops': [
        {'k': 'eval', 'x': [0.1, -0.8], 'scaled': False, 'hessian': False, 'bhhh': True},
        {'k': 'eval', 'x': [0.5, 0.5], 'scaled': True, 'hessian': True, 'bhhh': False, 'aslist': True},
        {'k': 'fdh', 'x': [0.4, 0.4]},
        {'k': 'eval', 'x': [0.2, -0.5], 'scaled': True, 'hessian': False, 'bhhh': False}]},
    # back to an earlier name
    {'names': ['a'], 'name0': 'pilot', 'ops': [
        {'k': 'eval', 'x': [0.75], 'scaled': False, 'hessian': False, 'bhhh': False},
        {'k': 'rename', 'name': 'final'},
        {'k': 'eval', 'x': [-0.5], 'scaled': True, 'hessian': False, 'bhhh': False},
        {'k': 'rename', 'name': 'pilot'},
        {'k': 'eval', 'x': [0.25], 'scaled': False, 'hessian': False, 'bhhh': False},
        {'k': 'eval', 'x': [-0.85], 'scaled': False, 'hessian': False, 'bhhh': False},
        {'k': 'quick_estimate'}]},
]


# ----- crash injection -------------------------------------------------------------------------

CHILD = r'''
import sys, os, json, builtins
sys.path.insert(0, {harness!r})
import warnings; warnings.simplefilter('ignore')
import numpy as np
from props import c15
spec = json.loads(sys.argv[1])
os.chdir(spec['dir'])
B = c15.build(spec['names'], spec['tag'])
import biogeme.biogeme as bb
trace = []
limit = spec['k']
def tick():
    if limit is not None and len(trace) >= limit:
        sys.stdout.write('@@TRACE@@' + json.dumps(trace)); sys.stdout.flush()
        os._exit(0)
real_open = builtins.open
class Proxy:
    def __init__(self, path, f):
        self.path, self.f = path, f
    def write(self, s):
        self.f.write(s); self.f.flush(); os.fsync(self.f.fileno())
        trace.append(['write', self.path, s]); tick()
        return len(s)
    def __enter__(self): return self
    def __exit__(self, *a):
        self.f.close(); trace.append(['close', self.path]); tick(); return False
    def close(self):
        self.f.close(); trace.append(['close', self.path]); tick()
    def flush(self): self.f.flush()
def my_open(path, mode='r', *a, **k):
    if isinstance(path, str) and '.iter' in path and 'w' in mode:
        f = real_open(path, mode, *a, **k)
        trace.append(['open', path]); tick()
        return Proxy(path, f)
    return real_open(path, mode, *a, **k)
bb.open = my_open
real_replace = os.replace
def my_replace(s, t, *a, **k):
    real_replace(s, t, *a, **k)
    trace.append(['replace', s, t]); tick()
os.replace = my_replace
real_rename = os.rename
def my_rename(s, t, *a, **k):
    real_rename(s, t, *a, **k)
    trace.append(['replace', s, t]); tick()
os.rename = my_rename
tick()
B.calculate_likelihood_and_derivatives(np.array(spec['x'], dtype=float), scaled=False, hessian=False, bhhh=False)
sys.stdout.write('@@TRACE@@' + json.dumps(trace)); sys.stdout.flush()
'''


def crash_child(d, names, tag, x, k):
    code = CHILD.format(harness=str(core.VERIF / 'harness'))
    spec = json.dumps({'dir': str(d), 'names': names, 'tag': tag, 'x': x, 'k': k})
    env = dict(os.environ)
    env['PYTHONWARNINGS'] = 'ignore'
    p = subprocess.run([core.PY, '-c', code, spec], capture_output=True, text=True, timeout=300, env=env)
    if '@@TRACE@@' not in p.stdout:
        raise RuntimeError('crash child failed: ' + p.stderr[-1500:])
    return json.loads(p.stdout.split('@@TRACE@@', 1)[1])


def crash_experiment(ctx, res, names, tag, x_old, x_new):
    """one save over an existing file; full trace to the model, then every crash point for real"""
    with core.scratch(TOML) as d:
        fname = f'__{tag}.iter'
        # a first complete save (no crash) creates the old file, unless x_old is None
        if x_old is not None:
            crash_child(d, names, tag, x_old, None)
        old = read_file(d / fname)
        saved_old = old
        full = crash_child(d, names, tag, x_new, None)
        new = read_file(d / fname)
        case = {'names': names, 'x_old': x_old, 'x_new': x_new}
        # (ii) every crash point for real (before asking the model: one driver batch at the end)
        observed = []
        for k in range(len(full) + 1):
            for p in os.listdir(d):
                if p != 'biogeme.toml':
                    os.unlink(d / p)
            if saved_old is not None:
                Path(d / fname).write_text(saved_old, encoding='utf-8')
            crash_child(d, names, tag, x_new, k)
            got = read_file(d / fname)
            observed.append(got)
            res.tally('crash_points')
            if got != saved_old and got != new:
                res.violate(
                    f'a stop after primitive file operation {k} of a save leaves a partial iteration file',
                    {**case, 'crash_after': k, 'trace': full},
                    got,
                    [saved_old, new],
                    where='calculate_likelihood_and_derivatives: write of the iteration file',
                )
            else:
                # the restart must succeed from whatever is there
                cwd = os.getcwd()
                try:
                    os.chdir(d)
                    B2 = build(names, tag)
                    B2._load_saved_iteration()
                except Exception as e:  # noqa: BLE001
                    res.violate(
                        f'restart fails after a stop at primitive operation {k}: {type(e).__name__}: {e}',
                        {**case, 'crash_after': k}, got, 'restart succeeds', where='_load_saved_iteration')
                finally:
                    os.chdir(cwd)
        # (i) the recorded protocol is the one of theorem crash_safe, for its own chunks
        chunks = [op[2] for op in full if op[0] == 'write']
        tmp = full[0][1] if full and full[0][0] == 'open' else None
        req = [
            {'op': 'protocol', 'tmp': tmp or '?', 'file': fname, 'chunks': chunks},
            {'op': 'crash', 'dir': ([[fname, old]] if old is not None else []), 'ops': full, 'file': fname, 'new': new or ''},
        ]
        res.count({'crash_protocol': case, 'trace': full}, nontrivial=x_old is not None)
        res.traces_validated += 1

        def cb(ans):
            shape_ok = ans[0].get('ops') == full and ans[0].get('content') == new and tmp != fname
            if not shape_ok:
                res.diverge('write protocol differs from IterFile.protocol (hypothesis of C15.crash_safe)', case, ans[0].get('ops'), full)
            if not ans[1].get('safe'):
                res.diverge('recorded protocol is not crash safe in the model', case, ans[1], full)
            states = ans[1].get('states', [])
            for k, got in enumerate(observed):
                ms = states[k] if k < len(states) else '<none>'
                if got != ms:
                    res.diverge(f'directory after a stop at primitive operation {k}', case, ms, got)

        ctx.batch.add_many(req, cb)


# ----- the check ----------------------------------------------------------------------------------

CORPUS = [
    # F08: latest-not-worse-than-first instead of best
    {'names': ['b'], 'pts': [[-1.0], [0.25], [0.0]]},
    {'names': ['zeta', 'alpha'], 'pts': [[0.0, 0.0], [0.16, 0.32], [0.1, 0.1], [2.0, 0.0], [0.5, 0.5]]},
    # F16: '=' in a name
    {'names': ['asc=1', 'b'], 'pts': [[0.0, 0.0], [0.1, 0.1]]},
    # a high-likelihood point with infinite gradient must not raise the best-so-far marker
    {'names': ['b'], 'pts': [[0.5], [-1.0], [-0.5], [-0.8]]},
    {'names': ['zeta', 'alpha'], 'pts': [[0.5, 0.5], [0.16, -1.0], [0.16, -0.5], [0.16, -0.8]]},
]


def check_history(ctx, res, names, pts, tag):
    sorted_names, steps, restart, others = run_history(names, pts, tag)
    case = {'names': names, 'points': pts}
    worse_or_nonfinite = any(
        (not s['finite']) or (i > 0 and s['f'] < max([t['f'] for t in steps[:i] if t['finite']] or [-math.inf]))
        for i, s in enumerate(steps)
    )
    res.count(case, nontrivial=worse_or_nonfinite and len(steps) >= 2)
    for s in steps:
        res.tally('finite' if s['finite'] else 'nonfinite')
    # property oracle on the real outputs
    for i, s in enumerate(steps):
        why = oracle_file(sorted_names, s['file'], steps[: i + 1])
        if why:
            res.violate(
                f'iteration file after evaluation {i}: {why}',
                {**case, 'step': i, 'f': [t['f'] for t in steps[: i + 1]], 'finite': [t['finite'] for t in steps[: i + 1]]},
                s['file'],
                'complete file holding the best evaluated point with finite derivatives',
                where='calculate_likelihood_and_derivatives (save_iterations)',
            )
            break
    if others:
        res.notes.append(f'other files left in the directory: {others}')
        if any(not o.endswith('.tmp') for o in others):
            res.diverge('unexpected files next to the iteration file', case, [], others)
    final = steps[-1]['file'] if steps else None
    toks = tokens_of_file(final, sorted_names)
    if restart is not None and not restart['ok']:
        res.violate(
            f'restart from the saved file fails: {restart["error"]}', case, restart, 'restart succeeds', where='_load_saved_iteration')
    # model (deferred: one driver batch for the whole run)
    reqs = [{
        'op': 'history',
        'init_file': None,
        'evals': [{'x': [str(np.float64(v)) for v in s['x']], 'f': f2b(s['f']), 'finite': s['finite']} for s in steps],
    }]
    if restart is not None and restart['ok']:
        inits = [[n, repr(restart['before'][n])] for n in sorted_names]
        filej = None if toks is None else [[n, t] for n, t in zip(sorted_names, toks)]
        reqs.append({'op': 'restart', 'inits': inits, 'file': filej})
    else:
        reqs.append({'op': 'restart', 'inits': [], 'file': None})
    well = toks is not None and toks != ['<malformed>']
    render_reqs = [{'op': 'render', 'name': n, 'value': t} for n, t in zip(sorted_names, toks)] if well else []
    parse_reqs = [{'op': 'parse', 'line': l} for l in final.split('\n')[:-1]] if well else []

    def cb(ans):
        model_files = ans[0].get('files')
        for i, s in enumerate(steps):
            got = tokens_of_file(s['file'], sorted_names)
            exp = model_files[i] if model_files else '<no model>'
            if got != exp:
                res.diverge(f'file content after evaluation {i}', case, exp, got)
        if restart is not None and restart['ok']:
            exp = {n: float(v) for n, v in ans[1]['inits']}
            got = restart['values']
            if {n: f2b(v) for n, v in exp.items()} != {n: f2b(v) for n, v in got.items()}:
                res.diverge('starting values after _load_saved_iteration', case, exp, got)
                if well:
                    res.violate('a later estimation does not start from the saved values', case, got, exp, where='_load_saved_iteration')
        if well:
            lines = final.split('\n')[:-1]
            r_out = ans[2 : 2 + len(render_reqs)]
            p_out = ans[2 + len(render_reqs) :]
            if [o.get('line') for o in r_out] != lines:
                res.diverge('text of the file vs IterFile.renderLine', case, [o.get('line') for o in r_out], lines)
            exp_pairs = [[n, t] for n, t in zip(sorted_names, toks)]
            got_pairs = [[o.get('name'), o.get('value')] for o in p_out]
            if got_pairs != exp_pairs:
                res.diverge('IterFile.parseLine on the real file text', case, got_pairs, exp_pairs)

    ctx.batch.add_many(reqs + render_reqs + parse_reqs, cb)
    return steps


def check(ctx) -> Result:
    res = Result(rule=RULE, tolerance='exact (bit patterns and strings)')
    rng = ctx.rng
    tagc = 0
    for c in CORPUS:
        tagc += 1
        check_history(ctx, res, c['names'], c['pts'], f'm{tagc}')
        res.tally('corpus')
    n_hist = ctx.n(40, 1500)
    for _ in range(n_hist):
        k = rng.randint(1, 3)
        names = rng.sample(NAME_POOL, k)
        pts = gen_history(rng, k)
        tagc += 1
        check_history(ctx, res, names, pts, f'm{tagc}')
        res.tally(f'params={k}')
        res.tally(f'len={len(pts)}')
        if len(res.violations) > 3:
            break
    # sessions on one object: entry points x option combinations x renames
    for c in SESSION_CORPUS:
        check_session(ctx, res, c['names'], c['name0'], c['ops'])
        res.tally('corpus')
    for _ in range(ctx.n(110, 2000)):
        if len(res.violations) > 3:
            break
        k = rng.randint(1, 3)
        names = rng.sample(NAME_POOL, k)
        name0, ops = gen_session(rng, k)
        check_session(ctx, res, names, name0, ops)
    # crash points
    n_crash = ctx.n(2, 12)
    for i in range(n_crash):
        k = rng.randint(1, 3)
        names = rng.sample(NAME_POOL, k)
        x_old = None if i == 0 else [rng.uniform(-1, 0.0) for _ in range(k)]
        x_new = [0.16 * (j + 1) for j in range(k)]
        tagc += 1
        crash_experiment(ctx, res, names, f'm{tagc}', x_old, x_new)
    # a real estimate() starts from the file (spy on the first evaluated point)
    for i in range(ctx.n(3, 10)):
        k = rng.randint(1, 3)
        names = rng.sample(NAME_POOL, k)
        estimate_restart(ctx, res, names, [rng.choice([0.0, 0.0, rng.randint(-6, 6) / 8.0]) for _ in range(k)], f'e{i}')
    ctx.batch.flush()
    return res


def estimate_restart(ctx, res, names, saved, tag):
    import biogeme.biogeme as bio

    with core.scratch(TOML):
        B = build(names, tag)
        sorted_names = list(B.free_beta_names)
        Path(f'__{tag}.iter').write_text(''.join(f'{n} = {v}\n' for n, v in zip(sorted_names, saved)), encoding='utf-8')
        seen = []
        orig = bio.BIOGEME.calculate_likelihood_and_derivatives

        def spy(self, x, *a, **k):
            seen.append([float(v) for v in x])
            return orig(self, x, *a, **k)

        orig_l = bio.BIOGEME.calculate_likelihood

        def spy_l(self, x, *a, **k):
            seen.append([float(v) for v in x])
            return orig_l(self, x, *a, **k)

        bio.BIOGEME.calculate_likelihood_and_derivatives = spy
        bio.BIOGEME.calculate_likelihood = spy_l
        try:
            B.generate_html = False
            B.generate_pickle = False
            B.estimate()
        except Exception as e:  # noqa: BLE001
            res.notes.append(f'estimate() raised {type(e).__name__}: {e}')
        finally:
            bio.BIOGEME.calculate_likelihood_and_derivatives = orig
            bio.BIOGEME.calculate_likelihood = orig_l
        case = {'names': names, 'saved': saved}
        res.count({'estimate_restart': case}, nontrivial=True)
        if not seen:
            res.diverge('estimate() evaluated nothing', case, saved, seen)
        elif [f2b(v) for v in seen[0]] != [f2b(v) for v in saved]:
            res.diverge('first point evaluated by estimate()', case, saved, seen[0])
            res.violate('a later estimation does not start from the saved values', case, seen[0], saved, where='estimate / _load_saved_iteration')


def search(ctx, res, broken):
    """something broke without a concrete failing input: widen the generated stream and apply the
    property oracle on the real code"""
    rng = core.rng_for('C15-search', ctx.seed)
    for i in range(150):
        k = rng.randint(1, 3)
        names = rng.sample(NAME_POOL, k)
        name0, ops = gen_session(rng, k)
        r2 = Result()
        if apply_session_oracle(r2, session_case(names, name0, ops), run_session(names, name0, ops)):
            res.violations.extend(r2.violations[:1])
            return
    for i in range(300):
        k = rng.randint(1, 3)
        names = rng.sample(NAME_POOL, k)
        pts = gen_history(rng, k)
        r2 = Result()
        try:
            check_history(ctx, r2, names, pts, f's{i}')
            ctx.batch.items.clear()
        except core.LeanError:
            # model unavailable: oracle only
            sorted_names, steps, restart, _ = run_history(names, pts, f's{i}')
            for j, s in enumerate(steps):
                why = oracle_file(sorted_names, s['file'], steps[: j + 1])
                if why:
                    r2.violate(f'iteration file after evaluation {j}: {why}', {'names': names, 'points': pts}, s['file'], 'best finite point')
                    break
            if restart and not restart['ok']:
                r2.violate(f'restart fails: {restart["error"]}', {'names': names, 'points': pts}, restart, 'restart succeeds')
        if r2.violations:
            res.violations.extend(r2.violations[:1])
            return


def replay(ctx, obj):
    case = obj.get('case', {})
    out = {'replayed': obj.get('what')}
    if case.get('session'):
        r = Result()
        o = run_session(case['names'], case['name0'], case['ops'])
        fails = apply_session_oracle(r, session_case(case['names'], case['name0'], case['ops']), o)
        out.update({'property_fails': bool(fails), 'why': r.violations[0]['what'] if r.violations else None,
                    'recorded': session_view(o['events'], len(o['events']))})
    elif 'points' in case:
        sorted_names, steps, restart, _ = run_history(case['names'], case['points'], 'replay')
        fails = None
        for j, s in enumerate(steps):
            why = oracle_file(sorted_names, s['file'], steps[: j + 1])
            if why:
                fails = f'step {j}: {why}'
                break
        if restart and not restart['ok']:
            fails = fails or restart['error']
        out.update({'observed': [s['file'] for s in steps], 'f': [s['f'] for s in steps], 'property_fails': bool(fails), 'why': fails})
    elif 'crash_after' in case:
        r = Result()
        crash_experiment(ctx, r, case['names'], 'replay', case.get('x_old'), case['x_new'])
        ctx.batch.items.clear()
        out.update({'property_fails': bool(r.violations), 'violations': r.violations[:2]})
    else:
        out.update({'property_fails': False, 'note': 'nothing to replay (no concrete input in this file)'})
    return out
